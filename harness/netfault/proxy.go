// Package netfault is a TCP proxy that injects faults between a client and a server: connection cuts (FIN or RST)
// on demand or after a number of forwarded bytes, outages (nothing is accepted), and a switch of the upstream
// address (server restart). It records every connection attempt it sees.
package netfault

import (
	"net"
	"sync"
	"sync/atomic"
	"time"
)

type Proxy struct {
	L        net.Listener
	mu       sync.Mutex
	upstream string
	outage   bool
	conns    map[*pair]bool
	cutAfter int64 // > 0: the next connection is cut after that many bytes (both directions summed)
	cutRST   bool
	cutHole  bool // instead of cutting, the connection stays open and everything after the budget is swallowed

	Attempts int64 // connections accepted by the listener (including those refused during an outage)
	Cuts     int64
	Bytes    int64
}

type pair struct {
	a, b   net.Conn
	once   sync.Once
	budget int64 // bytes until the cut; <= 0: none
	rst    bool
	hole   bool
	dead   int32 // hole reached: nothing is forwarded any more
	p      *Proxy
	fwd    int64
}

func New(upstream string) (*Proxy, error) {
	l, err := net.Listen("tcp", "127.0.0.1:0")
	if err != nil {
		return nil, err
	}
	p := &Proxy{L: l, upstream: upstream, conns: map[*pair]bool{}}
	go p.loop()
	return p, nil
}

func (p *Proxy) Addr() string     { return p.L.Addr().String() }
func (p *Proxy) Endpoint() string { return "opc.tcp://" + p.Addr() }

func (p *Proxy) SetUpstream(addr string) { p.mu.Lock(); p.upstream = addr; p.mu.Unlock() }
func (p *Proxy) SetOutage(on bool)       { p.mu.Lock(); p.outage = on; p.mu.Unlock() }

// CutNextAfter arms a cut of the next accepted connection after n forwarded bytes.
func (p *Proxy) CutNextAfter(n int64, rst bool) {
	p.mu.Lock()
	p.cutAfter, p.cutRST = n, rst
	p.mu.Unlock()
}

// HoleNextAfter arms a black hole on the next accepted connection: after n forwarded bytes nothing is forwarded any
// more in either direction, but the connection stays open (a hung peer).
func (p *Proxy) HoleNextAfter(n int64) {
	p.mu.Lock()
	p.cutAfter, p.cutRST, p.cutHole = n, false, true
	p.mu.Unlock()
}

// NumAttempts returns the number of connection attempts seen so far.
func (p *Proxy) NumAttempts() int64 { return atomic.LoadInt64(&p.Attempts) }

// Live returns the number of connections currently forwarded.
func (p *Proxy) Live() int {
	p.mu.Lock()
	defer p.mu.Unlock()
	return len(p.conns)
}

// DropAll cuts every live connection; with rst the client side sees a reset.
func (p *Proxy) DropAll(rst bool) int {
	p.mu.Lock()
	var ps []*pair
	for c := range p.conns {
		ps = append(ps, c)
	}
	p.mu.Unlock()
	for _, c := range ps {
		c.rst = rst
		c.close()
	}
	return len(ps)
}

func (p *Proxy) Close() {
	p.L.Close()
	p.DropAll(false)
}

func (c *pair) close() {
	c.once.Do(func() {
		if c.rst {
			if t, ok := c.a.(*net.TCPConn); ok {
				t.SetLinger(0)
			}
		}
		c.a.Close()
		if c.b != nil {
			c.b.Close()
		}
		c.p.mu.Lock()
		delete(c.p.conns, c)
		c.p.mu.Unlock()
		atomic.AddInt64(&c.p.Cuts, 1)
	})
}

func (p *Proxy) loop() {
	for {
		a, err := p.L.Accept()
		if err != nil {
			return
		}
		atomic.AddInt64(&p.Attempts, 1)
		p.mu.Lock()
		up, out := p.upstream, p.outage
		budget, rst, hole := p.cutAfter, p.cutRST, p.cutHole
		p.cutAfter, p.cutHole = 0, false
		p.mu.Unlock()
		if out {
			if t, ok := a.(*net.TCPConn); ok {
				t.SetLinger(0)
			}
			a.Close()
			continue
		}
		go func() {
			b, err := net.DialTimeout("tcp", up, 2*time.Second)
			if err != nil {
				a.Close()
				return
			}
			c := &pair{a: a, b: b, budget: budget, rst: rst, hole: hole, p: p}
			p.mu.Lock()
			p.conns[c] = true
			p.mu.Unlock()
			go c.pipe(a, b)
			go c.pipe(b, a)
		}()
	}
}

func (c *pair) pipe(dst, src net.Conn) {
	buf := make([]byte, 32*1024)
	for {
		n, err := src.Read(buf)
		if n > 0 {
			out := buf[:n]
			if atomic.LoadInt32(&c.dead) == 1 {
				continue
			}
			if c.budget > 0 {
				done := atomic.AddInt64(&c.fwd, int64(n))
				if done >= c.budget {
					keep := int64(n) - (done - c.budget)
					if keep > 0 {
						dst.Write(out[:keep])
					}
					if c.hole {
						atomic.StoreInt32(&c.dead, 1)
						continue
					}
					c.close()
					return
				}
			}
			atomic.AddInt64(&c.p.Bytes, int64(n))
			if _, werr := dst.Write(out); werr != nil {
				c.close()
				return
			}
		}
		if err != nil {
			c.close()
			return
		}
	}
}
