package fw

import (
	"fmt"
	"regexp"
	"runtime/debug"
	"strings"
)

var frameRe = regexp.MustCompile(`^(github\.com/gopcua/opcua[^\s(]*(?:\([^)]*\))?[^\s(]*)\(`)
var digitsRe = regexp.MustCompile(`-?\d+`)

// TopRepoFrame returns the top-most function of a stack trace that lies inside gopcua.
func TopRepoFrame(stack string) string {
	for _, line := range strings.Split(stack, "\n") {
		line = strings.TrimSpace(line)
		if m := frameRe.FindStringSubmatch(line); m != nil {
			f := m[1]
			if strings.Contains(f, "verif") && strings.Contains(f, "Verif") {
				continue
			}
			return strings.TrimPrefix(f, "github.com/gopcua/opcua/")
		}
	}
	return "?"
}

// MsgClass strips numbers from a panic message so that one defect has one key.
func MsgClass(msg string) string {
	msg = digitsRe.ReplaceAllString(msg, "N")
	if len(msg) > 80 {
		msg = msg[:80]
	}
	return msg
}

type Panic struct {
	Msg   string
	Frame string
	Stack string
}

func (p *Panic) Key() string { return "panic:" + p.Frame + ":" + MsgClass(p.Msg) }

// Catch runs f and reports a panic raised synchronously by it.
func Catch(f func()) (p *Panic) {
	defer func() {
		if r := recover(); r != nil {
			st := string(debug.Stack())
			// drop the frames of recover/Catch itself: TopRepoFrame skips non-repo frames anyway
			p = &Panic{Msg: fmt.Sprint(r), Frame: TopRepoFrame(st), Stack: st}
		}
	}()
	f()
	return nil
}

var fatalRe = regexp.MustCompile(`(?m)^(panic: .*|fatal error: .*|unexpected signal.*)$`)

// CrashKey derives a finding key from the stderr of a process that died: the top-most
// gopcua frame of the crashing goroutine plus the class of the message.
func CrashKey(stderr string) (key, msg string) {
	loc := fatalRe.FindStringIndex(stderr)
	msg = "process died"
	tail := stderr
	if loc != nil {
		msg = stderr[loc[0]:loc[1]]
		tail = stderr[loc[0]:]
	}
	return "crash:" + TopRepoFrame(tail) + ":" + MsgClass(msg), msg
}
