// Package fw is the small framework shared by all property workers: batch
// context, case journal (write-ahead, so that a process-fatal error leaves the
// offending case on disk), tallies, violation records and result files that
// the Python driver merges into evidence/<id>.json.
package fw

import (
	"encoding/binary"
	"encoding/json"
	"fmt"
	"hash/fnv"
	"math/rand"
	"os"
	"path/filepath"
	"sort"
	"sync"
	"time"
)

// Plan tells the driver how to run a property at a tier.
type Plan struct {
	Batches       int      `json:"batches"`        // number of child processes
	Parallel      int      `json:"parallel"`       // how many at once (0 = all cores)
	TimeoutS      int      `json:"timeout_s"`      // generous wall-clock watchdog per batch (inconclusive, not a verdict)
	Race          bool     `json:"race"`           // also needs the -race build
	MinNontrivial int      `json:"min_nontrivial"` // fewer distinct non-trivial cases than this = check broken (exit 2)
	Level         string   `json:"level"`          // evidence level
	Rule          string   `json:"rule"`           // how cases are generated / what is non-trivial
	Assumptions   []string `json:"assumptions"`
	Exhaustive    bool     `json:"exhaustive,omitempty"`
	MemLimitMB    int      `json:"mem_limit_mb,omitempty"` // RLIMIT_AS of each child (0 = none)
}

// Spec is what a property registers.
type Spec struct {
	Plan   func(tier string) Plan
	Run    func(c *Ctx) error
	Replay func(c *Ctx, witness json.RawMessage) error
}

var registry = map[string]Spec{}

func Register(id string, s Spec) { registry[id] = s }
func Lookup(id string) (Spec, bool) {
	s, ok := registry[id]
	return s, ok
}
func IDs() []string {
	var ids []string
	for k := range registry {
		ids = append(ids, k)
	}
	sort.Strings(ids)
	return ids
}

type Violation struct {
	Key     string          `json:"key"`
	Desc    string          `json:"desc"`
	Witness json.RawMessage `json:"witness"`
	Count   int             `json:"count"`
}

type Extremum struct {
	Value   float64         `json:"value"`
	Witness json.RawMessage `json:"witness,omitempty"`
}

// Result is what one batch writes.
type Result struct {
	Property     string                 `json:"property"`
	Batch        int                    `json:"batch"`
	Evaluations  int64                  `json:"evaluations"`
	Nontrivial   int64                  `json:"nontrivial"` // distinct within this batch
	Classes      map[string]int64       `json:"classes"`
	Samples      []json.RawMessage      `json:"samples"`
	Violations   map[string]*Violation  `json:"violations"`
	Inconclusive map[string]int64       `json:"inconclusive"`
	Extrema      map[string]*Extremum   `json:"extrema"`
	Extra        map[string]interface{} `json:"extra"`
	LastCase     int64                  `json:"last_case"` // highest case index completed (for resume after a crash)
	Complete     bool                   `json:"complete"`
	WallS        float64                `json:"wall_s"`
}

type Ctx struct {
	Prop   string
	Tier   string
	Seed   int64
	Batch  int
	NBatch int
	Dir    string
	Resume int64 // first case index to execute (cases below are skipped)

	mu       sync.Mutex
	res      Result
	distinct map[uint64]struct{}
	journal  *os.File
	start    time.Time
	lastCkpt time.Time
	maxSamp  int
}

func NewCtx(prop, tier string, seed int64, batch, nbatch int, dir string, resume int64) (*Ctx, error) {
	if err := os.MkdirAll(dir, 0o755); err != nil {
		return nil, err
	}
	j, err := os.OpenFile(filepath.Join(dir, "journal"), os.O_CREATE|os.O_WRONLY|os.O_TRUNC, 0o644)
	if err != nil {
		return nil, err
	}
	c := &Ctx{Prop: prop, Tier: tier, Seed: seed, Batch: batch, NBatch: nbatch, Dir: dir, Resume: resume,
		distinct: map[uint64]struct{}{}, journal: j, start: time.Now(), lastCkpt: time.Now(), maxSamp: 6}
	c.res = Result{Property: prop, Batch: batch, Classes: map[string]int64{}, Violations: map[string]*Violation{},
		Inconclusive: map[string]int64{}, Extrema: map[string]*Extremum{}, Extra: map[string]interface{}{}, LastCase: resume - 1}
	return c, nil
}

func (c *Ctx) Quick() bool { return c.Tier != "thorough" }

// Pick returns q for the quick tier and t for thorough.
func (c *Ctx) Pick(q, t int) int {
	if c.Quick() {
		return q
	}
	return t
}

func mix(vals ...uint64) uint64 {
	h := uint64(0x9e3779b97f4a7c15)
	for _, v := range vals {
		h ^= v + 0x9e3779b97f4a7c15 + (h << 6) + (h >> 2)
		h *= 0xbf58476d1ce4e5b9
		h ^= h >> 31
	}
	return h
}

func strHash(s string) uint64 {
	h := fnv.New64a()
	h.Write([]byte(s))
	return h.Sum64()
}

// Rng returns the generator for case i of this batch: a pure function of
// (seed, property, batch, stream, i), so a resumed or replayed run regenerates
// the same case without replaying its predecessors.
func (c *Ctx) Rng(stream string, i int64) *rand.Rand {
	return rand.New(rand.NewSource(int64(mix(uint64(c.Seed), strHash(c.Prop), uint64(c.Batch), strHash(stream), uint64(i)))))
}

// Journal records the case about to be executed. It is a plain write(2): the
// page cache survives the death of this process, which is the crash we care
// about.
func (c *Ctx) Journal(caseIdx int64, v interface{}) {
	b, _ := json.Marshal(map[string]interface{}{"case": caseIdx, "batch": c.Batch, "v": v})
	c.mu.Lock()
	c.journal.Truncate(0)
	c.journal.WriteAt(append(b, '\n'), 0)
	c.mu.Unlock()
}

// Done marks case i as completed and checkpoints now and then.
func (c *Ctx) Done(caseIdx int64) {
	c.mu.Lock()
	if caseIdx > c.res.LastCase {
		c.res.LastCase = caseIdx
	}
	ck := time.Since(c.lastCkpt) > 2*time.Second
	c.mu.Unlock()
	if ck {
		c.Checkpoint(false)
	}
}

func (c *Ctx) Eval(n int64) {
	c.mu.Lock()
	c.res.Evaluations += n
	c.mu.Unlock()
}

// Nontrivial records a distinct non-trivial case by key.
func (c *Ctx) Nontrivial(key string) {
	h := strHash(key)
	c.mu.Lock()
	c.distinct[h] = struct{}{}
	c.mu.Unlock()
}

func (c *Ctx) NontrivialBytes(b []byte) {
	h := fnv.New64a()
	h.Write(b)
	c.mu.Lock()
	c.distinct[h.Sum64()] = struct{}{}
	c.mu.Unlock()
}

func (c *Ctx) Class(name string, n int64) {
	c.mu.Lock()
	c.res.Classes[name] += n
	c.mu.Unlock()
}

func (c *Ctx) Sample(v interface{}) {
	c.mu.Lock()
	defer c.mu.Unlock()
	if len(c.res.Samples) >= c.maxSamp {
		return
	}
	b, err := json.Marshal(v)
	if err != nil {
		return
	}
	c.res.Samples = append(c.res.Samples, b)
}

func (c *Ctx) Violation(key, desc string, witness interface{}) {
	b, err := json.Marshal(witness)
	if err != nil {
		b, _ = json.Marshal(fmt.Sprintf("%+v", witness))
	}
	c.mu.Lock()
	v, ok := c.res.Violations[key]
	if ok {
		v.Count++
	} else {
		c.res.Violations[key] = &Violation{Key: key, Desc: desc, Witness: b, Count: 1}
	}
	c.mu.Unlock()
	if !ok {
		c.Checkpoint(false)
	}
}

func (c *Ctx) Inconclusive(reason string) {
	c.mu.Lock()
	c.res.Inconclusive[reason]++
	c.mu.Unlock()
}

// Max keeps the largest value seen under name, with its witness.
func (c *Ctx) Max(name string, val float64, witness interface{}) {
	c.mu.Lock()
	defer c.mu.Unlock()
	e, ok := c.res.Extrema[name]
	if ok && e.Value >= val {
		return
	}
	var b json.RawMessage
	if witness != nil {
		b, _ = json.Marshal(witness)
	}
	c.res.Extrema[name] = &Extremum{Value: val, Witness: b}
}

func (c *Ctx) Extra(name string, v interface{}) {
	c.mu.Lock()
	c.res.Extra[name] = v
	c.mu.Unlock()
}

func (c *Ctx) AddExtra(name string, n int64) {
	c.mu.Lock()
	cur, _ := c.res.Extra[name].(int64)
	c.res.Extra[name] = cur + n
	c.mu.Unlock()
}

func (c *Ctx) Checkpoint(complete bool) error {
	c.mu.Lock()
	defer c.mu.Unlock()
	c.lastCkpt = time.Now()
	c.res.Nontrivial = int64(len(c.distinct))
	c.res.Complete = complete
	c.res.WallS = time.Since(c.start).Seconds()
	b, err := json.Marshal(&c.res)
	if err != nil {
		return err
	}
	tmp := filepath.Join(c.Dir, "result.json.tmp")
	if err := os.WriteFile(tmp, b, 0o644); err != nil {
		return err
	}
	if err := os.Rename(tmp, filepath.Join(c.Dir, "result.json")); err != nil {
		return err
	}
	// distinct hashes, so the driver can take the union over batches
	hb := make([]byte, 0, 8*len(c.distinct))
	for h := range c.distinct {
		hb = binary.LittleEndian.AppendUint64(hb, h)
	}
	tmp = filepath.Join(c.Dir, "distinct.bin.tmp")
	if err := os.WriteFile(tmp, hb, 0o644); err != nil {
		return err
	}
	return os.Rename(tmp, filepath.Join(c.Dir, "distinct.bin"))
}

// MergeDistinct counts the union of the distinct.bin files given.
func MergeDistinct(files []string) (int64, error) {
	set := map[uint64]struct{}{}
	for _, f := range files {
		b, err := os.ReadFile(f)
		if err != nil {
			if os.IsNotExist(err) {
				continue
			}
			return 0, err
		}
		for i := 0; i+8 <= len(b); i += 8 {
			set[binary.LittleEndian.Uint64(b[i:])] = struct{}{}
		}
	}
	return int64(len(set)), nil
}

// Evaluations returns the number of evaluations counted so far.
func (c *Ctx) Evaluations() int64 {
	c.mu.Lock()
	defer c.mu.Unlock()
	return c.res.Evaluations
}
