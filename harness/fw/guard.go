package fw

import (
	"os"
	"runtime"
	"runtime/metrics"
	"sync"
	"syscall"
	"time"
)

// ExitResumable is the exit status of a worker that recorded a violation and
// then had to give up the process (runaway CPU or memory inside one case). The
// driver resumes the batch behind the journalled case.
const ExitResumable = 5

// CPUTime returns the CPU time (user+system) consumed by this process.
func CPUTime() time.Duration {
	var ru syscall.Rusage
	syscall.Getrusage(syscall.RUSAGE_SELF, &ru)
	return time.Duration(ru.Utime.Nano() + ru.Stime.Nano())
}

var allocSample = []metrics.Sample{{Name: "/gc/heap/allocs:bytes"}}

// AllocBytes returns the cumulative bytes allocated on the heap by this process.
func AllocBytes() uint64 {
	metrics.Read(allocSample)
	return allocSample[0].Value.Uint64()
}

// Guard watches the case in flight: CPU consumed since it began (a logical clock:
// machine load does not consume the budget) and live heap. A breach is a
// violation recorded with the journalled case; the process then exits with
// ExitResumable because the runaway call cannot be cancelled.
type Guard struct {
	c         *Ctx
	cpuBudget time.Duration
	heapLimit uint64

	mu      sync.Mutex
	active  bool
	cpu0    time.Duration
	witness interface{}
	keyPfx  string
}

func (c *Ctx) StartGuard(cpuBudget time.Duration, heapLimit uint64) *Guard {
	g := &Guard{c: c, cpuBudget: cpuBudget, heapLimit: heapLimit}
	go g.loop()
	return g
}

func (g *Guard) Begin(keyPrefix string, witness interface{}) {
	g.mu.Lock()
	g.active = true
	g.cpu0 = CPUTime()
	g.witness = witness
	g.keyPfx = keyPrefix
	g.mu.Unlock()
}

func (g *Guard) End() {
	g.mu.Lock()
	g.active = false
	g.mu.Unlock()
}

func (g *Guard) loop() {
	var ms runtime.MemStats
	n := 0
	for {
		time.Sleep(50 * time.Millisecond)
		g.mu.Lock()
		active, cpu0, w, pfx := g.active, g.cpu0, g.witness, g.keyPfx
		g.mu.Unlock()
		if !active {
			continue
		}
		if used := CPUTime() - cpu0; used > g.cpuBudget {
			g.c.Violation(pfx+"hang:cpu-budget:"+busyFrame(), "call still running after "+used.String()+" of CPU time", w)
			g.c.Checkpoint(false)
			os.Exit(ExitResumable)
		}
		n++
		if n%4 == 0 {
			runtime.ReadMemStats(&ms)
			if ms.HeapAlloc > g.heapLimit {
				g.c.Violation(pfx+"memory:runaway:"+busyFrame(), "live heap exceeded the abort threshold while the call was running", w)
				g.c.Checkpoint(false)
				os.Exit(ExitResumable)
			}
		}
	}
}

// busyFrame returns the top-most gopcua frame of any goroutine (the guarded call
// is the only one executing gopcua code in these workers).
func busyFrame() string {
	buf := make([]byte, 1<<20)
	n := runtime.Stack(buf, true)
	return TopRepoFrame(string(buf[:n]))
}

// ---- heartbeat logical clock ----

var (
	hbOnce  sync.Once
	hbCount int64
	hbMu    sync.Mutex
)

// Heartbeats returns the number of 1 ms sleeps a background goroutine of this process has completed. It is a
// logical clock for "nothing happened for a long time": a starved process produces fewer beats, so load can
// only delay a verdict that is expressed in beats, never cause it.
func Heartbeats() int64 {
	hbOnce.Do(func() {
		go func() {
			for {
				time.Sleep(time.Millisecond)
				hbMu.Lock()
				hbCount++
				hbMu.Unlock()
			}
		}()
	})
	hbMu.Lock()
	defer hbMu.Unlock()
	return hbCount
}

// WaitBeats waits until done is closed or n heartbeats have passed; it reports whether done was closed.
func WaitBeats(done <-chan struct{}, n int64) bool {
	start := Heartbeats()
	for Heartbeats()-start < n {
		select {
		case <-done:
			return true
		case <-time.After(2 * time.Millisecond):
		}
	}
	select {
	case <-done:
		return true
	default:
		return false
	}
}
