// Package keys holds the committed RSA test keys and self-signed certificates
// (two of each size; generated once by cmd/genkeys, never at check time).
package keys

import (
	"crypto/rsa"
	"crypto/x509"
	"embed"
	"encoding/pem"
	"fmt"
	"sync"
)

//go:embed *.pem
var files embed.FS

type Pair struct {
	Name string
	Bits int
	Key  *rsa.PrivateKey
	Cert []byte // DER
}

var (
	mu    sync.Mutex
	cache = map[string]*Pair{}
)

// Sizes are the key sizes available, Names the two identities per size.
var (
	Sizes = []int{512, 1024, 2048, 3072, 4096}
	Names = []string{"a", "b"}
)

// Get returns identity name ("a" or "b") of the given size.
func Get(name string, bits int) *Pair {
	id := fmt.Sprintf("%s%d", name, bits)
	mu.Lock()
	defer mu.Unlock()
	if p, ok := cache[id]; ok {
		return p
	}
	kb, err := files.ReadFile(id + ".key.pem")
	if err != nil {
		panic(err)
	}
	cb, err := files.ReadFile(id + ".cert.pem")
	if err != nil {
		panic(err)
	}
	kblk, _ := pem.Decode(kb)
	key, err := x509.ParsePKCS1PrivateKey(kblk.Bytes)
	if err != nil {
		panic(err)
	}
	cblk, _ := pem.Decode(cb)
	p := &Pair{Name: id, Bits: bits, Key: key, Cert: cblk.Bytes}
	cache[id] = p
	return p
}

// PEM returns a committed PEM file by name, e.g. "a2048.key.pem" or "b2048.cert.pem".
func PEM(name string) []byte {
	b, err := files.ReadFile(name)
	if err != nil {
		panic(err)
	}
	return b
}
