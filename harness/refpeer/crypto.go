// Package refpeer is an independent implementation of the parts of OPC UA
// Part 6 that the channel properties are checked against: UACP framing, secure
// conversation chunk layout, chunk security (padding, signatures, RSA and AES
// schemes) and P_SHA key derivation. It is written from the specification
// (see DESIGN.md Appendix A), not from gopcua's uasc/uapolicy packages; only
// Go's crypto standard library is shared. Service bodies are encoded with
// gopcua's ua codec, which is the subject of C01-C03, not of these properties.
package refpeer

import (
	"bytes"
	"crypto"
	"crypto/aes"
	"crypto/cipher"
	"crypto/hmac"
	"crypto/rand"
	"crypto/rsa"
	"crypto/sha1"
	"crypto/sha256"
	"errors"
	"fmt"
	"hash"
)

const (
	URINone           = "http://opcfoundation.org/UA/SecurityPolicy#None"
	URIBasic128Rsa15  = "http://opcfoundation.org/UA/SecurityPolicy#Basic128Rsa15"
	URIBasic256       = "http://opcfoundation.org/UA/SecurityPolicy#Basic256"
	URIBasic256Sha256 = "http://opcfoundation.org/UA/SecurityPolicy#Basic256Sha256"
	URIAes128         = "http://opcfoundation.org/UA/SecurityPolicy#Aes128_Sha256_RsaOaep"
	URIAes256         = "http://opcfoundation.org/UA/SecurityPolicy#Aes256_Sha256_RsaPss"
)

// Policy is one row of the table in Part 7 / DESIGN.md Appendix A.
type Policy struct {
	URI         string
	Name        string
	SymHash     func() hash.Hash // symmetric signature and KDF hash
	SymSigLen   int
	SigKeyLen   int
	EncKeyLen   int
	NonceLen    int
	AsymSig     string // "pkcs1-sha1", "pkcs1-sha256", "pss-sha256"
	AsymEnc     string // "pkcs1", "oaep-sha1", "oaep-sha256"
	MinKeyBits  int
	MaxKeyBits  int
	AsymSigURI  string
	SymmetricOK bool
}

var Policies = []*Policy{
	{URI: URIBasic128Rsa15, Name: "Basic128Rsa15", SymHash: sha1.New, SymSigLen: 20, SigKeyLen: 16, EncKeyLen: 16, NonceLen: 16,
		AsymSig: "pkcs1-sha1", AsymEnc: "pkcs1", MinKeyBits: 1024, MaxKeyBits: 2048, AsymSigURI: "http://www.w3.org/2000/09/xmldsig#rsa-sha1"},
	{URI: URIBasic256, Name: "Basic256", SymHash: sha1.New, SymSigLen: 20, SigKeyLen: 24, EncKeyLen: 32, NonceLen: 32,
		AsymSig: "pkcs1-sha1", AsymEnc: "oaep-sha1", MinKeyBits: 1024, MaxKeyBits: 2048, AsymSigURI: "http://www.w3.org/2000/09/xmldsig#rsa-sha1"},
	{URI: URIBasic256Sha256, Name: "Basic256Sha256", SymHash: sha256.New, SymSigLen: 32, SigKeyLen: 32, EncKeyLen: 32, NonceLen: 32,
		AsymSig: "pkcs1-sha256", AsymEnc: "oaep-sha1", MinKeyBits: 2048, MaxKeyBits: 4096, AsymSigURI: "http://www.w3.org/2001/04/xmldsig-more#rsa-sha256"},
	{URI: URIAes128, Name: "Aes128_Sha256_RsaOaep", SymHash: sha256.New, SymSigLen: 32, SigKeyLen: 32, EncKeyLen: 16, NonceLen: 32,
		AsymSig: "pkcs1-sha256", AsymEnc: "oaep-sha1", MinKeyBits: 2048, MaxKeyBits: 4096, AsymSigURI: "http://www.w3.org/2001/04/xmldsig-more#rsa-sha256"},
	{URI: URIAes256, Name: "Aes256_Sha256_RsaPss", SymHash: sha256.New, SymSigLen: 32, SigKeyLen: 32, EncKeyLen: 32, NonceLen: 32,
		AsymSig: "pss-sha256", AsymEnc: "oaep-sha256", MinKeyBits: 2048, MaxKeyBits: 4096, AsymSigURI: "http://opcfoundation.org/UA/security/rsa-pss-sha2-256"},
}

func PolicyByURI(uri string) *Policy {
	for _, p := range Policies {
		if p.URI == uri {
			return p
		}
	}
	return nil
}

// PHash is P_HASH of RFC 5246 section 5: A(0)=seed, A(i)=HMAC(secret, A(i-1)),
// output = HMAC(secret, A(1)+seed) + HMAC(secret, A(2)+seed) + ...
func PHash(h func() hash.Hash, secret, seed []byte, n int) []byte {
	var out []byte
	a := seed
	for len(out) < n {
		m := hmac.New(h, secret)
		m.Write(a)
		a = m.Sum(nil)
		m2 := hmac.New(h, secret)
		m2.Write(a)
		m2.Write(seed)
		out = append(out, m2.Sum(nil)...)
	}
	return out[:n]
}

// KeySet is one direction's derived keys.
type KeySet struct {
	Signing, Encrypting, IV []byte
}

// DeriveKeys returns the client and server key sets for a nonce pair (Part 6, 6.7.5):
// client keys = P_HASH(secret = ServerNonce, seed = ClientNonce), server keys the reverse.
func (p *Policy) DeriveKeys(clientNonce, serverNonce []byte) (client, server KeySet) {
	split := func(b []byte) KeySet {
		return KeySet{Signing: b[:p.SigKeyLen], Encrypting: b[p.SigKeyLen : p.SigKeyLen+p.EncKeyLen], IV: b[p.SigKeyLen+p.EncKeyLen:]}
	}
	n := p.SigKeyLen + p.EncKeyLen + 16
	client = split(PHash(p.SymHash, serverNonce, clientNonce, n))
	server = split(PHash(p.SymHash, clientNonce, serverNonce, n))
	return
}

func (p *Policy) SymSign(k KeySet, msg []byte) []byte {
	m := hmac.New(p.SymHash, k.Signing)
	m.Write(msg)
	return m.Sum(nil)
}

func (p *Policy) SymVerify(k KeySet, msg, sig []byte) bool {
	return hmac.Equal(p.SymSign(k, msg), sig)
}

func (p *Policy) SymEncrypt(k KeySet, plain []byte) ([]byte, error) {
	if len(plain)%16 != 0 {
		return nil, fmt.Errorf("refpeer: plaintext length %d is not a multiple of the AES block", len(plain))
	}
	blk, err := aes.NewCipher(k.Encrypting)
	if err != nil {
		return nil, err
	}
	out := make([]byte, len(plain))
	cipher.NewCBCEncrypter(blk, k.IV).CryptBlocks(out, plain)
	return out, nil
}

func (p *Policy) SymDecrypt(k KeySet, ct []byte) ([]byte, error) {
	if len(ct)%16 != 0 || len(ct) == 0 {
		return nil, fmt.Errorf("refpeer: ciphertext length %d is not a positive multiple of the AES block", len(ct))
	}
	blk, err := aes.NewCipher(k.Encrypting)
	if err != nil {
		return nil, err
	}
	out := make([]byte, len(ct))
	cipher.NewCBCDecrypter(blk, k.IV).CryptBlocks(out, ct)
	return out, nil
}

// AsymOverhead is the number of bytes of an RSA block that cannot carry plaintext.
func (p *Policy) AsymOverhead() int {
	switch p.AsymEnc {
	case "pkcs1":
		return 11
	case "oaep-sha1":
		return 42
	default:
		return 66
	}
}

// AsymPlainBlock is the maximum plaintext per RSA block for a key of k bytes.
func (p *Policy) AsymPlainBlock(k int) int { return k - p.AsymOverhead() }

func (p *Policy) AsymSign(key *rsa.PrivateKey, msg []byte) ([]byte, error) {
	switch p.AsymSig {
	case "pkcs1-sha1":
		d := sha1.Sum(msg)
		return rsa.SignPKCS1v15(rand.Reader, key, crypto.SHA1, d[:])
	case "pkcs1-sha256":
		d := sha256.Sum256(msg)
		return rsa.SignPKCS1v15(rand.Reader, key, crypto.SHA256, d[:])
	default:
		d := sha256.Sum256(msg)
		return rsa.SignPSS(rand.Reader, key, crypto.SHA256, d[:], &rsa.PSSOptions{SaltLength: 32})
	}
}

func (p *Policy) AsymVerify(pub *rsa.PublicKey, msg, sig []byte) error {
	switch p.AsymSig {
	case "pkcs1-sha1":
		d := sha1.Sum(msg)
		return rsa.VerifyPKCS1v15(pub, crypto.SHA1, d[:], sig)
	case "pkcs1-sha256":
		d := sha256.Sum256(msg)
		return rsa.VerifyPKCS1v15(pub, crypto.SHA256, d[:], sig)
	default:
		d := sha256.Sum256(msg)
		// RSA-PSS-SHA2-256 fixes the salt length to the hash length; verifiers of other stacks (.NET's
		// RSASignaturePadding.Pss, OpenSSL with rsa_pss_saltlen:digest) reject any other length, so this one does too
		return rsa.VerifyPSS(pub, crypto.SHA256, d[:], sig, &rsa.PSSOptions{SaltLength: rsa.PSSSaltLengthEqualsHash})
	}
}

// AsymEncrypt encrypts block-wise; perBlock is the plaintext put into each RSA block
// (<= AsymPlainBlock; any fill is conforming).
func (p *Policy) AsymEncrypt(pub *rsa.PublicKey, plain []byte, perBlock int) ([]byte, error) {
	max := p.AsymPlainBlock(pub.Size())
	if perBlock <= 0 || perBlock > max {
		perBlock = max
	}
	var out []byte
	for len(plain) > 0 {
		n := perBlock
		if n > len(plain) {
			n = len(plain)
		}
		var c []byte
		var err error
		switch p.AsymEnc {
		case "pkcs1":
			c, err = rsa.EncryptPKCS1v15(rand.Reader, pub, plain[:n])
		case "oaep-sha1":
			c, err = rsa.EncryptOAEP(sha1.New(), rand.Reader, pub, plain[:n], nil)
		default:
			c, err = rsa.EncryptOAEP(sha256.New(), rand.Reader, pub, plain[:n], nil)
		}
		if err != nil {
			return nil, err
		}
		out = append(out, c...)
		plain = plain[n:]
	}
	return out, nil
}

// AsymDecrypt decrypts block by block, accepting any plaintext fill per block.
func (p *Policy) AsymDecrypt(key *rsa.PrivateKey, ct []byte) ([]byte, error) {
	k := key.Size()
	if len(ct) == 0 || len(ct)%k != 0 {
		return nil, fmt.Errorf("refpeer: asymmetric ciphertext length %d is not a positive multiple of the key size %d", len(ct), k)
	}
	var out []byte
	for len(ct) > 0 {
		var pt []byte
		var err error
		switch p.AsymEnc {
		case "pkcs1":
			pt, err = rsa.DecryptPKCS1v15(rand.Reader, key, ct[:k])
		case "oaep-sha1":
			pt, err = rsa.DecryptOAEP(sha1.New(), rand.Reader, key, ct[:k], nil)
		default:
			pt, err = rsa.DecryptOAEP(sha256.New(), rand.Reader, key, ct[:k], nil)
		}
		if err != nil {
			return nil, err
		}
		out = append(out, pt...)
		ct = ct[k:]
	}
	return out, nil
}

// KeyAllowed tells whether an RSA key of the given size is within the policy's limits.
func (p *Policy) KeyAllowed(bits int) bool { return bits >= p.MinKeyBits && bits <= p.MaxKeyBits }

var ErrSecurity = errors.New("refpeer: security check failed")

func eq(a, b []byte) bool { return bytes.Equal(a, b) }
