package refpeer

import (
	"crypto/rsa"
	"crypto/sha1"
	"crypto/x509"
	"encoding/binary"
	"errors"
	"fmt"
)

// Secure conversation chunk layout, Part 6 section 6.7.2 (see DESIGN.md Appendix A).

const (
	ModeNone           = 1
	ModeSign           = 2
	ModeSignAndEncrypt = 3
)

// Padding styles a conforming sender may use.
const (
	PadMinimal = iota // smallest padding that aligns the plaintext (PaddingSize may be 0)
	PadSpec           // formula of 6.7.2.5: a full block of padding when already aligned
)

// Chunk is a decoded secure conversation chunk.
type Chunk struct {
	MsgType   string // OPN MSG CLO
	ChunkType byte   // F C A
	ChannelID uint32
	TokenID   uint32 // symmetric only
	PolicyURI string // asymmetric only
	SenderCrt []byte // asymmetric only
	Thumb     []byte // asymmetric only
	Seq       uint32
	ReqID     uint32
	Body      []byte
	PadLen    int // padding bytes found (without the size bytes), -1 if not encrypted
}

func le32(b []byte) uint32 { return binary.LittleEndian.Uint32(b) }

func put32(b []byte, v uint32) []byte { return binary.LittleEndian.AppendUint32(b, v) }

func putBytes(b, v []byte) []byte {
	if v == nil {
		return put32(b, 0xffffffff)
	}
	return append(put32(b, uint32(len(v))), v...)
}

func readBytes(b []byte, pos int) ([]byte, int, error) {
	if pos+4 > len(b) {
		return nil, 0, errors.New("refpeer: short buffer")
	}
	n := int32(le32(b[pos:]))
	pos += 4
	if n < 0 {
		return nil, pos, nil
	}
	if pos+int(n) > len(b) {
		return nil, 0, errors.New("refpeer: short buffer")
	}
	return b[pos : pos+int(n)], pos + int(n), nil
}

// SymCtx secures and opens MSG/CLO chunks of one token in one direction pair.
type SymCtx struct {
	P         *Policy // nil for policy None
	Mode      int
	Send      KeySet
	Recv      KeySet
	ChannelID uint32
	TokenID   uint32
}

// NewSymCtx derives the keys for one side. isClient selects which key set is used for sending.
func NewSymCtx(p *Policy, mode int, clientNonce, serverNonce []byte, isClient bool, channelID, tokenID uint32) *SymCtx {
	if p == nil || mode == 0 {
		mode = ModeNone
	}
	s := &SymCtx{P: p, Mode: mode, ChannelID: channelID, TokenID: tokenID}
	if p != nil && mode != ModeNone {
		c, sv := p.DeriveKeys(clientNonce, serverNonce)
		if isClient {
			s.Send, s.Recv = c, sv
		} else {
			s.Send, s.Recv = sv, c
		}
	}
	return s
}

// MaxBody is the largest body that fits a chunk of chunkSize bytes.
func (s *SymCtx) MaxBody(chunkSize int) int {
	switch s.Mode {
	case ModeSignAndEncrypt:
		return 16*((chunkSize-16)/16) - 8 - s.P.SymSigLen - 1
	case ModeSign:
		return chunkSize - 24 - s.P.SymSigLen
	}
	return chunkSize - 24
}

// Seal builds a secured symmetric chunk.
func (s *SymCtx) Seal(msgType string, chunkType byte, seq, reqID uint32, body []byte, padStyle int) ([]byte, error) {
	hdr := append([]byte(msgType), chunkType)
	hdr = put32(hdr, 0) // size, fixed below
	hdr = put32(hdr, s.ChannelID)
	hdr = put32(hdr, s.TokenID)
	plain := put32(put32(nil, seq), reqID)
	plain = append(plain, body...)
	switch s.Mode {
	case ModeNone:
		out := append(hdr, plain...)
		binary.LittleEndian.PutUint32(out[4:], uint32(len(out)))
		return out, nil
	case ModeSign:
		out := append(hdr, plain...)
		binary.LittleEndian.PutUint32(out[4:], uint32(len(out)+s.P.SymSigLen))
		return append(out, s.P.SymSign(s.Send, out)...), nil
	}
	sig := s.P.SymSigLen
	pad := (16 - (len(plain)+1+sig)%16) % 16
	if padStyle == PadSpec && pad == 0 {
		pad = 16
	}
	for i := 0; i <= pad; i++ {
		plain = append(plain, byte(pad))
	}
	out := append(hdr, plain...)
	binary.LittleEndian.PutUint32(out[4:], uint32(len(out)+sig))
	out = append(out, s.P.SymSign(s.Send, out)...)
	ct, err := s.P.SymEncrypt(s.Send, out[16:])
	if err != nil {
		return nil, err
	}
	return append(out[:16], ct...), nil
}

// Open verifies and decodes a symmetric chunk produced by the peer.
func (s *SymCtx) Open(b []byte) (*Chunk, error) { return s.open(b, s.Recv) }

// OpenOwn opens a chunk with the sending keys (used to check direction separation).
func (s *SymCtx) OpenOwn(b []byte) (*Chunk, error) { return s.open(b, s.Send) }

func (s *SymCtx) open(b []byte, k KeySet) (*Chunk, error) {
	if len(b) < 24 {
		return nil, fmt.Errorf("refpeer: chunk of %d bytes is shorter than the headers", len(b))
	}
	c := &Chunk{MsgType: string(b[:3]), ChunkType: b[3], ChannelID: le32(b[8:]), TokenID: le32(b[12:]), PadLen: -1}
	if c.MsgType != "MSG" && c.MsgType != "CLO" {
		return nil, fmt.Errorf("refpeer: not a symmetric chunk: %q", c.MsgType)
	}
	if int(le32(b[4:])) != len(b) {
		return nil, fmt.Errorf("refpeer: MessageSize %d != chunk length %d", le32(b[4:]), len(b))
	}
	plain := b[16:]
	switch s.Mode {
	case ModeNone:
	case ModeSign:
		sig := s.P.SymSigLen
		if len(plain) < 8+sig {
			return nil, ErrSecurity
		}
		if !s.P.SymVerify(k, b[:len(b)-sig], b[len(b)-sig:]) {
			return nil, ErrSecurity
		}
		plain = plain[:len(plain)-sig]
	default:
		pt, err := s.P.SymDecrypt(k, plain)
		if err != nil {
			return nil, ErrSecurity
		}
		sig := s.P.SymSigLen
		if len(pt) < 8+1+sig {
			return nil, ErrSecurity
		}
		signed := append(append([]byte{}, b[:16]...), pt[:len(pt)-sig]...)
		if !s.P.SymVerify(k, signed, pt[len(pt)-sig:]) {
			return nil, ErrSecurity
		}
		pt = pt[:len(pt)-sig]
		pad := int(pt[len(pt)-1])
		if len(pt) < 8+1+pad {
			return nil, fmt.Errorf("refpeer: PaddingSize %d exceeds the chunk", pad)
		}
		for _, x := range pt[len(pt)-1-pad : len(pt)-1] {
			if int(x) != pad {
				return nil, fmt.Errorf("refpeer: padding byte %d differs from PaddingSize %d", x, pad)
			}
		}
		c.PadLen = pad
		plain = pt[:len(pt)-1-pad]
	}
	if len(plain) < 8 {
		return nil, errors.New("refpeer: no sequence header")
	}
	c.Seq, c.ReqID, c.Body = le32(plain), le32(plain[4:]), plain[8:]
	return c, nil
}

// AsymCtx secures and opens OPN chunks.
type AsymCtx struct {
	P          *Policy // nil for None
	LocalKey   *rsa.PrivateKey
	LocalCert  []byte
	RemoteCert []byte
	remotePub  *rsa.PublicKey
}

func NewAsymCtx(p *Policy, localKey *rsa.PrivateKey, localCert, remoteCert []byte) (*AsymCtx, error) {
	a := &AsymCtx{P: p, LocalKey: localKey, LocalCert: localCert, RemoteCert: remoteCert}
	if p != nil {
		crt, err := x509.ParseCertificate(remoteCert)
		if err != nil {
			return nil, err
		}
		pub, ok := crt.PublicKey.(*rsa.PublicKey)
		if !ok {
			return nil, errors.New("refpeer: remote certificate has no RSA key")
		}
		a.remotePub = pub
	}
	return a, nil
}

func Thumbprint(der []byte) []byte {
	h := sha1.Sum(der)
	return h[:]
}

// SealOPN builds an OPN chunk. perBlock (0 = maximum) is the plaintext put in each RSA block.
func (a *AsymCtx) SealOPN(channelID, seq, reqID uint32, body []byte, padStyle, perBlock int) ([]byte, error) {
	hdr := append([]byte("OPN"), 'F')
	hdr = put32(hdr, 0)
	hdr = put32(hdr, channelID)
	if a.P == nil {
		hdr = putBytes(hdr, []byte(URINone))
		hdr = putBytes(hdr, nil)
		hdr = putBytes(hdr, nil)
		out := append(put32(put32(hdr, seq), reqID), body...)
		binary.LittleEndian.PutUint32(out[4:], uint32(len(out)))
		return out, nil
	}
	hdr = putBytes(hdr, []byte(a.P.URI))
	hdr = putBytes(hdr, a.LocalCert)
	hdr = putBytes(hdr, Thumbprint(a.RemoteCert))
	k := a.remotePub.Size()
	pb := a.P.AsymPlainBlock(k)
	if perBlock > 0 && perBlock < pb {
		pb = perBlock
	}
	sig := a.LocalKey.Size()
	extra := 0
	if k > 256 {
		extra = 1
	}
	plain := append(put32(put32(nil, seq), reqID), body...)
	pad := (pb - (len(plain)+1+extra+sig)%pb) % pb
	if padStyle == PadSpec && pad == 0 {
		pad = pb
	}
	plain = append(plain, byte(pad))
	for i := 0; i < pad; i++ {
		plain = append(plain, byte(pad))
	}
	if extra == 1 {
		plain = append(plain, byte(pad>>8))
	}
	blocks := (len(plain) + sig) / pb
	out := append(hdr, plain...)
	binary.LittleEndian.PutUint32(out[4:], uint32(len(hdr)+blocks*k))
	s, err := a.P.AsymSign(a.LocalKey, out)
	if err != nil {
		return nil, err
	}
	out = append(out, s...)
	ct, err := a.P.AsymEncrypt(a.remotePub, out[len(hdr):], pb)
	if err != nil {
		return nil, err
	}
	return append(out[:len(hdr)], ct...), nil
}

// OpenOPN verifies and decodes an OPN chunk addressed to this side.
func (a *AsymCtx) OpenOPN(b []byte) (*Chunk, error) {
	if len(b) < 12 || string(b[:3]) != "OPN" {
		return nil, errors.New("refpeer: not an OPN chunk")
	}
	if int(le32(b[4:])) != len(b) {
		return nil, fmt.Errorf("refpeer: MessageSize %d != chunk length %d", le32(b[4:]), len(b))
	}
	c := &Chunk{MsgType: "OPN", ChunkType: b[3], ChannelID: le32(b[8:]), PadLen: -1}
	uri, pos, err := readBytes(b, 12)
	if err != nil {
		return nil, err
	}
	c.PolicyURI = string(uri)
	if c.SenderCrt, pos, err = readBytes(b, pos); err != nil {
		return nil, err
	}
	if c.Thumb, pos, err = readBytes(b, pos); err != nil {
		return nil, err
	}
	plain := b[pos:]
	if a.P != nil {
		if c.PolicyURI != a.P.URI {
			return nil, fmt.Errorf("refpeer: policy URI %q, expected %q", c.PolicyURI, a.P.URI)
		}
		if !eq(c.Thumb, Thumbprint(a.LocalCert)) {
			return nil, fmt.Errorf("refpeer: receiver thumbprint is not the SHA-1 of the receiver certificate")
		}
		crt, err := x509.ParseCertificate(c.SenderCrt)
		if err != nil {
			return nil, fmt.Errorf("refpeer: sender certificate: %v", err)
		}
		pub, ok := crt.PublicKey.(*rsa.PublicKey)
		if !ok {
			return nil, errors.New("refpeer: sender certificate has no RSA key")
		}
		pt, err := a.P.AsymDecrypt(a.LocalKey, plain)
		if err != nil {
			return nil, fmt.Errorf("refpeer: OPN does not decrypt: %v", err)
		}
		sig := pub.Size()
		if len(pt) < 8+1+sig {
			return nil, ErrSecurity
		}
		signed := append(append([]byte{}, b[:pos]...), pt[:len(pt)-sig]...)
		if err := a.P.AsymVerify(pub, signed, pt[len(pt)-sig:]); err != nil {
			return nil, fmt.Errorf("refpeer: OPN signature does not verify over header+plaintext with final MessageSize: %v", err)
		}
		pt = pt[:len(pt)-sig]
		pad, tail := 0, 1
		if a.LocalKey.Size() > 256 { // the key used to encrypt is ours
			pad = int(pt[len(pt)-1]) << 8
			tail = 2
			pt = pt[:len(pt)-1]
		}
		_ = tail
		// PaddingSize byte sits before the padding bytes; with the low byte p there are pad = high<<8 | p padding bytes
		// find it: the last padding byte (or the PaddingSize byte itself when pad == 0) holds the low byte
		low := int(pt[len(pt)-1])
		pad |= low
		if len(pt) < 8+1+pad {
			return nil, fmt.Errorf("refpeer: padding length %d exceeds the chunk", pad)
		}
		for _, x := range pt[len(pt)-1-pad:] {
			if int(x) != low {
				return nil, fmt.Errorf("refpeer: padding byte %d differs from PaddingSize low byte %d", x, low)
			}
		}
		c.PadLen = pad
		plain = pt[:len(pt)-1-pad]
	}
	if len(plain) < 8 {
		return nil, errors.New("refpeer: no sequence header")
	}
	c.Seq, c.ReqID, c.Body = le32(plain), le32(plain[4:]), plain[8:]
	return c, nil
}
