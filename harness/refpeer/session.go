package refpeer

import (
	"crypto/rsa"
	"fmt"

	"github.com/gopcua/opcua/ua"
)

// OpenSecureSession dials, opens a channel with the given security, creates a session and activates it with an
// anonymous identity and a client signature over serverCertificate||serverNonce (Part 4, 5.6.3). p == nil means
// policy None.
func OpenSecureSession(addr, endpoint string, p *Policy, mode int, key *rsa.PrivateKey, cert, serverCert []byte, o ClientOpts) (*Channel, *ua.NodeID, error) {
	o.Hello.URL = endpoint
	o.Sec = Security{Mode: mode}
	if p != nil {
		o.Sec = Security{Policy: p, Mode: mode, LocalKey: key, LocalCert: cert, RemoteCert: serverCert}
	} else {
		o.Sec.Mode = ModeNone
	}
	c, _, err := Dial(addr, o)
	if err != nil {
		return nil, nil, err
	}
	lt := o.Lifetime
	if lt == 0 {
		lt = 3600000
	}
	if _, err := c.Open(false, lt); err != nil {
		c.Close()
		return nil, nil, err
	}
	var ccert []byte
	if p != nil {
		ccert = cert
	}
	cs, err := c.CreateSession(endpoint, ccert)
	if err != nil {
		c.Close()
		return nil, nil, err
	}
	var sig *ua.SignatureData
	if p != nil {
		s, err := p.AsymSign(key, append(append([]byte{}, cs.ServerCertificate...), cs.ServerNonce...))
		if err != nil {
			c.Close()
			return nil, nil, err
		}
		sig = &ua.SignatureData{Algorithm: p.AsymSigURI, Signature: s}
	}
	v, err := c.ActivateSession(cs.AuthenticationToken, "anonymous_none", sig)
	if err != nil {
		c.Close()
		return nil, nil, err
	}
	if _, ok := v.(*ua.ActivateSessionResponse); !ok {
		c.Close()
		return nil, nil, fmt.Errorf("refpeer: ActivateSession answered with %T (%v)", v, StatusOf(v))
	}
	return c, cs.AuthenticationToken, nil
}
