package refpeer

import (
	"crypto/rand"
	"fmt"
	"net"
	"sync"
	"sync/atomic"
	"time"

	"github.com/gopcua/opcua/id"
	"github.com/gopcua/opcua/ua"
)

// Server is a scripted OPC UA server built on Channel: it speaks the wire
// protocol independently of gopcua and lets a scenario decide every answer.
type Server struct {
	L    net.Listener
	Opts ServerOpts
	// Handler is called for every complete MSG; it answers through sc (or not at all).
	Handler func(sc *SrvConn, m *Msg)
	// OnOpen is called for every OPN request before it is answered; return false to withhold the answer.
	OnOpen func(sc *SrvConn, m *Msg, renew bool) bool
	// OnConn is called when a connection finished HEL/ACK.
	OnConn func(sc *SrvConn)
	// OnEnd is called when a connection ends.
	OnEnd func(sc *SrvConn, err error)
	// SessionSig alters the CreateSession signature (C22): nil = valid
	SessionSig func(valid []byte, clientCert, clientNonce []byte) []byte
	// ServerCertOverride replaces the certificate returned in CreateSessionResponse
	ServerCertOverride []byte
	// SessionSigAlg replaces the algorithm URI of the CreateSession signature (C22): nil = the policy's URI
	SessionSigAlg *string
	// SessionSigNil leaves the ServerSignature field of the CreateSessionResponse out altogether
	SessionSigNil bool

	mu       sync.Mutex
	Conns    []*SrvConn
	nconn    int32
	Sessions map[string]*SrvSession // by auth token string
	closed   chan struct{}
	nextSess uint32
}

type SrvSession struct {
	AuthToken *ua.NodeID
	SessionID *ua.NodeID
	Activated bool
	Closed    bool
	Nonce     []byte
}

type SrvConn struct {
	*Channel
	Srv   *Server
	Index int
	Hello *Hello
	Done  chan struct{}
}

func NewServer(o ServerOpts) (*Server, error) {
	l, err := net.Listen("tcp", "127.0.0.1:0")
	if err != nil {
		return nil, err
	}
	s := &Server{L: l, Opts: o, Sessions: map[string]*SrvSession{}, closed: make(chan struct{})}
	go s.acceptLoop()
	return s, nil
}

func (s *Server) Addr() string     { return s.L.Addr().String() }
func (s *Server) Endpoint() string { return "opc.tcp://" + s.Addr() }
func (s *Server) NumConns() int    { return int(atomic.LoadInt32(&s.nconn)) }

func (s *Server) Close() {
	select {
	case <-s.closed:
		return
	default:
	}
	close(s.closed)
	s.L.Close()
	s.mu.Lock()
	for _, c := range s.Conns {
		c.Conn.Close()
	}
	s.mu.Unlock()
}

// DropConns closes all current connections (FIN) but keeps listening.
func (s *Server) DropConns(rst bool) {
	s.mu.Lock()
	defer s.mu.Unlock()
	for _, c := range s.Conns {
		if rst {
			if tc, ok := c.Conn.(*net.TCPConn); ok {
				tc.SetLinger(0)
			}
		}
		c.Conn.Close()
	}
}

func (s *Server) acceptLoop() {
	for {
		conn, err := s.L.Accept()
		if err != nil {
			return
		}
		idx := int(atomic.AddInt32(&s.nconn, 1)) - 1
		go s.serve(conn, idx)
	}
}

func (s *Server) serve(conn net.Conn, idx int) {
	ch, hello, err := Accept(conn, s.Opts)
	if err != nil {
		conn.Close()
		return
	}
	sc := &SrvConn{Channel: ch, Srv: s, Index: idx, Hello: hello, Done: make(chan struct{})}
	s.mu.Lock()
	s.Conns = append(s.Conns, sc)
	s.mu.Unlock()
	if s.OnConn != nil {
		s.OnConn(sc)
	}
	var endErr error
	defer func() {
		close(sc.Done)
		conn.Close()
		if s.OnEnd != nil {
			s.OnEnd(sc, endErr)
		}
	}()
	for {
		m, err := ch.ReadMsg()
		if err != nil {
			endErr = err
			return
		}
		switch m.Type {
		case "OPN":
			req, _ := m.Service.(*ua.OpenSecureChannelRequest)
			renew := req != nil && req.RequestType == ua.SecurityTokenRequestTypeRenew
			if s.OnOpen != nil && !s.OnOpen(sc, m, renew) {
				continue
			}
			if _, err := ch.AnswerOpen(m, s.Opts); err != nil {
				endErr = err
				return
			}
		default:
			if s.Handler != nil {
				s.Handler(sc, m)
			} else {
				s.Default(sc, m)
			}
		}
	}
}

// Reply sends a response for message m.
func (sc *SrvConn) Reply(m *Msg, resp interface{}) error {
	_, err := sc.SendService("MSG", m.ReqID, resp, SendOpts{})
	return err
}

// Fault sends a ServiceFault for message m.
func (sc *SrvConn) Fault(m *Msg, status ua.StatusCode) error {
	req, _ := m.Service.(ua.Request)
	return sc.Reply(m, &ua.ServiceFault{ResponseHeader: RespHeader(req, status)})
}

func (s *Server) sigAlgURI() string {
	if s.Opts.Policy == nil {
		return ""
	}
	return s.Opts.Policy.AsymSigURI
}

// Endpoints describes this server the way a gopcua client expects it.
func (s *Server) Endpoints() []*ua.EndpointDescription {
	uri, mode := URINone, ua.MessageSecurityModeNone
	if s.Opts.Policy != nil {
		uri, mode = s.Opts.Policy.URI, ua.MessageSecurityMode(s.Opts.Mode)
	}
	return []*ua.EndpointDescription{{
		EndpointURL:         s.Endpoint(),
		Server:              &ua.ApplicationDescription{ApplicationURI: "urn:verif:refpeer", ApplicationName: ua.NewLocalizedText("refpeer"), ApplicationType: ua.ApplicationTypeServer},
		ServerCertificate:   s.Opts.Cert,
		SecurityMode:        mode,
		SecurityPolicyURI:   uri,
		UserIdentityTokens:  []*ua.UserTokenPolicy{{PolicyID: "Anonymous", TokenType: ua.UserTokenTypeAnonymous}},
		TransportProfileURI: "http://opcfoundation.org/UA-Profile/Transport/uatcp-uasc-uabinary",
		SecurityLevel:       1,
	}}
}

// Default answers what a gopcua client issues while connecting: GetEndpoints, CreateSession,
// ActivateSession, Read of the namespace array, CloseSession. It reports whether it handled m.
func (s *Server) Default(sc *SrvConn, m *Msg) bool {
	switch req := m.Service.(type) {
	case *ua.GetEndpointsRequest:
		sc.Reply(m, &ua.GetEndpointsResponse{ResponseHeader: RespHeader(req, ua.StatusOK), Endpoints: s.Endpoints()})
	case *ua.CreateSessionRequest:
		sess := s.NewSession()
		var sig []byte
		if s.Opts.Policy != nil && s.Opts.Key != nil {
			sig, _ = s.Opts.Policy.AsymSign(s.Opts.Key, append(append([]byte{}, req.ClientCertificate...), req.ClientNonce...))
		}
		if s.SessionSig != nil {
			sig = s.SessionSig(sig, req.ClientCertificate, req.ClientNonce)
		}
		cert := s.Opts.Cert
		if s.ServerCertOverride != nil {
			cert = s.ServerCertOverride
		}
		sc.Reply(m, &ua.CreateSessionResponse{
			ResponseHeader:        RespHeader(req, ua.StatusOK),
			SessionID:             sess.SessionID,
			AuthenticationToken:   sess.AuthToken,
			RevisedSessionTimeout: 60000,
			ServerNonce:           sess.Nonce,
			ServerCertificate:     cert,
			ServerEndpoints:       s.Endpoints(),
			ServerSignature: func() *ua.SignatureData {
				if s.SessionSigNil {
					return nil
				}
				alg := s.sigAlgURI()
				if s.SessionSigAlg != nil {
					alg = *s.SessionSigAlg
				}
				return &ua.SignatureData{Algorithm: alg, Signature: sig}
			}(),
		})
	case *ua.ActivateSessionRequest:
		sess := s.Session(req.RequestHeader.AuthenticationToken)
		if sess == nil || sess.Closed {
			sc.Fault(m, ua.StatusBadSessionIDInvalid)
			return true
		}
		sess.Activated = true
		sess.Nonce = make([]byte, 32)
		rand.Read(sess.Nonce)
		sc.Reply(m, &ua.ActivateSessionResponse{ResponseHeader: RespHeader(req, ua.StatusOK), ServerNonce: sess.Nonce, Results: []ua.StatusCode{}, DiagnosticInfos: []*ua.DiagnosticInfo{}})
	case *ua.CloseSessionRequest:
		if sess := s.Session(req.RequestHeader.AuthenticationToken); sess != nil {
			sess.Closed = true
		}
		sc.Reply(m, &ua.CloseSessionResponse{ResponseHeader: RespHeader(req, ua.StatusOK)})
	case *ua.ReadRequest:
		if len(req.NodesToRead) == 1 && req.NodesToRead[0].NodeID.IntID() == id.Server_NamespaceArray && req.NodesToRead[0].NodeID.Namespace() == 0 {
			sc.Reply(m, &ua.ReadResponse{ResponseHeader: RespHeader(req, ua.StatusOK), Results: []*ua.DataValue{{
				EncodingMask: ua.DataValueValue, Value: ua.MustVariant([]string{"http://opcfoundation.org/UA/", "urn:verif:refpeer"})}}})
			return true
		}
		return false
	default:
		return false
	}
	return true
}

func (s *Server) NewSession() *SrvSession {
	s.mu.Lock()
	defer s.mu.Unlock()
	s.nextSess++
	n := make([]byte, 32)
	rand.Read(n)
	sess := &SrvSession{AuthToken: ua.NewNumericNodeID(0, 5000+s.nextSess), SessionID: ua.NewNumericNodeID(1, 7000+s.nextSess), Nonce: n}
	s.Sessions[sess.AuthToken.String()] = sess
	return sess
}

func (s *Server) Session(tok *ua.NodeID) *SrvSession {
	if tok == nil {
		return nil
	}
	s.mu.Lock()
	defer s.mu.Unlock()
	return s.Sessions[tok.String()]
}

// ForgetSessions drops all sessions (a server restart without session memory).
func (s *Server) ForgetSessions() {
	s.mu.Lock()
	s.Sessions = map[string]*SrvSession{}
	s.mu.Unlock()
}

// WaitConns waits until n connections were accepted in total.
func (s *Server) WaitConns(n int, d time.Duration) error {
	dl := time.Now().Add(d)
	for s.NumConns() < n {
		if time.Now().After(dl) {
			return fmt.Errorf("refpeer: %d connections after %v, wanted %d", s.NumConns(), d, n)
		}
		time.Sleep(2 * time.Millisecond)
	}
	return nil
}
