package refpeer

import (
	"crypto/rand"
	"crypto/rsa"
	"encoding/binary"
	"errors"
	"fmt"
	"io"
	"net"
	"sync"
	"time"

	"github.com/gopcua/opcua/ua"
)

// ---------- UACP framing (Part 6, 7.1) ----------

type Frame struct {
	Type  string // HEL ACK ERR RHE OPN MSG CLO
	Chunk byte
	Raw   []byte // the complete frame including the 8 byte header
}

func (f *Frame) Body() []byte { return f.Raw[8:] }

// ReadFrame reads one frame. max is the largest frame accepted (0 = 16 MiB).
func ReadFrame(r io.Reader, max uint32) (*Frame, error) {
	var h [8]byte
	if _, err := io.ReadFull(r, h[:]); err != nil {
		return nil, err
	}
	n := binary.LittleEndian.Uint32(h[4:])
	if max == 0 {
		max = 16 << 20
	}
	if n < 8 || n > max {
		return nil, fmt.Errorf("refpeer: frame size %d outside [8,%d] (type %q)", n, max, h[:4])
	}
	raw := make([]byte, n)
	copy(raw, h[:])
	if _, err := io.ReadFull(r, raw[8:]); err != nil {
		return nil, err
	}
	return &Frame{Type: string(h[:3]), Chunk: h[3], Raw: raw}, nil
}

func MakeFrame(typ string, body []byte) []byte {
	b := append([]byte(typ), 0, 0, 0, 0)
	binary.LittleEndian.PutUint32(b[4:], uint32(8+len(body)))
	return append(b, body...)
}

type Hello struct {
	Version, RecvBuf, SendBuf, MaxMsg, MaxChunks uint32
	URL                                          string
}

type Ack struct {
	Version, RecvBuf, SendBuf, MaxMsg, MaxChunks uint32
}

func (h *Hello) Encode() []byte {
	b := put32(put32(put32(put32(put32(nil, h.Version), h.RecvBuf), h.SendBuf), h.MaxMsg), h.MaxChunks)
	return putBytes(b, []byte(h.URL))
}

func DecodeHello(b []byte) (*Hello, error) {
	if len(b) < 24 {
		return nil, errors.New("refpeer: short HEL")
	}
	h := &Hello{le32(b), le32(b[4:]), le32(b[8:]), le32(b[12:]), le32(b[16:]), ""}
	u, _, err := readBytes(b, 20)
	h.URL = string(u)
	return h, err
}

func (a *Ack) Encode() []byte {
	return put32(put32(put32(put32(put32(nil, a.Version), a.RecvBuf), a.SendBuf), a.MaxMsg), a.MaxChunks)
}

func DecodeAck(b []byte) (*Ack, error) {
	if len(b) < 20 {
		return nil, errors.New("refpeer: short ACK")
	}
	return &Ack{le32(b), le32(b[4:]), le32(b[8:]), le32(b[12:]), le32(b[16:])}, nil
}

func ErrBody(code uint32, reason string) []byte { return putBytes(put32(nil, code), []byte(reason)) }

// ---------- secure channel, either role ----------

// Token is one issued security token with its keys.
type Token struct {
	ID          uint32
	Sym         *SymCtx
	IssuedAt    time.Time
	Lifetime    time.Duration
	ClientNonce []byte
	ServerNonce []byte
}

// Obs is one chunk as observed on arrival (after verification/decryption).
type Obs struct {
	MsgType   string
	ChunkType byte
	Seq       uint32
	ReqID     uint32
	TokenID   uint32
	TokenIdx  int // index into Tokens of the key set that verified it
	Len       int
	Body      int // body bytes this chunk carried (after removing padding and signature)
	At        time.Time
}

// Msg is a reassembled message.
type Msg struct {
	Type    string // OPN MSG CLO
	ReqID   uint32
	Body    []byte // type id + service
	Service interface{}
	Err     error // decode error of the body, if any
	Aborted bool
	Obs     []Obs
}

type Security struct {
	Policy     *Policy // nil = None
	Mode       int
	LocalKey   *rsa.PrivateKey
	LocalCert  []byte
	RemoteCert []byte // client role: the server certificate; server role: learned from the OPN
}

type Channel struct {
	Conn     net.Conn
	IsServer bool
	Sec      Security
	ID       uint32
	Tokens   []*Token
	// limits this side advertised / learned
	MyRecvBuf, PeerRecvBuf uint32

	wmu     sync.Mutex
	SendSeq uint32 // last sequence number sent
	ReqSeq  uint32 // client role: last request id used

	rmu     sync.Mutex
	partial map[uint32]*Msg
	Log     []Obs // every chunk received, in arrival order
	Raw     func(dir string, frame []byte)
}

func NewChannel(conn net.Conn, isServer bool, sec Security) *Channel {
	return &Channel{Conn: conn, IsServer: isServer, Sec: sec, partial: map[uint32]*Msg{}, MyRecvBuf: 1 << 20, PeerRecvBuf: 65535}
}

func (c *Channel) newest() *Token {
	if len(c.Tokens) == 0 {
		return nil
	}
	return c.Tokens[len(c.Tokens)-1]
}

func (c *Channel) asym() (*AsymCtx, error) {
	return NewAsymCtx(c.Sec.Policy, c.Sec.LocalKey, c.Sec.LocalCert, c.Sec.RemoteCert)
}

// WriteRaw writes bytes to the connection as they are.
func (c *Channel) WriteRaw(b []byte) error {
	c.wmu.Lock()
	defer c.wmu.Unlock()
	if c.Raw != nil {
		c.Raw("out", b)
	}
	_, err := c.Conn.Write(b)
	return err
}

// NextSeq returns the next sequence number to send, honouring the wrap rule.
func (c *Channel) nextSeqLocked() uint32 {
	if c.SendSeq >= 0xffffffff-1024 {
		c.SendSeq = 0
	} else {
		c.SendSeq++
	}
	return c.SendSeq
}

type SendOpts struct {
	Token     *Token // nil = newest
	MaxBody   int    // body bytes per chunk (0 = as many as fit the peer's receive buffer)
	PadStyle  int
	ChunkHook func(i, n int, chunk []byte) []byte // may alter or drop (nil) a chunk before it is written
}

// SendService encodes svc, splits it into chunks and writes them back to back.
func (c *Channel) SendService(msgType string, reqID uint32, svc interface{}, o SendOpts) ([][]byte, error) {
	body, err := EncodeBody(svc)
	if err != nil {
		return nil, err
	}
	return c.SendBody(msgType, reqID, body, o)
}

func EncodeBody(svc interface{}) ([]byte, error) {
	tid := ua.ServiceTypeID(svc)
	if tid == 0 {
		return nil, fmt.Errorf("refpeer: %T is not a registered service", svc)
	}
	idb, _ := ua.NewFourByteExpandedNodeID(0, tid).Encode()
	b, err := ua.Encode(svc)
	if err != nil {
		return nil, err
	}
	return append(idb, b...), nil
}

func (c *Channel) SendBody(msgType string, reqID uint32, body []byte, o SendOpts) ([][]byte, error) {
	tok := o.Token
	if tok == nil {
		tok = c.newest()
	}
	if tok == nil {
		return nil, errors.New("refpeer: no token")
	}
	max := o.MaxBody
	if lim := tok.Sym.MaxBody(int(c.PeerRecvBuf)); max <= 0 || max > lim {
		max = lim
		if o.PadStyle == PadSpec && tok.Sym.Mode == ModeSignAndEncrypt {
			max--
		}
	}
	n := (len(body) + max - 1) / max
	if n == 0 {
		n = 1
	}
	c.wmu.Lock()
	defer c.wmu.Unlock()
	var sent [][]byte
	for i := 0; i < n; i++ {
		part := body
		typ := byte('F')
		if i < n-1 {
			part, body = body[:max], body[max:]
			typ = 'C'
		}
		ch, err := tok.Sym.Seal(msgType, typ, c.nextSeqLocked(), reqID, part, o.PadStyle)
		if err != nil {
			return sent, err
		}
		if o.ChunkHook != nil {
			if ch = o.ChunkHook(i, n, ch); ch == nil {
				continue
			}
		}
		if c.Raw != nil {
			c.Raw("out", ch)
		}
		if _, err := c.Conn.Write(ch); err != nil {
			return sent, err
		}
		sent = append(sent, ch)
	}
	return sent, nil
}

// SealChunk seals one chunk with an explicit sequence number without sending it.
func (c *Channel) SealChunk(tok *Token, msgType string, typ byte, seq, reqID uint32, part []byte) ([]byte, error) {
	if tok == nil {
		tok = c.newest()
	}
	return tok.Sym.Seal(msgType, typ, seq, reqID, part, PadMinimal)
}

// TakeSeq reserves and returns the next outgoing sequence number.
func (c *Channel) TakeSeq() uint32 {
	c.wmu.Lock()
	defer c.wmu.Unlock()
	return c.nextSeqLocked()
}

var ErrClosed = errors.New("refpeer: CLO received")

// ReadMsg reads chunks until one message is complete.
func (c *Channel) ReadMsg() (*Msg, error) {
	for {
		f, err := ReadFrame(c.Conn, c.MyRecvBuf)
		if err != nil {
			return nil, err
		}
		if c.Raw != nil {
			c.Raw("in", f.Raw)
		}
		switch f.Type {
		case "ERR":
			b := f.Body()
			if len(b) >= 4 {
				return nil, fmt.Errorf("refpeer: ERR %#x from peer", le32(b))
			}
			return nil, errors.New("refpeer: ERR from peer")
		case "OPN":
			a, err := c.asym()
			if err != nil && c.IsServer && c.Sec.Policy != nil {
				// server: the client certificate comes with the OPN
				if crt := peekSenderCert(f.Raw); crt != nil {
					c.Sec.RemoteCert = crt
					a, err = c.asym()
				}
			}
			if err != nil {
				return nil, err
			}
			k, err := a.OpenOPN(f.Raw)
			if err != nil {
				return nil, err
			}
			o := Obs{MsgType: "OPN", ChunkType: k.ChunkType, Seq: k.Seq, ReqID: k.ReqID, Len: len(f.Raw), Body: len(k.Body), At: time.Now(), TokenIdx: -1}
			c.rmu.Lock()
			c.Log = append(c.Log, o)
			c.rmu.Unlock()
			m := &Msg{Type: "OPN", ReqID: k.ReqID, Body: k.Body, Obs: []Obs{o}}
			_, m.Service, m.Err = ua.DecodeService(k.Body)
			return m, nil
		case "MSG", "CLO":
			k, idx, err := c.openSym(f.Raw)
			if err != nil {
				return nil, err
			}
			o := Obs{MsgType: f.Type, ChunkType: k.ChunkType, Seq: k.Seq, ReqID: k.ReqID, TokenID: k.TokenID, TokenIdx: idx, Len: len(f.Raw), Body: len(k.Body), At: time.Now()}
			c.rmu.Lock()
			c.Log = append(c.Log, o)
			m := c.partial[k.ReqID]
			if m == nil {
				m = &Msg{Type: f.Type, ReqID: k.ReqID}
				c.partial[k.ReqID] = m
			}
			m.Obs = append(m.Obs, o)
			switch k.ChunkType {
			case 'A':
				delete(c.partial, k.ReqID)
				c.rmu.Unlock()
				m.Aborted = true
				return m, nil
			case 'C':
				m.Body = append(m.Body, k.Body...)
				c.rmu.Unlock()
				continue
			}
			m.Body = append(m.Body, k.Body...)
			delete(c.partial, k.ReqID)
			c.rmu.Unlock()
			_, m.Service, m.Err = ua.DecodeService(m.Body)
			if f.Type == "CLO" {
				return m, ErrClosed
			}
			return m, nil
		default:
			return nil, fmt.Errorf("refpeer: unexpected frame type %q", f.Type)
		}
	}
}

func peekSenderCert(raw []byte) []byte {
	_, pos, err := readBytes(raw, 12)
	if err != nil {
		return nil
	}
	crt, _, err := readBytes(raw, pos)
	if err != nil {
		return nil
	}
	return crt
}

// openSym tries the tokens whose id matches, newest first (a server may re-issue the same id on renewal).
func (c *Channel) openSym(raw []byte) (*Chunk, int, error) {
	if len(raw) < 16 {
		return nil, -1, errors.New("refpeer: short symmetric chunk")
	}
	tid := le32(raw[12:])
	var last error = fmt.Errorf("refpeer: unknown token id %d", tid)
	c.rmu.Lock()
	toks := append([]*Token{}, c.Tokens...)
	c.rmu.Unlock()
	for i := len(toks) - 1; i >= 0; i-- {
		if toks[i].ID != tid {
			continue
		}
		k, err := toks[i].Sym.Open(raw)
		if err == nil {
			return k, i, nil
		}
		last = err
	}
	return nil, -1, last
}

func (c *Channel) addToken(t *Token) {
	c.rmu.Lock()
	c.Tokens = append(c.Tokens, t)
	c.rmu.Unlock()
}

// ---------- client role ----------

type ClientOpts struct {
	Hello    Hello
	Sec      Security
	Lifetime uint32 // requested lifetime in ms
	FirstSeq uint32 // first sequence number - 1
	Timeout  time.Duration
}

// Dial connects, performs HEL/ACK and returns the channel (not yet opened) and the ACK.
func Dial(addr string, o ClientOpts) (*Channel, *Ack, error) {
	conn, err := net.DialTimeout("tcp", addr, 5*time.Second)
	if err != nil {
		return nil, nil, err
	}
	h := o.Hello
	if h.RecvBuf == 0 {
		h.RecvBuf, h.SendBuf = 65535, 65535
	}
	if h.URL == "" {
		h.URL = "opc.tcp://" + addr
	}
	if _, err := conn.Write(MakeFrame("HELF", h.Encode())); err != nil {
		conn.Close()
		return nil, nil, err
	}
	conn.SetReadDeadline(time.Now().Add(10 * time.Second))
	f, err := ReadFrame(conn, 0)
	conn.SetReadDeadline(time.Time{})
	if err != nil {
		conn.Close()
		return nil, nil, err
	}
	if f.Type != "ACK" {
		conn.Close()
		return nil, nil, fmt.Errorf("refpeer: expected ACK, got %q", f.Type)
	}
	ack, err := DecodeAck(f.Body())
	if err != nil {
		conn.Close()
		return nil, nil, err
	}
	c := NewChannel(conn, false, o.Sec)
	c.SendSeq = o.FirstSeq
	c.MyRecvBuf = h.RecvBuf
	c.PeerRecvBuf = ack.RecvBuf
	if h.SendBuf < c.PeerRecvBuf {
		c.PeerRecvBuf = h.SendBuf
	}
	return c, ack, nil
}

// Open sends an OpenSecureChannel request (Issue or Renew) and installs the token of the response.
func (c *Channel) Open(renew bool, lifetimeMS uint32) (*ua.OpenSecureChannelResponse, error) {
	a, err := c.asym()
	if err != nil {
		return nil, err
	}
	nl := 32
	if c.Sec.Policy != nil {
		nl = c.Sec.Policy.NonceLen
	}
	var nonce []byte
	if c.Sec.Policy != nil {
		nonce = make([]byte, nl)
		rand.Read(nonce)
	}
	rt := ua.SecurityTokenRequestTypeIssue
	if renew {
		rt = ua.SecurityTokenRequestTypeRenew
	}
	c.ReqSeq++
	reqID := c.ReqSeq
	req := &ua.OpenSecureChannelRequest{
		RequestHeader:     &ua.RequestHeader{AuthenticationToken: ua.NewTwoByteNodeID(0), Timestamp: time.Now(), RequestHandle: reqID, AdditionalHeader: ua.NewExtensionObject(nil)},
		RequestType:       rt,
		SecurityMode:      ua.MessageSecurityMode(c.Sec.Mode),
		ClientNonce:       nonce,
		RequestedLifetime: lifetimeMS,
	}
	body, err := EncodeBody(req)
	if err != nil {
		return nil, err
	}
	c.wmu.Lock()
	ch, err := a.SealOPN(c.ID, c.nextSeqLocked(), reqID, body, PadMinimal, 0)
	if err == nil {
		if c.Raw != nil {
			c.Raw("out", ch)
		}
		_, err = c.Conn.Write(ch)
	}
	c.wmu.Unlock()
	if err != nil {
		return nil, err
	}
	for {
		m, err := c.ReadMsg()
		if err != nil {
			return nil, err
		}
		if m.Type != "OPN" {
			continue // a response of an earlier request; callers that care use ReadMsg themselves
		}
		resp, ok := m.Service.(*ua.OpenSecureChannelResponse)
		if !ok {
			return nil, fmt.Errorf("refpeer: OPN response is %T (%v)", m.Service, m.Err)
		}
		if resp.ResponseHeader.ServiceResult != ua.StatusOK {
			return resp, fmt.Errorf("refpeer: OpenSecureChannel failed: %v", resp.ResponseHeader.ServiceResult)
		}
		c.ID = resp.SecurityToken.ChannelID
		t := &Token{ID: resp.SecurityToken.TokenID, IssuedAt: time.Now(), Lifetime: time.Duration(resp.SecurityToken.RevisedLifetime) * time.Millisecond,
			ClientNonce: nonce, ServerNonce: resp.ServerNonce}
		t.Sym = NewSymCtx(c.Sec.Policy, c.Sec.Mode, nonce, resp.ServerNonce, true, c.ID, t.ID)
		c.addToken(t)
		return resp, nil
	}
}

// Request sends a request and waits for the response with the same request id.
func (c *Channel) Request(req ua.Request, authToken *ua.NodeID, timeout time.Duration) (interface{}, error) {
	reqID, err := c.SendRequest(req, authToken, SendOpts{})
	if err != nil {
		return nil, err
	}
	return c.Await(reqID, timeout)
}

func (c *Channel) SendRequest(req ua.Request, authToken *ua.NodeID, o SendOpts) (uint32, error) {
	c.wmu.Lock()
	c.ReqSeq++
	reqID := c.ReqSeq
	c.wmu.Unlock()
	if authToken == nil {
		authToken = ua.NewTwoByteNodeID(0)
	}
	req.SetHeader(&ua.RequestHeader{AuthenticationToken: authToken, Timestamp: time.Now(), RequestHandle: reqID, TimeoutHint: 10000, AdditionalHeader: ua.NewExtensionObject(nil)})
	_, err := c.SendService("MSG", reqID, req, o)
	return reqID, err
}

func (c *Channel) Await(reqID uint32, timeout time.Duration) (interface{}, error) {
	if timeout > 0 {
		c.Conn.SetReadDeadline(time.Now().Add(timeout))
		defer c.Conn.SetReadDeadline(time.Time{})
	}
	for {
		m, err := c.ReadMsg()
		if err != nil {
			return nil, err
		}
		if m.ReqID != reqID {
			continue
		}
		if m.Err != nil {
			return nil, m.Err
		}
		return m.Service, nil
	}
}

func (c *Channel) Close() { c.Conn.Close() }

// ---------- server role ----------

type ServerOpts struct {
	Ack       Ack
	Policy    *Policy // nil = None
	Mode      int
	Key       *rsa.PrivateKey
	Cert      []byte
	FirstSeq  uint32
	ChannelID uint32
	// Lifetime overrides the revised lifetime (ms); 0 = grant what was requested
	Lifetime uint32
	// OnOpen may veto/alter the OPN handling: return false to not answer
	OnOpen func(ch *Channel, req *ua.OpenSecureChannelRequest, renew bool) bool
}

// Accept performs the server side of HEL/ACK on an accepted connection.
func Accept(conn net.Conn, o ServerOpts) (*Channel, *Hello, error) {
	conn.SetReadDeadline(time.Now().Add(10 * time.Second))
	f, err := ReadFrame(conn, 0)
	conn.SetReadDeadline(time.Time{})
	if err != nil {
		return nil, nil, err
	}
	if f.Type != "HEL" {
		return nil, nil, fmt.Errorf("refpeer: expected HEL, got %q", f.Type)
	}
	h, err := DecodeHello(f.Body())
	if err != nil {
		return nil, nil, err
	}
	ack := o.Ack
	if ack.RecvBuf == 0 {
		ack = Ack{RecvBuf: 65535, SendBuf: 65535, MaxMsg: 0, MaxChunks: 0}
		if h.SendBuf < ack.RecvBuf {
			ack.RecvBuf = h.SendBuf
		}
		if h.RecvBuf < ack.SendBuf {
			ack.SendBuf = h.RecvBuf
		}
	}
	if _, err := conn.Write(MakeFrame("ACKF", ack.Encode())); err != nil {
		return nil, nil, err
	}
	c := NewChannel(conn, true, Security{Policy: o.Policy, Mode: o.Mode, LocalKey: o.Key, LocalCert: o.Cert})
	c.MyRecvBuf = ack.RecvBuf
	c.PeerRecvBuf = ack.SendBuf
	c.SendSeq = o.FirstSeq
	c.ID = o.ChannelID
	if c.ID == 0 {
		c.ID = 1000
	}
	return c, h, nil
}

// AnswerOpen answers an OPN request read by ReadMsg: issues a token and sends the response.
func (c *Channel) AnswerOpen(m *Msg, o ServerOpts) (*Token, error) {
	req, ok := m.Service.(*ua.OpenSecureChannelRequest)
	if !ok {
		return nil, fmt.Errorf("refpeer: OPN body is %T (%v)", m.Service, m.Err)
	}
	lt := req.RequestedLifetime
	if o.Lifetime != 0 {
		lt = o.Lifetime
	}
	var sn []byte
	if c.Sec.Policy != nil {
		sn = make([]byte, c.Sec.Policy.NonceLen)
		rand.Read(sn)
	}
	id := uint32(1)
	if n := c.newest(); n != nil {
		id = n.ID + 1
	}
	t := &Token{ID: id, IssuedAt: time.Now(), Lifetime: time.Duration(lt) * time.Millisecond, ClientNonce: req.ClientNonce, ServerNonce: sn}
	t.Sym = NewSymCtx(c.Sec.Policy, c.Sec.Mode, req.ClientNonce, sn, false, c.ID, id)
	resp := &ua.OpenSecureChannelResponse{
		ResponseHeader: &ua.ResponseHeader{Timestamp: time.Now(), RequestHandle: req.RequestHeader.RequestHandle, ServiceDiagnostics: &ua.DiagnosticInfo{},
			StringTable: []string{}, AdditionalHeader: ua.NewExtensionObject(nil)},
		SecurityToken: &ua.ChannelSecurityToken{ChannelID: c.ID, TokenID: id, CreatedAt: time.Now(), RevisedLifetime: lt},
		ServerNonce:   sn,
	}
	body, err := EncodeBody(resp)
	if err != nil {
		return nil, err
	}
	a, err := c.asym()
	if err != nil {
		return nil, err
	}
	// the new keys must be known before the client can use them
	c.addToken(t)
	c.wmu.Lock()
	ch, err := a.SealOPN(c.ID, c.nextSeqLocked(), m.ReqID, body, PadMinimal, 0)
	if err == nil {
		if c.Raw != nil {
			c.Raw("out", ch)
		}
		_, err = c.Conn.Write(ch)
	}
	c.wmu.Unlock()
	return t, err
}

// RespHeader builds a response header for a request.
func RespHeader(req ua.Request, status ua.StatusCode) *ua.ResponseHeader {
	h := uint32(0)
	if req != nil && req.Header() != nil {
		h = req.Header().RequestHandle
	}
	return &ua.ResponseHeader{Timestamp: time.Now(), RequestHandle: h, ServiceResult: status, ServiceDiagnostics: &ua.DiagnosticInfo{},
		StringTable: []string{}, AdditionalHeader: ua.NewExtensionObject(nil)}
}

// ---------- session helpers for the client role ----------

// CreateSession issues CreateSession on an open channel.
func (c *Channel) CreateSession(endpoint string, clientCert []byte) (*ua.CreateSessionResponse, error) {
	nonce := make([]byte, 32)
	rand.Read(nonce)
	v, err := c.Request(&ua.CreateSessionRequest{
		ClientDescription:       &ua.ApplicationDescription{ApplicationURI: "urn:verif:refpeer-client", ApplicationName: ua.NewLocalizedText("refpeer"), ApplicationType: ua.ApplicationTypeClient},
		EndpointURL:             endpoint,
		SessionName:             "refpeer",
		ClientNonce:             nonce,
		ClientCertificate:       clientCert,
		RequestedSessionTimeout: 60000,
	}, nil, 10*time.Second)
	if err != nil {
		return nil, err
	}
	r, ok := v.(*ua.CreateSessionResponse)
	if !ok {
		return nil, fmt.Errorf("refpeer: CreateSession answered with %T", v)
	}
	return r, nil
}

// ActivateSession activates with an anonymous identity. clientSig may be nil (mode None).
func (c *Channel) ActivateSession(authToken *ua.NodeID, policyID string, clientSig *ua.SignatureData) (interface{}, error) {
	if clientSig == nil {
		clientSig = &ua.SignatureData{}
	}
	return c.Request(&ua.ActivateSessionRequest{
		ClientSignature:   clientSig,
		LocaleIDs:         []string{"en"},
		UserIdentityToken: ua.NewExtensionObject(&ua.AnonymousIdentityToken{PolicyID: policyID}),
		UserTokenSignature: &ua.SignatureData{},
	}, authToken, 10*time.Second)
}

// OpenSession dials, opens a channel without security and creates and activates an anonymous session.
func OpenSession(addr, endpoint string) (*Channel, *ua.NodeID, error) {
	c, _, err := Dial(addr, ClientOpts{Hello: Hello{URL: endpoint}, Sec: Security{Mode: ModeNone}})
	if err != nil {
		return nil, nil, err
	}
	if _, err := c.Open(false, 3600000); err != nil {
		c.Close()
		return nil, nil, err
	}
	cs, err := c.CreateSession(endpoint, nil)
	if err != nil {
		c.Close()
		return nil, nil, err
	}
	v, err := c.ActivateSession(cs.AuthenticationToken, "anonymous_none", nil)
	if err != nil {
		c.Close()
		return nil, nil, err
	}
	if _, ok := v.(*ua.ActivateSessionResponse); !ok {
		c.Close()
		return nil, nil, fmt.Errorf("refpeer: ActivateSession answered with %T", v)
	}
	return c, cs.AuthenticationToken, nil
}

// StatusOf extracts the service result of a response (ServiceFault included).
func StatusOf(v interface{}) ua.StatusCode {
	if r, ok := v.(ua.Response); ok && r.Header() != nil {
		return r.Header().ServiceResult
	}
	return ua.StatusBadUnexpectedError
}
