// worker runs one batch of one property (or plans / merges / replays).
package main

import (
	"encoding/json"
	"flag"
	"fmt"
	"os"
	"strings"

	"verifharness/fw"
	_ "verifharness/props"
	"verifharness/sut"
)

func main() {
	var (
		prop    = flag.String("prop", "", "property id")
		tier    = flag.String("tier", "quick", "quick|thorough")
		seed    = flag.Int64("seed", 1, "seed")
		batch   = flag.Int("batch", 0, "batch index")
		nbatch  = flag.Int("nbatch", 1, "number of batches")
		dir     = flag.String("dir", "", "output directory of this batch segment")
		resume  = flag.Int64("resume", 0, "first case index to run")
		plan    = flag.Bool("plan", false, "print the plan as JSON")
		merge   = flag.String("merge", "", "comma separated distinct.bin files: print union size")
		replay  = flag.String("replay", "", "witness file to replay")
		role    = flag.String("role", "", "run as a system-under-test child (see package sut)")
		roleArg = flag.String("rolearg", "", "JSON argument of the role")
		list    = flag.Bool("list", false, "list registered properties")
	)
	flag.Parse()

	if *role != "" {
		os.Exit(sut.Main(*role, *roleArg))
	}
	if *list {
		fmt.Println(strings.Join(fw.IDs(), " "))
		return
	}
	if *merge != "" {
		n, err := fw.MergeDistinct(strings.Split(*merge, ","))
		if err != nil {
			fmt.Fprintln(os.Stderr, err)
			os.Exit(3)
		}
		fmt.Println(n)
		return
	}
	spec, ok := fw.Lookup(*prop)
	if !ok {
		fmt.Fprintf(os.Stderr, "unknown property %q\n", *prop)
		os.Exit(3)
	}
	if *plan {
		p := spec.Plan(*tier)
		json.NewEncoder(os.Stdout).Encode(p)
		return
	}
	c, err := fw.NewCtx(*prop, *tier, *seed, *batch, *nbatch, *dir, *resume)
	if err != nil {
		fmt.Fprintln(os.Stderr, err)
		os.Exit(3)
	}
	if *replay != "" {
		b, err := os.ReadFile(*replay)
		if err != nil {
			fmt.Fprintln(os.Stderr, err)
			os.Exit(3)
		}
		var w struct {
			Witness json.RawMessage `json:"witness"`
			Batch   int             `json:"batch"`
		}
		if err := json.Unmarshal(b, &w); err != nil {
			fmt.Fprintln(os.Stderr, err)
			os.Exit(3)
		}
		if spec.Replay == nil {
			fmt.Fprintln(os.Stderr, "property has no replay function")
			os.Exit(3)
		}
		c.Batch = w.Batch
		if err := spec.Replay(c, w.Witness); err != nil {
			fmt.Fprintln(os.Stderr, "replay:", err)
			c.Checkpoint(false)
			os.Exit(3)
		}
		c.Checkpoint(true)
		return
	}
	if err := spec.Run(c); err != nil {
		fmt.Fprintln(os.Stderr, "run:", err)
		c.Checkpoint(false)
		os.Exit(3)
	}
	if err := c.Checkpoint(true); err != nil {
		fmt.Fprintln(os.Stderr, err)
		os.Exit(3)
	}
}
