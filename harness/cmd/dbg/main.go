package main

import (
	"context"
	"fmt"
	"os"
	"time"

	"github.com/gopcua/opcua"
	"github.com/gopcua/opcua/ua"

	"verifharness/keys"
	"verifharness/refpeer"
)

func main() {
	p := refpeer.PolicyByURI(refpeer.URIBasic256Sha256)
	mode := 3
	if len(os.Args) > 1 && os.Args[1] == "sign" {
		mode = 2
	}
	sk, ck := keys.Get("b", 2048), keys.Get("a", 2048)
	srv, err := refpeer.NewServer(refpeer.ServerOpts{Policy: p, Mode: mode, Key: sk.Key, Cert: sk.Cert})
	if err != nil {
		panic(err)
	}
	srv.OnEnd = func(sc *refpeer.SrvConn, err error) { fmt.Println("server conn end:", err) }
	srv.Handler = func(sc *refpeer.SrvConn, m *refpeer.Msg) {
		fmt.Printf("server got %T err=%v\n", m.Service, m.Err)
		if !srv.Default(sc, m) {
			sc.Fault(m, ua.StatusBadServiceUnsupported)
		}
	}
	ctx, cancel := context.WithTimeout(context.Background(), 5*time.Second)
	defer cancel()
	cl, err := opcua.NewClient(srv.Endpoint(), opcua.SecurityPolicy(p.URI), opcua.SecurityMode(ua.MessageSecurityMode(mode)),
		opcua.PrivateKey(ck.Key), opcua.Certificate(ck.Cert), opcua.SecurityFromEndpoint(srv.Endpoints()[0], ua.UserTokenTypeAnonymous), opcua.RequestTimeout(time.Second), opcua.AutoReconnect(false))
	fmt.Println("new client", err)
	err = cl.Connect(ctx)
	fmt.Println("connect:", err)
	time.Sleep(100 * time.Millisecond)
}
