// genkeys generates the committed test keys and self-signed certificates (run once; never at check time).
package main

import (
	"crypto/rand"
	"crypto/rsa"
	"crypto/x509"
	"crypto/x509/pkix"
	"encoding/pem"
	"fmt"
	"math/big"
	"net"
	"net/url"
	"os"
	"path/filepath"
	"time"
)

func main() {
	dir := os.Args[1]
	for _, bits := range []int{512, 1024, 2048, 3072, 4096} {
		for _, name := range []string{"a", "b"} {
			key, err := rsa.GenerateKey(rand.Reader, bits)
			if err != nil {
				panic(err)
			}
			uri, _ := url.Parse(fmt.Sprintf("urn:verif:%s%d", name, bits))
			tmpl := x509.Certificate{
				SerialNumber:          big.NewInt(int64(bits)*10 + int64(name[0])),
				Subject:               pkix.Name{CommonName: fmt.Sprintf("verif-%s-%d", name, bits), Organization: []string{"verif"}},
				NotBefore:             time.Date(2020, 1, 1, 0, 0, 0, 0, time.UTC),
				NotAfter:              time.Date(2120, 1, 1, 0, 0, 0, 0, time.UTC),
				KeyUsage:              x509.KeyUsageContentCommitment | x509.KeyUsageKeyEncipherment | x509.KeyUsageDigitalSignature | x509.KeyUsageDataEncipherment | x509.KeyUsageCertSign,
				ExtKeyUsage:           []x509.ExtKeyUsage{x509.ExtKeyUsageServerAuth, x509.ExtKeyUsageClientAuth},
				BasicConstraintsValid: true,
				IsCA:                  true,
				DNSNames:              []string{"localhost"},
				IPAddresses:           []net.IP{net.ParseIP("127.0.0.1")},
				URIs:                  []*url.URL{uri},
				SignatureAlgorithm:    x509.SHA256WithRSA,
			}
			der, err := x509.CreateCertificate(rand.Reader, &tmpl, &tmpl, &key.PublicKey, key)
			if err != nil {
				panic(err)
			}
			base := filepath.Join(dir, fmt.Sprintf("%s%d", name, bits))
			os.WriteFile(base+".key.pem", pem.EncodeToMemory(&pem.Block{Type: "RSA PRIVATE KEY", Bytes: x509.MarshalPKCS1PrivateKey(key)}), 0o644)
			os.WriteFile(base+".cert.pem", pem.EncodeToMemory(&pem.Block{Type: "CERTIFICATE", Bytes: der}), 0o644)
			fmt.Println("wrote", base)
		}
	}
}
