// Package sut holds the roles a worker can take when it is started as a
// separate system-under-test process (so that a panic inside gopcua kills only
// that child and the peer that drove it survives to tell what it sent last).
package sut

import (
	"fmt"
	"os"
)

var roles = map[string]func(arg string) int{}

func Register(name string, f func(arg string) int) { roles[name] = f }

func Main(role, arg string) int {
	f, ok := roles[role]
	if !ok {
		fmt.Fprintf(os.Stderr, "unknown role %q\n", role)
		return 3
	}
	return f(arg)
}
