// Package sut holds the roles a worker can take when it is started as a
// separate system-under-test process (so that a panic inside gopcua kills only
// that child and the peer that drove it survives to tell what it sent last).
package sut

import (
	"fmt"
	"os"
	"os/exec"
	"strings"
	"sync"
	"syscall"
	"time"
)

var roles = map[string]func(arg string) int{}

func Register(name string, f func(arg string) int) { roles[name] = f }

func Main(role, arg string) int {
	f, ok := roles[role]
	if !ok {
		fmt.Fprintf(os.Stderr, "unknown role %q\n", role)
		return 3
	}
	return f(arg)
}

// RunChild starts this executable again in the given role and waits for it.
// Stdout and stderr go to files (a pipe would lose the goroutine dump of a
// dying process). It returns what the child printed, its exit status and whether
// the watchdog had to kill it.
func RunChild(role, arg string, watchdog time.Duration) (stdout, stderr string, rc int, timedOut bool) {
	p, err := StartChild(role, arg)
	if err != nil {
		return "", err.Error(), -1, false
	}
	return p.Wait(watchdog)
}

// Child is a running system-under-test process.
type Child struct {
	Cmd      *exec.Cmd
	outF     *os.File
	errF     *os.File
	done     chan struct{}
	waitErr  error
	waitOnce sync.Once
}

func StartChild(role, arg string) (*Child, error) {
	exe := os.Getenv("VERIF_WORKER")
	if exe == "" {
		var err error
		if exe, err = os.Executable(); err != nil {
			return nil, err
		}
	}
	dir := os.Getenv("VERIF_TMP")
	if dir == "" {
		dir = os.TempDir()
	}
	outF, err := os.CreateTemp(dir, "sut-out-*")
	if err != nil {
		return nil, err
	}
	errF, err := os.CreateTemp(dir, "sut-err-*")
	if err != nil {
		return nil, err
	}
	cmd := exec.Command(exe, "-role", role, "-rolearg", arg)
	cmd.Stdout, cmd.Stderr = outF, errF
	cmd.Env = append(os.Environ(), "GOTRACEBACK=all")
	if err := cmd.Start(); err != nil {
		return nil, err
	}
	c := &Child{Cmd: cmd, outF: outF, errF: errF, done: make(chan struct{})}
	go func() {
		c.waitErr = cmd.Wait()
		close(c.done)
	}()
	return c, nil
}

// Alive reports whether the process is still running.
func (c *Child) Alive() bool {
	select {
	case <-c.done:
		return false
	default:
		return true
	}
}

// Output returns what the child has printed so far.
func (c *Child) Output() (string, string) {
	o, _ := os.ReadFile(c.outF.Name())
	e, _ := os.ReadFile(c.errF.Name())
	return string(o), string(e)
}

// Dump asks the child for a goroutine dump (SIGQUIT ends it) and returns its stderr.
func (c *Child) Dump() string {
	c.Cmd.Process.Signal(syscall.SIGQUIT)
	select {
	case <-c.done:
	case <-time.After(5 * time.Second):
		c.Cmd.Process.Kill()
		<-c.done
	}
	_, e := c.Output()
	return e
}

func (c *Child) Kill() {
	c.Cmd.Process.Kill()
	<-c.done
	c.cleanup()
}

func (c *Child) cleanup() {
	c.waitOnce.Do(func() {
		c.outF.Close()
		c.errF.Close()
		os.Remove(c.outF.Name())
		os.Remove(c.errF.Name())
	})
}

// Wait waits for the child to exit; on watchdog expiry it takes a goroutine dump and kills it.
func (c *Child) Wait(watchdog time.Duration) (stdout, stderr string, rc int, timedOut bool) {
	select {
	case <-c.done:
	case <-time.After(watchdog):
		timedOut = true
		c.Dump()
	}
	stdout, stderr = c.Output()
	rc = c.Cmd.ProcessState.ExitCode()
	c.cleanup()
	return
}

// WaitLine polls the child's stdout for a line with the given prefix and returns the rest of it.
func (c *Child) WaitLine(prefix string, d time.Duration) (string, bool) {
	dl := time.Now().Add(d)
	for time.Now().Before(dl) {
		o, _ := c.Output()
		for _, line := range strings.Split(o, "\n") {
			if strings.HasPrefix(line, prefix) {
				return strings.TrimPrefix(line, prefix), true
			}
		}
		if !c.Alive() {
			return "", false
		}
		time.Sleep(5 * time.Millisecond)
	}
	return "", false
}
