package props

import (
	"context"
	"encoding/json"
	"fmt"
	"math/rand"
	"os"
	"sync"
	"sync/atomic"
	"time"

	"github.com/gopcua/opcua"
	"github.com/gopcua/opcua/ua"

	"verifharness/fw"
	"verifharness/refpeer"
)

// C27: subscription API calls and the publish loop never deadlock. The real client talks to the scripted server,
// which holds the outstanding PublishRequest and decides its outcome; application goroutines subscribe, cancel,
// cancel again and forget while it is outstanding. Blocked means: not returned after thousands of heartbeats of
// this process although nothing is pending; progress means: a fresh subscription receives a notification afterwards.

type c27Case struct {
	Index   int64    `json:"index"`
	Seed    int64    `json:"seed"`
	Auto    bool     `json:"auto_reconnect"`
	Stall   bool     `json:"application_does_not_read_notifications,omitempty"`
	Busy    bool     `json:"application_calls_the_api_between_reads_of_an_unbuffered_channel,omitempty"`
	Steps   []string `json:"schedule"`
	Outcome string   `json:"publish_outcome"`
	Detail  string   `json:"detail,omitempty"`
}

type c27Srv struct {
	mu      sync.Mutex
	held    []func(kind string) // outstanding publish requests: answer with the given outcome
	heldAt  []int64             // logical time of their arrival
	clock   int64
	created int64 // logical time of the last CreateSubscription
	lost    map[uint32]int // subscription -> notification messages "lost in flight", served by Republish
	nextSub uint32
	subs    map[uint32]bool
	seq     uint32
	pubSeen int64
}

func (s *c27Srv) handle(srv *refpeer.Server, sc *refpeer.SrvConn, m *refpeer.Msg) {
	if srv.Default(sc, m) {
		return
	}
	switch req := m.Service.(type) {
	case *ua.CreateSubscriptionRequest:
		s.mu.Lock()
		s.nextSub++
		id := s.nextSub
		s.subs[id] = true
		s.clock++
		s.created = s.clock
		s.mu.Unlock()
		sc.Reply(m, &ua.CreateSubscriptionResponse{ResponseHeader: refpeer.RespHeader(req, ua.StatusOK), SubscriptionID: id, RevisedPublishingInterval: 10, RevisedLifetimeCount: 1000, RevisedMaxKeepAliveCount: 5})
	case *ua.DeleteSubscriptionsRequest:
		res := make([]ua.StatusCode, len(req.SubscriptionIDs))
		s.mu.Lock()
		for i, id := range req.SubscriptionIDs {
			if s.subs[id] {
				delete(s.subs, id)
			} else {
				res[i] = ua.StatusBadSubscriptionIDInvalid
			}
		}
		empty := len(s.subs) == 0
		held := s.held
		if empty {
			s.held, s.heldAt = nil, nil
		}
		s.mu.Unlock()
		sc.Reply(m, &ua.DeleteSubscriptionsResponse{ResponseHeader: refpeer.RespHeader(req, ua.StatusOK), Results: res})
		if empty { // a server answers the queued publish requests when the last subscription is gone
			for _, f := range held {
				f("no-subscription")
			}
		}
	case *ua.PublishRequest:
		atomic.AddInt64(&s.pubSeen, 1)
		answer := func(kind string) {
			switch kind {
			case "notification", "keepalive":
				s.mu.Lock()
				var id uint32
				for k := range s.subs {
					id = k
				}
				s.seq++
				seq := s.seq
				s.mu.Unlock()
				if id == 0 {
					sc.Fault(m, ua.StatusBadNoSubscription)
					return
				}
				msg := &ua.NotificationMessage{SequenceNumber: seq, PublishTime: time.Now()}
				if kind == "notification" {
					dcn := &ua.DataChangeNotification{MonitoredItems: []*ua.MonitoredItemNotification{{ClientHandle: 1, Value: &ua.DataValue{EncodingMask: ua.DataValueValue, Value: ua.MustVariant(int32(seq))}}}, DiagnosticInfos: []*ua.DiagnosticInfo{}}
					eo := ua.NewExtensionObject(dcn)
					eo.UpdateMask()
					msg.NotificationData = []*ua.ExtensionObject{eo}
				}
				sc.Reply(m, &ua.PublishResponse{ResponseHeader: refpeer.RespHeader(req, ua.StatusOK), SubscriptionID: id, NotificationMessage: msg, AvailableSequenceNumbers: []uint32{}, Results: make([]ua.StatusCode, len(req.SubscriptionAcknowledgements)), DiagnosticInfos: []*ua.DiagnosticInfo{}})
			case "no-subscription":
				sc.Fault(m, ua.StatusBadNoSubscription)
			case "too-many":
				sc.Fault(m, ua.StatusBadTooManyPublishRequests)
			case "timeout-fault":
				sc.Fault(m, ua.StatusBadTimeout)
			case "never":
			}
		}
		s.mu.Lock()
		s.held = append(s.held, answer)
		s.clock++
		s.heldAt = append(s.heldAt, s.clock)
		s.mu.Unlock()
	case *ua.TransferSubscriptionsRequest:
		res := make([]*ua.TransferResult, len(req.SubscriptionIDs))
		s.mu.Lock()
		for i, id := range req.SubscriptionIDs {
			res[i] = &ua.TransferResult{StatusCode: ua.StatusBadSubscriptionIDInvalid, AvailableSequenceNumbers: []uint32{}}
			if s.subs[id] {
				res[i].StatusCode = ua.StatusOK
			}
		}
		s.mu.Unlock()
		sc.Reply(m, &ua.TransferSubscriptionsResponse{ResponseHeader: refpeer.RespHeader(req, ua.StatusOK), Results: res, DiagnosticInfos: []*ua.DiagnosticInfo{}})
	case *ua.RepublishRequest:
		s.mu.Lock()
		ok := s.subs[req.SubscriptionID]
		serve := ok && s.lost[req.SubscriptionID] > 0
		if serve {
			s.lost[req.SubscriptionID]--
		}
		s.mu.Unlock()
		if serve {
			dcn := &ua.DataChangeNotification{MonitoredItems: []*ua.MonitoredItemNotification{{ClientHandle: 1, Value: &ua.DataValue{EncodingMask: ua.DataValueValue, Value: ua.MustVariant(int32(-1))}}}, DiagnosticInfos: []*ua.DiagnosticInfo{}}
			eo := ua.NewExtensionObject(dcn)
			eo.UpdateMask()
			sc.Reply(m, &ua.RepublishResponse{ResponseHeader: refpeer.RespHeader(req, ua.StatusOK), NotificationMessage: &ua.NotificationMessage{SequenceNumber: req.RetransmitSequenceNumber, PublishTime: time.Now(), NotificationData: []*ua.ExtensionObject{eo}}})
			return
		}
		if ok {
			sc.Fault(m, ua.StatusBadMessageNotAvailable)
		} else {
			sc.Fault(m, ua.StatusBadSubscriptionIDInvalid)
		}
	default:
		if _, ok := m.Service.(ua.Request); ok {
			sc.Fault(m, ua.StatusBadServiceUnsupported)
		}
	}
}

// createdSinceHeld reports whether a subscription was created after an outstanding publish request had arrived.
func (s *c27Srv) createdSinceHeld() bool {
	s.mu.Lock()
	defer s.mu.Unlock()
	for _, at := range s.heldAt {
		if at < s.created {
			return true
		}
	}
	return false
}

func (s *c27Srv) release(kind string) int {
	s.mu.Lock()
	held := s.held
	s.held, s.heldAt = nil, nil
	s.mu.Unlock()
	for _, f := range held {
		f(kind)
	}
	return len(held)
}

func (s *c27Srv) waitHeld(n int, d time.Duration) bool {
	dl := time.Now().Add(d)
	for time.Now().Before(dl) {
		s.mu.Lock()
		k := len(s.held)
		s.mu.Unlock()
		if k >= n {
			return true
		}
		time.Sleep(time.Millisecond)
	}
	return false
}

func c27One(c *fw.Ctx, cs c27Case) {
	r := rand.New(rand.NewSource(cs.Seed))
	srv, err := refpeer.NewServer(refpeer.ServerOpts{})
	if err != nil {
		c.Inconclusive("listen: " + err.Error())
		return
	}
	defer srv.Close()
	st := &c27Srv{subs: map[uint32]bool{}, lost: map[uint32]int{}}
	srv.Handler = func(sc *refpeer.SrvConn, m *refpeer.Msg) { st.handle(srv, sc, m) }
	hs := &hookStats{hits: map[string]int64{}}
	hr := rand.New(rand.NewSource(r.Int63()))
	opcua.VerifSetHook(func(point string) {
		hs.mu.Lock()
		hs.hits[point]++
		var d time.Duration
		if (point == "cl.forget.beforePause" || point == "cl.publish.beforeLock") && hr.Intn(2) == 0 {
			d = time.Duration(hr.Intn(3000)) * time.Microsecond
		}
		hs.mu.Unlock()
		if d > 0 {
			time.Sleep(d)
		}
	})
	defer func() { opcua.VerifSetHook(nil); hs.flush(c) }()
	bg := context.Background()
	cctx, ccancel := context.WithTimeout(bg, 15*time.Second)
	cl, err := opcua.NewClient(srv.Endpoint(), opcua.SecurityMode(ua.MessageSecurityModeNone), opcua.AutoReconnect(cs.Auto), opcua.ReconnectInterval(20*time.Millisecond), opcua.RequestTimeout(400*time.Millisecond))
	if err == nil {
		err = cl.Connect(cctx)
	}
	ccancel()
	if err != nil {
		c.Inconclusive(fmt.Sprintf("connect: %s (case %d busy=%v stall=%v)", classOf(err.Error()), cs.Index, cs.Busy, cs.Stall))
		return
	}
	closed := false
	defer func() {
		if !closed {
			x, cancel := context.WithTimeout(bg, 2*time.Second)
			cl.Close(x)
			cancel()
		}
	}()
	notif := make(chan *opcua.PublishNotificationData, 4096)
	if cs.Stall || cs.Busy {
		// the application does not read its channel (Stall) or reads it unbuffered between API calls (Busy): the
		// publish loop and the reconnect may wait for it, API calls may not
		notif = make(chan *opcua.PublishNotificationData)
	}
	stopBusy := make(chan struct{})
	busyDone := make(chan struct{})
	var busyCalls int64
	if cs.Busy {
		go func() {
			defer close(busyDone)
			for {
				// a burst of API calls, then one look at the channel
				for k := 0; k < 300; k++ {
					cl.SubscriptionIDs()
				}
				atomic.AddInt64(&busyCalls, 300)
				select {
				case <-stopBusy:
					return
				case <-notif:
				case <-time.After(200 * time.Microsecond):
				}
			}
		}()
	} else {
		close(busyDone)
	}
	var resumes int64 // Subscribe calls that have returned a subscription
	var subs []*opcua.Subscription
	var smu sync.Mutex
	subscribe := func() *opcua.Subscription {
		s, err := cl.Subscribe(bg, &opcua.SubscriptionParameters{Interval: 10 * time.Millisecond}, notif)
		if err != nil {
			return nil
		}
		smu.Lock()
		subs = append(subs, s)
		smu.Unlock()
		atomic.AddInt64(&resumes, 1)
		return s
	}
	// 1-3 subscriptions, the publish loop has a request outstanding at the server
	nsub := 1 + r.Intn(3)
	for i := 0; i < nsub; i++ {
		subscribe()
	}
	st.waitHeld(1, 2*time.Second)
	if cs.Stall {
		// two notifications nobody takes: the loop is now inside the delivery to the application
		st.release("notification")
		st.waitHeld(1, 300*time.Millisecond)
		st.release("notification")
		time.Sleep(5 * time.Millisecond)
	}
	resumesBefore := atomic.LoadInt64(&resumes)
	// application goroutines act while the request is outstanding; calls use the background context, as applications do
	type call struct {
		what string
		done chan struct{}
	}
	var calls []*call
	start := func(what string, f func()) {
		k := &call{what: what, done: make(chan struct{})}
		calls = append(calls, k)
		cs.Steps = append(cs.Steps, what)
		go func() { defer close(k.done); f() }()
	}
	nact := 2 + r.Intn(7)
	for a := 0; a < nact; a++ {
		smu.Lock()
		var s *opcua.Subscription
		if len(subs) > 0 {
			s = subs[r.Intn(len(subs))]
		}
		smu.Unlock()
		switch op := r.Intn(8); {
		case op < 2 && s != nil:
			start(fmt.Sprintf("Cancel(%d)", s.SubscriptionID), func() { s.Cancel(bg) })
		case op < 5 && s != nil:
			start(fmt.Sprintf("ForgetSubscription(%d)", s.SubscriptionID), func() { cl.ForgetSubscription(bg, s.SubscriptionID) })
		case op < 6:
			start("ForgetSubscription(unknown)", func() { cl.ForgetSubscription(bg, 99999) })
		default:
			start("Subscribe", func() { subscribe() })
		}
		if r.Intn(3) == 0 {
			time.Sleep(time.Duration(r.Intn(2000)) * time.Microsecond)
		}
	}
	time.Sleep(5 * time.Millisecond)
	// now the outstanding publish request gets its outcome
	resumedDuringHold := st.createdSinceHeld() && atomic.LoadInt64(&resumes) > resumesBefore
	n := st.release(cs.Outcome)
	cs.Steps = append(cs.Steps, fmt.Sprintf("%d outstanding publish request(s) answered with %s", n, cs.Outcome))
	c.Journal(cs.Index, cs)
	if cs.Outcome == "connection-lost" {
		if cs.Busy {
			// two messages per subscription were on their way when the connection broke: the reconnect fetches them
			// again and hands them to the application
			st.mu.Lock()
			for id := range st.subs {
				st.lost[id] = 2
			}
			st.mu.Unlock()
		}
		srv.DropConns(false)
	}
	// a second wave of calls runs concurrently with whatever the outcome sets off (reconnect, shutdown)
	for a, n2 := 0, r.Intn(4); a < n2; a++ {
		smu.Lock()
		var s *opcua.Subscription
		if len(subs) > 0 {
			s = subs[r.Intn(len(subs))]
		}
		smu.Unlock()
		switch op := r.Intn(3); {
		case op == 0 && s != nil:
			start(fmt.Sprintf("Cancel(%d)", s.SubscriptionID), func() { s.Cancel(bg) })
		case op == 1 && s != nil:
			start(fmt.Sprintf("ForgetSubscription(%d)", s.SubscriptionID), func() { cl.ForgetSubscription(bg, s.SubscriptionID) })
		default:
			start("Subscribe", func() { subscribe() })
		}
		time.Sleep(time.Duration(r.Intn(3000)) * time.Microsecond)
	}
	// every call must return: counted in heartbeats (the request timeout is 400 ms, nothing else is pending)
	for _, k := range calls {
		if !fw.WaitBeats(k.done, 6000) {
			cs.Detail = fmt.Sprintf("%s has not returned after 6000 heartbeats\n%s", k.what, blockedDumpN(20000))
			c.Violation("c27:api-call-blocked:"+fw.TopRepoFrame(blockedDumpOf("opcua.(*Client)")), fmt.Sprintf("schedule %v: %s is blocked for good", cs.Steps, k.what), cs)
			return
		}
	}
	c.Eval(int64(len(calls)))
	if cs.Stall {
		c.Class("calls-return-while-the-application-does-not-read", 1)
		x, cancel := context.WithTimeout(bg, 2*time.Second)
		cdone := make(chan struct{})
		go func() { cl.Close(x); close(cdone) }()
		ok := fw.WaitBeats(cdone, 6000)
		cancel()
		closed = true
		if !ok {
			cs.Detail = "Close has not returned after 6000 heartbeats\n" + blockedDumpN(20000)
			c.Violation("c27:api-call-blocked:close", fmt.Sprintf("schedule %v (application not reading): Close is blocked for good", cs.Steps), cs)
		}
		return
	}
	// the client settles: Connected again (auto-reconnect, the server is reachable all the time) or Closed
	settled := make(chan struct{})
	go func() {
		defer close(settled)
		stable := 0
		for stable < 25 {
			if st := cl.State(); st == opcua.Connected || st == opcua.Closed {
				stable++
			} else {
				stable = 0
			}
			time.Sleep(2 * time.Millisecond)
		}
	}()
	if !fw.WaitBeats(settled, 20000) {
		cs.Detail = fmt.Sprintf("state %v after 20000 heartbeats although the server accepts connections\n%s", cl.State(), blockedDumpN(20000))
		c.Violation("c27:reconnect-makes-no-progress:"+cl.State().String(), fmt.Sprintf("schedule %v: the client neither reconnects nor closes", cs.Steps), cs)
		return
	}
	c.Class("settled:"+cl.State().String(), 1)
	if cs.Busy {
		close(stopBusy)
		if !fw.WaitBeats(busyDone, 6000) {
			cs.Detail = "the application's SubscriptionIDs call has not returned after 6000 heartbeats\n" + blockedDumpN(20000)
			c.Violation("c27:api-call-blocked:"+fw.TopRepoFrame(blockedDumpOf("opcua.(*Client)")), fmt.Sprintf("schedule %v (application busy between reads): SubscriptionIDs is blocked for good", cs.Steps), cs)
			return
		}
		c.Class("busy-application:api-calls-between-reads", atomic.LoadInt64(&busyCalls))
	}
	// a BadNoSubscription answer pauses the loop rightly unless a subscription was created while the request was
	// outstanding: then the answer belongs to the past
	if cl.State() == opcua.Connected && (cs.Outcome != "no-subscription" || resumedDuringHold) {
		// subscriptions both sides still know: the loop keeps a publish request at the server
		live := 0
		st.mu.Lock()
		for _, id := range cl.SubscriptionIDs() {
			if st.subs[id] {
				live++
			}
		}
		st.mu.Unlock()
		if live > 0 {
			seen := make(chan struct{})
			stop := make(chan struct{})
			go func() {
				for {
					st.mu.Lock()
					k := len(st.held)
					st.mu.Unlock()
					if k > 0 {
						close(seen)
						return
					}
					select {
					case <-stop:
						return
					case <-time.After(2 * time.Millisecond):
					}
				}
			}()
			ok := fw.WaitBeats(seen, 8000)
			close(stop)
			if !ok {
				cs.Detail = fmt.Sprintf("%d subscription(s) known to client and server, state Connected, but no PublishRequest reached the server within 8000 heartbeats (publish requests seen: %d)\n%s", live, atomic.LoadInt64(&st.pubSeen), blockedDumpN(20000))
				c.Violation("c27:publish-loop-idle-with-active-subscriptions", fmt.Sprintf("schedule %v (auto-reconnect %v): the publish loop is not running", cs.Steps, cs.Auto), cs)
				return
			}
			c.Class("publish-loop-alive-with-active-subscriptions", 1)
		}
	}
	if cl.State() == opcua.Connected {
		// progress: a fresh subscription gets a notification the server sends
		for {
			select {
			case <-notif:
				continue
			default:
			}
			break
		}
		sdone := make(chan *opcua.Subscription, 1)
		go func() { sdone <- subscribe() }()
		var fresh *opcua.Subscription
		select {
		case fresh = <-sdone:
		case <-func() chan struct{} {
			ch := make(chan struct{})
			go func() { fw.WaitBeats(nil, 6000); close(ch) }()
			return ch
		}():
			cs.Detail = "Subscribe after the schedule has not returned after 6000 heartbeats\n" + blockedDumpN(20000)
			c.Violation("c27:api-call-blocked:"+fw.TopRepoFrame(blockedDumpOf("opcua.(*Client)")), fmt.Sprintf("schedule %v: a later Subscribe is blocked for good", cs.Steps), cs)
			return
		}
		if fresh != nil {
			got := false
			for b0 := fw.Heartbeats(); fw.Heartbeats()-b0 < 8000 && !got; {
				if st.waitHeld(1, 20*time.Millisecond) {
					st.release("notification")
				}
				select {
				case d := <-notif:
					if d != nil && d.Error == nil {
						got = true
					}
				case <-time.After(20 * time.Millisecond):
				}
			}
			if !got {
				cs.Detail = fmt.Sprintf("a subscription created after the schedule received no notification although the server answers publish requests (publish requests seen: %d)\n%s", atomic.LoadInt64(&st.pubSeen), blockedDumpN(20000))
				c.Violation("c27:publish-loop-makes-no-progress", fmt.Sprintf("schedule %v: the publish loop stopped for good", cs.Steps), cs)
				return
			}
			c.Class("progress-after-schedule", 1)
		}
	}
	x, cancel := context.WithTimeout(bg, 2*time.Second)
	cdone := make(chan struct{})
	go func() { cl.Close(x); close(cdone) }()
	if !fw.WaitBeats(cdone, 6000) {
		cancel()
		cs.Detail = "Close has not returned after 6000 heartbeats\n" + blockedDumpN(20000)
		c.Violation("c27:api-call-blocked:close", fmt.Sprintf("schedule %v: Close is blocked for good", cs.Steps), cs)
		return
	}
	cancel()
	closed = true
	c.Class("outcome:"+cs.Outcome, 1)
}

// blockedDumpOf returns the stack of the first goroutine whose dump contains the marker and which waits on a lock or channel.
func blockedDumpOf(marker string) string {
	d := blockedDumpN(20000)
	for _, g := range splitGoroutines(d) {
		if containsAll(g, marker) && (containsAll(g, "[chan send") || containsAll(g, "[sync.") || containsAll(g, "[semacquire") || containsAll(g, "[select")) {
			return g
		}
	}
	return d
}

func splitGoroutines(d string) []string {
	var out []string
	cur := ""
	for _, line := range splitLines(d) {
		if len(line) > 10 && line[:10] == "goroutine " {
			if cur != "" {
				out = append(out, cur)
			}
			cur = ""
		}
		cur += line + "\n"
	}
	if cur != "" {
		out = append(out, cur)
	}
	return out
}

func splitLines(s string) []string {
	var out []string
	st := 0
	for i := 0; i < len(s); i++ {
		if s[i] == '\n' {
			out = append(out, s[st:i])
			st = i + 1
		}
	}
	return append(out, s[st:])
}

func containsAll(s string, subs ...string) bool {
	for _, x := range subs {
		found := false
		for i := 0; i+len(x) <= len(s); i++ {
			if s[i:i+len(x)] == x {
				found = true
				break
			}
		}
		if !found {
			return false
		}
	}
	return true
}

var c27Outcomes = []string{"notification", "keepalive", "no-subscription", "too-many", "timeout-fault", "never", "connection-lost"}

func c27Run(c *fw.Ctx) error {
	n := int64(c.Pick(400, 8000))
	for i := int64(0); i < n; i++ {
		if int(i%int64(c.NBatch)) != c.Batch || i < c.Resume {
			continue
		}
		r := c.Rng("c27", i)
		cs := c27Case{Index: i, Seed: r.Int63(), Outcome: c27Outcomes[int(i/int64(c.NBatch))%len(c27Outcomes)]}
		cs.Auto = r.Intn(2) == 0
		if i%9 == 4 {
			cs.Stall, cs.Outcome = true, "notification"
		}
		if i%9 == 7 && os.Getenv("C27_NOBUSY") == "" {
			cs.Busy, cs.Auto, cs.Outcome = true, true, "connection-lost"
		}
		c.Journal(i, cs)
		c27One(c, cs)
		c.Nontrivial(fmt.Sprintf("%d/%s/%v", cs.Seed, cs.Outcome, cs.Auto))
		if i%17 == 0 {
			c.Sample(cs)
		}
		c.Done(i)
	}
	return nil
}

func init() {
	fw.Register("C27", fw.Spec{
		Plan: func(tier string) fw.Plan {
			p := fw.Plan{Batches: 8, TimeoutS: 1200, MinNontrivial: 350, Level: "exploration",
				Rule:        "the real client with 1-3 subscriptions against the scripted server, which holds the outstanding PublishRequest; 2-8 application goroutines issue Subscribe, Cancel, ForgetSubscription (also repeatedly for the same id and for unknown ids) with background contexts while it is outstanding, hook points cl.forget.beforePause / cl.publish.beforeLock delay half of the passages by up to 3 ms; then the request gets its outcome: notification, keep-alive, BadNoSubscription, BadTooManyPublishRequests, BadTimeout fault, no answer (request timeout 400 ms), connection lost; oracle: every call returns within 6000 heartbeats (goroutine dump attached otherwise), afterwards a fresh Subscribe returns and that subscription receives a notification the server sends (bounded: 8000 heartbeats of publish rounds), Close returns; distinct = (schedule seed, outcome)",
				Assumptions: []string{"heartbeat clock; the scripted server answers queued publish requests with BadNoSubscription when the last subscription is deleted, as a conforming server does"}}
			if tier == "thorough" {
				p.Batches, p.TimeoutS, p.MinNontrivial = 16, 3400, 6000
			}
			return p
		},
		Run: c27Run,
		Replay: func(c *fw.Ctx, raw json.RawMessage) error {
			var cs c27Case
			if err := json.Unmarshal(raw, &cs); err != nil {
				return err
			}
			cs.Steps, cs.Detail = nil, ""
			c27One(c, cs)
			return nil
		},
	})
}
