package props

import (
	"encoding/binary"
	"encoding/json"
	"fmt"

	"github.com/gopcua/opcua/ua"
	"github.com/gopcua/opcua/uapolicy"
	"github.com/gopcua/opcua/uasc"

	"verifharness/fw"
	"verifharness/refpeer"
)

// C38: a body of the maximum size always fits the chunk size; in SignAndEncrypt one more byte does not.

type c38Case struct {
	Policy    string `json:"policy"`
	Mode      uint32 `json:"mode"`
	ChunkSize int    `json:"chunk_size"`
	Detail    string `json:"detail,omitempty"`
}

// bodyOfSize returns a service whose message body (type id + service) encodes to exactly n bytes.
func bodyOfSize(n int) (*ua.WriteRequest, error) {
	mk := func(l int) *ua.WriteRequest {
		return &ua.WriteRequest{
			RequestHeader: &ua.RequestHeader{AuthenticationToken: ua.NewTwoByteNodeID(0), AdditionalHeader: ua.NewExtensionObject(nil)},
			NodesToWrite: []*ua.WriteValue{{NodeID: ua.NewTwoByteNodeID(1), AttributeID: ua.AttributeIDValue,
				Value: &ua.DataValue{EncodingMask: ua.DataValueValue, Value: ua.MustVariant(make([]byte, l))}}},
		}
	}
	b, err := ua.Encode(mk(0))
	if err != nil {
		return nil, err
	}
	base := len(b) + 4 // four-byte type id
	if n < base {
		return nil, fmt.Errorf("body of %d bytes is below the minimum %d", n, base)
	}
	return mk(n - base), nil
}

func c38Algo(uri string) (*uapolicy.EncryptionAlgorithm, int, error) {
	if uri == refpeer.URINone {
		a, err := uapolicy.Symmetric(uri, nil, nil)
		return a, 0, err
	}
	p := refpeer.PolicyByURI(uri)
	na, nb := make([]byte, p.NonceLen), make([]byte, p.NonceLen)
	for i := range na {
		na[i], nb[i] = byte(i), byte(255-i)
	}
	a, err := uapolicy.Symmetric(uri, na, nb)
	return a, p.SymSigLen, err
}

func c38Check(c *fw.Ctx, cs c38Case, extraBodies []int) {
	algo, sig, err := c38Algo(cs.Policy)
	if err != nil {
		c.Violation("algo-error", err.Error(), cs)
		return
	}
	mode := ua.MessageSecurityMode(cs.Mode)
	cfg := &uasc.Config{SecurityPolicyURI: cs.Policy, SecurityMode: mode}
	var maxBody uint32
	if pn := fw.Catch(func() {
		maxBody = uasc.VerifNewInstance(cfg, algo, 7, 9, 100).SetMaximumBodySize(cs.ChunkSize)
	}); pn != nil {
		c.Violation("setmax-"+pn.Key(), "SetMaximumBodySize panicked: "+pn.Msg, cs)
		return
	}
	c.Eval(1)
	c.Class(fmt.Sprintf("mode:%d", cs.Mode), 1)
	c.Class(fmt.Sprintf("chunksize_mod16:%d", cs.ChunkSize%16), 1)
	c.Nontrivial(fmt.Sprintf("%s/%d/%d", cs.Policy, cs.Mode, cs.ChunkSize))
	m := int(maxBody)
	if m <= 0 || m > cs.ChunkSize {
		cs.Detail = fmt.Sprintf("maximum body size %d", m)
		c.Violation("max-body-out-of-range", cs.Detail, cs)
		return
	}
	expectSize := func(body int) int { // own arithmetic from the chunk layout
		switch mode {
		case ua.MessageSecurityModeSignAndEncrypt:
			return 16 + 16*((8+body+sig+1+15)/16)
		case ua.MessageSecurityModeSign:
			return 16 + 8 + body + sig
		}
		return 24 + body
	}
	secure := func(body int, maxBodyForSplit uint32) (first []byte, nchunks int, err error) {
		svc, err := bodyOfSize(body)
		if err != nil {
			return nil, 0, err
		}
		inst := uasc.VerifNewInstance(cfg, algo, 7, 9, 100)
		inst.SetMaximumBodySize(cs.ChunkSize)
		msg := inst.NewMessage(svc, ua.ServiceTypeID(svc), 42)
		var chunks [][]byte
		if maxBodyForSplit == 0 {
			chunks, err = inst.EncodeAndSecure(msg)
		} else { // force the whole body into one chunk
			var raw [][]byte
			raw, err = msg.EncodeChunks(maxBodyForSplit)
			if err == nil {
				var one []byte
				one, err = inst.SignAndEncrypt(msg, raw[0])
				chunks = [][]byte{one}
			}
		}
		if err != nil {
			return nil, 0, err
		}
		for i, ch := range chunks {
			if len(ch) > cs.ChunkSize && maxBodyForSplit == 0 {
				return ch, len(chunks), fmt.Errorf("chunk %d of %d has %d bytes > chunk size %d", i, len(chunks), len(ch), cs.ChunkSize)
			}
			if int(binary.LittleEndian.Uint32(ch[4:])) != len(ch) {
				return ch, len(chunks), fmt.Errorf("chunk %d: MessageSize field %d != length %d", i, binary.LittleEndian.Uint32(ch[4:]), len(ch))
			}
			if mode == ua.MessageSecurityModeSignAndEncrypt && (len(ch)-16)%16 != 0 {
				return ch, len(chunks), fmt.Errorf("chunk %d: encrypted region of %d bytes is not a whole number of cipher blocks", i, len(ch)-16)
			}
		}
		return chunks[0], len(chunks), nil
	}

	// a body of exactly the maximum: first chunk carries m body bytes
	var first []byte
	var e error
	if pn := fw.Catch(func() { first, _, e = secure(m, 0) }); pn != nil {
		c.Violation("secure-"+pn.Key(), "EncodeChunks/signAndEncrypt panicked: "+pn.Msg, cs)
		return
	}
	if e != nil {
		cs.Detail = fmt.Sprintf("max body %d: %v", m, e)
		c.Violation(fmt.Sprintf("max-body-does-not-fit:mode=%d", cs.Mode), cs.Detail, cs)
		return
	}
	if len(first) != expectSize(m) {
		cs.Detail = fmt.Sprintf("max body %d gives a chunk of %d bytes, layout arithmetic says %d", m, len(first), expectSize(m))
		c.Violation(fmt.Sprintf("chunk-size-differs-from-layout:mode=%d", cs.Mode), cs.Detail, cs)
	}
	c.Max("max_chunk_fill_ratio", float64(len(first))/float64(cs.ChunkSize), cs)
	// SignAndEncrypt: one more byte in the same chunk must not fit
	if mode == ua.MessageSecurityModeSignAndEncrypt {
		var over []byte
		if pn := fw.Catch(func() { over, _, e = secure(m+1, uint32(m+1)) }); pn != nil {
			c.Violation("secure-"+pn.Key(), "signAndEncrypt panicked: "+pn.Msg, cs)
			return
		}
		if e == nil && len(over) <= cs.ChunkSize {
			cs.Detail = fmt.Sprintf("max body %d but a body of %d bytes still gives a chunk of %d <= %d", m, m+1, len(over), cs.ChunkSize)
			c.Violation("max-body-not-maximal", cs.Detail, cs)
		}
	}
	// bodies just beyond a multiple of the maximum (sampled): the channel splits them, and no chunk of the split may carry
	// more than the maximum, i.e. exceed the chunk size
	if len(extraBodies) > 0 && cs.ChunkSize <= 1<<17 {
		for _, b := range []int{m + 1, 2*m + 1, 3*m + 1} {
			var n int
			if pn := fw.Catch(func() { _, n, e = secure(b, 0) }); pn != nil {
				c.Violation("secure-"+pn.Key(), "EncodeChunks/signAndEncrypt panicked: "+pn.Msg, cs)
				return
			}
			c.Eval(1)
			if e != nil {
				cs.Detail = fmt.Sprintf("body %d (maximum %d, %d chunks): %v", b, m, n, e)
				c.Violation(fmt.Sprintf("split-chunk-does-not-fit:mode=%d", cs.Mode), cs.Detail, cs)
				return
			}
		}
	}
	// smaller bodies fit as well (sampled), in one chunk
	for _, b := range extraBodies {
		if b >= m || b < 64 {
			continue
		}
		var ch []byte
		var n int
		if pn := fw.Catch(func() { ch, n, e = secure(b, 0) }); pn != nil {
			c.Violation("secure-"+pn.Key(), "signAndEncrypt panicked: "+pn.Msg, cs)
			return
		}
		c.Eval(1)
		if e != nil || n != 1 || len(ch) != expectSize(b) {
			cs.Detail = fmt.Sprintf("body %d: chunks=%d len=%d expected=%d err=%v", b, n, len(ch), expectSize(b), e)
			c.Violation(fmt.Sprintf("smaller-body-wrong:mode=%d", cs.Mode), cs.Detail, cs)
		}
	}
}

func c38Run(c *fw.Ctx) error {
	type pm struct {
		uri  string
		mode uint32
	}
	var pms []pm
	pms = append(pms, pm{refpeer.URINone, 1})
	for _, p := range refpeer.Policies {
		pms = append(pms, pm{p.URI, 2}, pm{p.URI, 3})
	}
	var sizes []int
	dense := c.Pick(4096, 65536)
	for s := 8192; s < 8192+dense; s++ {
		sizes = append(sizes, s)
	}
	r := c.Rng("sizes", 0)
	for s := 8192 + dense; s < 1<<24; s = s*17/16 + 1 {
		sizes = append(sizes, s, s+r.Intn(16))
	}
	for k := 0; k < c.Pick(200, 5000); k++ {
		sizes = append(sizes, 8192+r.Intn(1<<20))
	}
	sizes = append(sizes, 65535, 65536, 1<<20, 1<<24)
	idx := int64(0)
	for _, s := range sizes {
		for _, x := range pms {
			i := idx
			idx++
			if int(i%int64(c.NBatch)) != c.Batch || i < c.Resume {
				continue
			}
			if s > 1<<21 && int(i)%7 != 0 { // very large chunks: a sample
				continue
			}
			cs := c38Case{Policy: x.uri, Mode: x.mode, ChunkSize: s}
			c.Journal(i, cs)
			var extra []int
			if i%16 == 0 {
				rr := c.Rng("bodies", i)
				extra = []int{64, 100 + rr.Intn(s/2), s / 2, s - 200 - rr.Intn(100)}
			}
			c38Check(c, cs, extra)
			if i%20011 == 0 {
				c.Sample(cs)
			}
			c.Done(i)
		}
	}
	c.Extra("dense_range", fmt.Sprintf("[8192, %d) every chunk size", 8192+dense))
	c38LiveRun(c, idx)
	return nil
}

func init() {
	fw.Register("C38", fw.Spec{
		Plan: func(tier string) fw.Plan {
			p := fw.Plan{Batches: 8, TimeoutS: 600, MinNontrivial: 20000, Level: "exploration",
				Rule:        "5 symmetric policies x {Sign, SignAndEncrypt} + None/None x chunk sizes: every value in [8192, 8192+4096) (quick) / [8192, 8192+65536) (thorough), then log-spaced and random sizes up to 2^24; per case the real SetMaximumBodySize, EncodeChunks and signAndEncrypt are run on a body of exactly the maximum (must fit, MessageSize = length, whole cipher blocks, size equal to the layout arithmetic), on maximum+1 forced into one chunk (must not fit in SignAndEncrypt) on sampled smaller bodies and on bodies of k x maximum + 1 (every chunk of the split must fit); distinct = distinct (policy, mode, chunk size); live part: 96 (quick) / 3000 (thorough) real client channels and real server channels (opened, a third of them renewed first) with different buffers in the two directions send a message of three chunks to the independent peer, which reports length and body bytes of every chunk: each chunk fits the negotiated size, and in SignAndEncrypt one body byte more than an intermediate chunk carries would not fit",
				Assumptions: []string{"the in-process wrapper EncodeAndSecure repeats the loop of writeMessageChunks without the socket write (hook file uasc/verif_export.go)"}}
			if tier == "thorough" {
				p.Batches, p.TimeoutS, p.MinNontrivial = 16, 2400, 400000
			}
			return p
		},
		Run: c38Run,
		Replay: func(c *fw.Ctx, raw json.RawMessage) error {
			var live c38LiveCase
			if json.Unmarshal(raw, &live) == nil && live.Side != "" {
				live.Detail, live.Chunks = "", ""
				if live.Side == "client-channel" {
					c38LiveClient(c, live)
				} else {
					c38LiveServer(c, live)
				}
				return nil
			}
			var cs c38Case
			if err := json.Unmarshal(raw, &cs); err != nil {
				return err
			}
			cs.Detail = ""
			c38Check(c, cs, []int{64, cs.ChunkSize / 2})
			return nil
		},
	})
}
