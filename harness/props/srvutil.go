package props

import (
	"context"
	"encoding/json"
	"fmt"
	"net"
	"os"
	"runtime"
	"time"

	"github.com/gopcua/opcua/id"
	"github.com/gopcua/opcua/server"
	"github.com/gopcua/opcua/server/attrs"
	"github.com/gopcua/opcua/ua"

	"verifharness/keys"
	"verifharness/sut"
)

// Helpers to run the real gopcua server, in-process or as a child process.

type secPair struct {
	Policy string `json:"policy"` // short name or URI
	Mode   int    `json:"mode"`
}

type srvCfg struct {
	Sec      []secPair `json:"sec"`
	KeyBits  int       `json:"key_bits"`
	KeyName  string    `json:"key_name"`
	Vars     int       `json:"vars"`      // number of plain read/write Int64 variables v0..v(n-1) (string ids)
	UserName bool      `json:"user_name"` // also enable username tokens
	Port     int       `json:"port"`
}

func freePort() int {
	l, err := net.Listen("tcp", "127.0.0.1:0")
	if err != nil {
		return 0
	}
	defer l.Close()
	return l.Addr().(*net.TCPAddr).Port
}

type realServer struct {
	Srv      *server.Server
	NS       *server.NodeNameSpace
	Endpoint string
	Vars     []*server.Node
}

func rwVar(ns *server.NodeNameSpace, name string, v interface{}) *server.Node {
	n := server.NewNode(
		ua.NewStringNodeID(ns.ID(), name),
		map[ua.AttributeID]*ua.DataValue{
			ua.AttributeIDAccessLevel:     server.DataValueFromValue(byte(ua.AccessLevelTypeCurrentRead | ua.AccessLevelTypeCurrentWrite)),
			ua.AttributeIDUserAccessLevel: server.DataValueFromValue(byte(ua.AccessLevelTypeCurrentRead | ua.AccessLevelTypeCurrentWrite)),
			ua.AttributeIDBrowseName:      server.DataValueFromValue(attrs.BrowseName(name)),
			ua.AttributeIDNodeClass:       server.DataValueFromValue(uint32(ua.NodeClassVariable)),
		},
		nil,
		func() *ua.DataValue { return server.DataValueFromValue(v) },
	)
	ns.AddNode(n)
	ns.Objects().AddRef(n, id.HasComponent, true)
	return n
}

func startRealServer(cfg srvCfg) (*realServer, error) {
	if cfg.Port == 0 {
		cfg.Port = freePort()
	}
	if cfg.KeyBits == 0 {
		cfg.KeyBits = 2048
	}
	if cfg.KeyName == "" {
		cfg.KeyName = "b"
	}
	kp := keys.Get(cfg.KeyName, cfg.KeyBits)
	opts := []server.Option{server.EndPoint("localhost", cfg.Port), server.PrivateKey(kp.Key), server.Certificate(kp.Cert),
		server.EnableAuthMode(ua.UserTokenTypeAnonymous)}
	if cfg.UserName {
		opts = append(opts, server.EnableAuthMode(ua.UserTokenTypeUserName))
	}
	if len(cfg.Sec) == 0 {
		cfg.Sec = []secPair{{"None", 1}}
	}
	for _, s := range cfg.Sec {
		opts = append(opts, server.EnableSecurity(s.Policy, ua.MessageSecurityMode(s.Mode)))
	}
	s := server.New(opts...)
	if err := s.Start(context.Background()); err != nil {
		return nil, err
	}
	ns := server.NewNodeNameSpace(s, "verif")
	root, _ := s.Namespace(0)
	root.Objects().AddRef(ns.Objects(), id.HasComponent, true)
	rs := &realServer{Srv: s, NS: ns, Endpoint: fmt.Sprintf("opc.tcp://localhost:%d", cfg.Port)}
	for i := 0; i < cfg.Vars; i++ {
		rs.Vars = append(rs.Vars, rwVar(ns, fmt.Sprintf("v%d", i), int64(0)))
	}
	return rs, nil
}

// realServerRole runs the server until the process is killed.
func realServerRole(arg string) int {
	var cfg srvCfg
	if err := json.Unmarshal([]byte(arg), &cfg); err != nil {
		fmt.Fprintln(os.Stderr, err)
		return 3
	}
	rs, err := startRealServer(cfg)
	if err != nil {
		fmt.Fprintln(os.Stderr, "start:", err)
		return 3
	}
	fmt.Printf("READY %s %d\n", rs.Endpoint, rs.NS.ID())
	for {
		time.Sleep(time.Hour)
	}
}

// startServerChild starts the real server in a child process and waits until it listens.
func startServerChild(cfg srvCfg) (*sut.Child, string, uint16, error) {
	if cfg.Port == 0 {
		cfg.Port = freePort()
	}
	arg, _ := json.Marshal(cfg)
	ch, err := sut.StartChild("real-server", string(arg))
	if err != nil {
		return nil, "", 0, err
	}
	line, ok := ch.WaitLine("READY ", 30*time.Second)
	if !ok {
		_, e := ch.Output()
		ch.Kill()
		return nil, "", 0, fmt.Errorf("server child did not become ready: %s", tailStr(e, 400))
	}
	var ep string
	var ns uint16
	fmt.Sscanf(line, "%s %d", &ep, &ns)
	return ch, ep, ns, nil
}

func tailStr(s string, n int) string {
	if len(s) > n {
		return s[len(s)-n:]
	}
	return s
}

func init() {
	sut.Register("real-server", realServerRole)
}

func runtimeStackImpl(buf []byte) int { return runtime.Stack(buf, false) }
