package props

import (
	"context"
	"encoding/json"
	"fmt"
	"math/rand"
	"strings"
	"sync"
	"sync/atomic"
	"time"

	"github.com/gopcua/opcua"
	"github.com/gopcua/opcua/monitor"
	"github.com/gopcua/opcua/ua"

	"verifharness/fw"
)

// C28: node monitor notifications name the right node and converge to the latest value. Every value written carries
// the index of its node (idx<<40 | writer<<32 | counter), so a delivered message identifies the node it belongs to
// without trusting the handle table under test; after the writers stop, the last value delivered per monitored node
// is compared with a Read.

type c28Case struct {
	Index   int64  `json:"index"`
	Seed    int64  `json:"seed"`
	Nodes   int    `json:"nodes"`
	Subs    int    `json:"subscriptions"`
	Writers int    `json:"writers"`
	Writes  int    `json:"writes_per_writer"`
	Churn   bool   `json:"add_remove_during_writes"`
	Detail  string `json:"detail,omitempty"`
}

type c28Sub struct {
	sub   *monitor.Subscription
	ch    chan *monitor.DataChangeMessage
	mu    sync.Mutex
	last  map[int]int64 // node index -> last value delivered
	count int64
	late  int64
	bad   []string
	set   map[int]bool // nodes currently monitored (owned by the churn goroutine, read after it ended)
	done  chan struct{}
}

func c28Idx(v int64) int { return int(v >> 40) }

var (
	c28Mu  sync.Mutex
	c28Srv *realServer
)

func c28One(c *fw.Ctx, cs c28Case) {
	r := rand.New(rand.NewSource(cs.Seed))
	// one server per worker process (an instance holds the whole standard address space); every history gets
	// variables of its own
	c28Mu.Lock()
	if c28Srv == nil {
		s, err := startRealServer(srvCfg{})
		if err != nil {
			c28Mu.Unlock()
			c.Inconclusive("server start: " + err.Error())
			return
		}
		c28Srv = s
	}
	rs := &realServer{Srv: c28Srv.Srv, NS: c28Srv.NS, Endpoint: c28Srv.Endpoint}
	c28Mu.Unlock()
	for i := 0; i < cs.Nodes; i++ {
		rs.Vars = append(rs.Vars, rwVar(rs.NS, fmt.Sprintf("h%d-%d-v%d", cs.Index, cs.Seed&0xffff, i), int64(0)))
	}
	bg := context.Background()
	dial := func() (*opcua.Client, error) {
		cl, err := opcua.NewClient(rs.Endpoint, opcua.SecurityMode(ua.MessageSecurityModeNone), opcua.AutoReconnect(false), opcua.RequestTimeout(5*time.Second))
		if err != nil {
			return nil, err
		}
		x, cancel := context.WithTimeout(bg, 10*time.Second)
		defer cancel()
		return cl, cl.Connect(x)
	}
	closeCl := func(cl *opcua.Client) {
		x, cancel := context.WithTimeout(bg, 3*time.Second)
		cl.Close(x)
		cancel()
	}
	mcl, err := dial()
	if err != nil {
		c.Inconclusive("connect: " + classOf(err.Error()))
		return
	}
	defer closeCl(mcl)
	ids := make([]*ua.NodeID, cs.Nodes)
	idIdx := map[string]int{}
	for i, n := range rs.Vars {
		ids[i] = n.ID()
		idIdx[n.ID().String()] = i
	}
	write := func(cl *opcua.Client, i int, v int64) error {
		x, cancel := context.WithTimeout(bg, 5*time.Second)
		defer cancel()
		resp, err := cl.Write(x, &ua.WriteRequest{NodesToWrite: []*ua.WriteValue{{NodeID: ids[i], AttributeID: ua.AttributeIDValue, Value: &ua.DataValue{EncodingMask: ua.DataValueValue, Value: ua.MustVariant(v)}}}})
		if err != nil {
			return err
		}
		if len(resp.Results) != 1 || resp.Results[0] != ua.StatusOK {
			return fmt.Errorf("write status %v", resp.Results)
		}
		return nil
	}
	for i := range ids {
		if err := write(mcl, i, int64(i)<<40); err != nil {
			c.Inconclusive("initial write: " + classOf(err.Error()))
			return
		}
	}
	nm, _ := monitor.NewNodeMonitor(mcl)
	var asyncErrs int64
	nm.SetErrorHandler(func(_ *opcua.Client, _ *monitor.Subscription, err error) { atomic.AddInt64(&asyncErrs, 1) })
	var subs []*c28Sub
	churn := cs.Churn
	for s := 0; s < cs.Subs; s++ {
		cs2 := &c28Sub{ch: make(chan *monitor.DataChangeMessage, 1<<16), last: map[int]int64{}, set: map[int]bool{}, done: make(chan struct{})}
		var start []string
		for i := range ids {
			if !cs.Churn || r.Intn(2) == 0 {
				start = append(start, ids[i].String())
				cs2.set[i] = true
			}
		}
		// the context given to ChanSubscribe also bounds the life of the delivery goroutine
		sctx, scancel := context.WithCancel(bg)
		defer scancel()
		cs2.sub, err = nm.ChanSubscribe(sctx, &opcua.SubscriptionParameters{Interval: time.Duration(10+r.Intn(20)) * time.Millisecond}, cs2.ch, start...)
		if err != nil {
			c.Inconclusive("ChanSubscribe: " + classOf(err.Error()))
			return
		}
		subs = append(subs, cs2)
		go func(s *c28Sub) { // the application: records what it is told
			defer close(s.done)
			for m := range s.ch {
				s.mu.Lock()
				s.count++
				switch {
				case m.Error != nil:
					// a late notification for a node that has just been removed is reported as "handle not found";
					// that is no attribution, so it only counts as wrong where nothing is ever removed
					if churn && strings.Contains(m.Error.Error(), "not found") {
						s.late++
					} else {
						s.bad = append(s.bad, "message with error: "+m.Error.Error())
					}
				case m.NodeID == nil || m.DataValue == nil || m.DataValue.Value == nil:
					s.bad = append(s.bad, "message without node id or value")
				default:
					v, ok := m.DataValue.Value.Value().(int64)
					want, known := idIdx[m.NodeID.String()]
					if !ok || !known {
						s.bad = append(s.bad, fmt.Sprintf("message for %v with value %v", m.NodeID, m.DataValue.Value.Value()))
					} else if c28Idx(v) != want {
						s.bad = append(s.bad, fmt.Sprintf("message names node %v (index %d) but carries value %#x which was written to node index %d", m.NodeID, want, v, c28Idx(v)))
					} else {
						s.last[want] = v
					}
				}
				s.mu.Unlock()
			}
		}(cs2)
	}
	// writers on their own connections, churn of monitored nodes meanwhile
	var wg sync.WaitGroup
	var werrs int64
	for w := 0; w < cs.Writers; w++ {
		wcl, err := dial()
		if err != nil {
			c.Inconclusive("writer connect: " + classOf(err.Error()))
			return
		}
		defer closeCl(wcl)
		wg.Add(1)
		go func(w int, wr *rand.Rand) {
			defer wg.Done()
			for k := 1; k <= cs.Writes; k++ {
				i := wr.Intn(len(ids))
				if err := write(wcl, i, int64(i)<<40|int64(w+1)<<32|int64(k)); err != nil {
					atomic.AddInt64(&werrs, 1)
				}
				if wr.Intn(8) == 0 {
					time.Sleep(time.Duration(wr.Intn(4000)) * time.Microsecond)
				}
			}
		}(w, rand.New(rand.NewSource(r.Int63())))
	}
	stopChurn := make(chan struct{})
	var cwg sync.WaitGroup
	var adds, removes int64
	if cs.Churn {
		for _, s := range subs {
			cwg.Add(1)
			go func(s *c28Sub, cr *rand.Rand) {
				defer cwg.Done()
				for {
					select {
					case <-stopChurn:
						return
					default:
					}
					i := cr.Intn(len(ids))
					x, cancel := context.WithTimeout(bg, 5*time.Second)
					if s.set[i] {
						if err := s.sub.RemoveNodeIDs(x, ids[i]); err == nil {
							delete(s.set, i)
							atomic.AddInt64(&removes, 1)
						}
					} else {
						if err := s.sub.AddNodeIDs(x, ids[i]); err == nil {
							s.set[i] = true
							atomic.AddInt64(&adds, 1)
						}
					}
					cancel()
					time.Sleep(time.Duration(cr.Intn(6000)) * time.Microsecond)
				}
			}(s, rand.New(rand.NewSource(r.Int63())))
		}
	}
	wdone := make(chan struct{})
	go func() { wg.Wait(); close(wdone) }()
	if !fw.WaitBeats(wdone, 60000) {
		c.Inconclusive("writers did not finish")
		return
	}
	close(stopChurn)
	cwg.Wait()
	if werrs > 0 {
		c.Inconclusive(fmt.Sprintf("%d writes failed", werrs))
		return
	}
	// epilogue: every node is written away from its value and straight back (A, B, A within one publishing interval):
	// the last delivered value has to follow
	time.Sleep(70 * time.Millisecond)
	for i, n := range rs.Vars {
		var a int64
		if dv := n.Value(); dv != nil && dv.Value != nil {
			a, _ = dv.Value.Value().(int64)
		}
		if write(mcl, i, int64(i)<<40|int64(0xff)<<32|int64(1+i)) != nil || write(mcl, i, a) != nil {
			c.Inconclusive("epilogue write failed")
			return
		}
	}
	// quiescence: for every node a subscription monitors, the last delivered value becomes the node's value
	current := make([]int64, len(ids))
	for i, n := range rs.Vars {
		if dv := n.Value(); dv != nil && dv.Value != nil {
			current[i], _ = dv.Value.Value().(int64)
		}
	}
	conv := func() (bool, string) {
		for si, s := range subs {
			s.mu.Lock()
			for i := range s.set {
				if s.last[i] != current[i] {
					msg := fmt.Sprintf("subscription %d, node %v: last delivered value %#x, value on the server %#x", si, ids[i], s.last[i], current[i])
					s.mu.Unlock()
					return false, msg
				}
			}
			s.mu.Unlock()
		}
		return true, ""
	}
	cdone := make(chan struct{})
	stop := make(chan struct{})
	go func() {
		for {
			if ok, _ := conv(); ok {
				close(cdone)
				return
			}
			select {
			case <-stop:
				return
			case <-time.After(5 * time.Millisecond):
			}
		}
	}()
	converged := fw.WaitBeats(cdone, 6000)
	close(stop)
	var total, dropped int64
	var bad []string
	for _, s := range subs {
		s.mu.Lock()
		total += s.count
		c.Class("late-notification-for-removed-node", s.late)
		bad = append(bad, s.bad...)
		s.mu.Unlock()
		dropped += int64(s.sub.Dropped())
	}
	c.Eval(total)
	c.Class("messages", total)
	c.Class("adds", adds)
	c.Class("removes", removes)
	c.Class("async-errors", atomic.LoadInt64(&asyncErrs))
	if len(bad) > 0 {
		cs.Detail = fmt.Sprintf("%d of %d messages: %v", len(bad), total, bad[:minInt(len(bad), 5)])
		c.Violation("c28:message-names-wrong-node", cs.Detail, cs)
		return
	}
	if dropped > 0 {
		c.Inconclusive("messages dropped by the monitor (slow consumer)")
		return
	}
	if !converged {
		_, msg := conv()
		cs.Detail = fmt.Sprintf("6000 heartbeats after the last write: %s (messages delivered: %d, async errors: %d)", msg, total, atomic.LoadInt64(&asyncErrs))
		c.Violation("c28:last-delivered-value-differs-from-node", cs.Detail, cs)
		return
	}
	c.Class("converged", 1)
	for _, s := range subs {
		x, cancel := context.WithTimeout(bg, 3*time.Second)
		s.sub.Unsubscribe(x)
		cancel()
	}
}

func minInt(a, b int) int {
	if a < b {
		return a
	}
	return b
}

func c28Run(c *fw.Ctx) error {
	n := int64(c.Pick(48, 3000))
	for i := int64(0); i < n; i++ {
		if int(i%int64(c.NBatch)) != c.Batch || i < c.Resume {
			continue
		}
		r := c.Rng("c28", i)
		cs := c28Case{Index: i, Seed: r.Int63(), Nodes: 2 + r.Intn(5), Subs: 1 + r.Intn(2), Writers: 1 + r.Intn(4), Writes: 100 + r.Intn(c.Pick(300, 1500)), Churn: i%2 == 1}
		c.Journal(i, cs)
		c28One(c, cs)
		c.Nontrivial(fmt.Sprintf("%d", cs.Seed))
		if i%7 == 0 {
			c.Sample(cs)
		}
		c.Done(i)
	}
	return nil
}

func init() {
	fw.Register("C28", fw.Spec{
		Plan: func(tier string) fw.Plan {
			p := fw.Plan{Batches: 8, TimeoutS: 1200, MinNontrivial: 40, Level: "exploration",
				Rule:        "the real server with 2-6 variables, the real client with a NodeMonitor and 1-2 channel subscriptions (10-30 ms), 1-4 writer clients on their own connections writing 100-400 (thorough: up to 1600) unique values each, every value carrying the index of its node; in half of the histories nodes are added to and removed from the subscriptions while the writers run; at the end every node is written to a new value and straight back to the previous one; oracle 1: every delivered message has no error and its value was written to the node it names; oracle 2: within 6000 heartbeats of the last write the last value delivered for every node a subscription still monitors equals the node's value on the server; histories with drops reported by the monitor (slow consumer) are inconclusive; distinct = histories",
				Assumptions: []string{"the application drains its channel (capacity 65536); heartbeat clock"}}
			if tier == "thorough" {
				p.Batches, p.TimeoutS, p.MinNontrivial = 16, 3400, 2500
			}
			return p
		},
		Run: c28Run,
		Replay: func(c *fw.Ctx, raw json.RawMessage) error {
			var cs c28Case
			if err := json.Unmarshal(raw, &cs); err != nil {
				return err
			}
			cs.Detail = ""
			c28One(c, cs)
			return nil
		},
	})
}
