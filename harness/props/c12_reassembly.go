package props

import (
	"bytes"
	"context"
	"encoding/json"
	"fmt"
	"io"
	"math/rand"
	"strings"
	"sync"
	"time"

	"github.com/gopcua/opcua/ua"
	"github.com/gopcua/opcua/uacp"
	"github.com/gopcua/opcua/uapolicy"
	"github.com/gopcua/opcua/uasc"

	"verifharness/fw"
	"verifharness/keys"
	"verifharness/refpeer"
)

// C12: chunk streams from any conforming peer are reassembled correctly. refpeer is the reference sender: it
// cuts messages into chunks of its choosing, interleaves the chunks of several requests, starts its sequence
// numbers anywhere (also across the wrap to small values incl. 0) and aborts partial messages. The receiver is a
// bare gopcua secure channel (server kind fed by a reference client, client kind fed by a reference server).

type c12Case struct {
	Index    int64  `json:"index"`
	Side     string `json:"receiver"` // "server-channel" or "client-channel"
	Mode     int    `json:"mode"`
	FirstSeq uint32 `json:"sequence_number_before_first_chunk"`
	Msgs     int    `json:"messages"`
	Seed     int64  `json:"seed"`
	// ManyAborts: a long history on one channel with a chunk limit of 8: rounds of an aborted 3-chunk message
	// followed by a complete multi-chunk message
	ManyAborts bool `json:"many_aborts,omitempty"`
	// LargeInterleaved: two messages of 40 kB each, interleaved chunk by chunk, on a channel that announced a
	// MaxMessageSize of 64 kB: each is within the limit, the bytes buffered for both together are not
	LargeInterleaved bool   `json:"large_interleaved,omitempty"`
	Detail           string `json:"detail,omitempty"`
	Order            string `json:"chunk_order,omitempty"`
}

type c12Msg struct {
	reqID   uint32
	body    []byte   // encoded service (type id + body)
	parts   [][]byte // chunk bodies
	abortAt int      // -1 = complete; k = after k parts an abort chunk is sent instead
	nonce   string
}

// bareServerChannel accepts one connection on a fresh listener and wraps it into a server-kind secure channel.
type bareServer struct {
	l  *uacp.Listener
	ep string
}

func newBareServer(ack *uacp.Acknowledge) (*bareServer, error) {
	port := freePort()
	ep := fmt.Sprintf("opc.tcp://127.0.0.1:%d", port)
	l, err := uacp.Listen(context.Background(), ep, ack)
	if err != nil {
		return nil, err
	}
	return &bareServer{l: l, ep: ep}, nil
}

func (b *bareServer) accept(cfg *uasc.Config, channelID, seq, tokenID uint32) (*uasc.SecureChannel, *uacp.Conn, error) {
	ctx, cancel := context.WithTimeout(context.Background(), 10*time.Second)
	defer cancel()
	conn, err := b.l.Accept(ctx)
	if err != nil {
		return nil, nil, err
	}
	sc, err := uasc.NewServerSecureChannel(b.ep, conn, cfg, make(chan error, 16), channelID, seq, tokenID)
	if err != nil {
		conn.Close()
		return nil, nil, err
	}
	return sc, conn, nil
}

func c12Split(r *rand.Rand, body []byte, nparts int) [][]byte {
	if nparts <= 1 || len(body) < nparts {
		return [][]byte{body}
	}
	var parts [][]byte
	rest := body
	for i := nparts; i > 1; i-- {
		// uneven cuts; an empty final chunk is allowed by the layout
		n := 1 + r.Intn(len(rest)/i*2)
		if n > len(rest) {
			n = len(rest)
		}
		parts = append(parts, rest[:n])
		rest = rest[n:]
	}
	return append(parts, rest)
}

// c12Plan builds the interleaved chunk order: a list of (message index, part index); part index == len(parts) means abort.
func c12Order(r *rand.Rand, msgs []*c12Msg) [][2]int {
	next := make([]int, len(msgs))
	var order [][2]int
	remaining := func(i int) bool {
		m := msgs[i]
		if m.abortAt >= 0 {
			return next[i] <= m.abortAt
		}
		return next[i] < len(m.parts)
	}
	for {
		var live []int
		for i := range msgs {
			if remaining(i) {
				live = append(live, i)
			}
		}
		if len(live) == 0 {
			return order
		}
		i := live[r.Intn(len(live))]
		if r.Intn(3) > 0 && len(order) > 0 && remaining(order[len(order)-1][0]) { // runs of the same message are more common than perfect shuffles
			i = order[len(order)-1][0]
		}
		m := msgs[i]
		if m.abortAt >= 0 && next[i] == m.abortAt {
			order = append(order, [2]int{i, len(m.parts)})
		} else {
			order = append(order, [2]int{i, next[i]})
		}
		next[i]++
	}
}

func c12Send(ch *refpeer.Channel, msgs []*c12Msg, order [][2]int) (string, error) {
	var desc []string
	for _, o := range order {
		m := msgs[o[0]]
		seq := ch.TakeSeq()
		var raw []byte
		var err error
		switch {
		case o[1] == len(m.parts):
			raw, err = ch.SealChunk(nil, "MSG", 'A', seq, m.reqID, refpeer.ErrBody(uint32(ua.StatusBadRequestCancelledByClient), "aborted by the reference sender"))
			desc = append(desc, fmt.Sprintf("%d:A@%d", m.reqID, seq))
		case o[1] == len(m.parts)-1:
			raw, err = ch.SealChunk(nil, "MSG", 'F', seq, m.reqID, m.parts[o[1]])
			desc = append(desc, fmt.Sprintf("%d:F@%d", m.reqID, seq))
		default:
			raw, err = ch.SealChunk(nil, "MSG", 'C', seq, m.reqID, m.parts[o[1]])
			desc = append(desc, fmt.Sprintf("%d:C@%d", m.reqID, seq))
		}
		if err != nil {
			return strings.Join(desc, " "), err
		}
		if err := ch.WriteRaw(raw); err != nil {
			return strings.Join(desc, " "), err
		}
	}
	return strings.Join(desc, " "), nil
}

func c12FirstSeq(r *rand.Rand) uint32 {
	switch r.Intn(6) {
	case 0:
		return 0xffffffff - 1024 // the OPN itself wraps to 0
	case 1:
		return 0xffffffff - 1024 - 1 - uint32(r.Intn(3)) // the wrap happens within the first chunks
	case 2:
		return 0xffffffff - 1024 - 1 - uint32(r.Intn(30))
	case 3:
		return uint32(r.Intn(4))
	case 4:
		return r.Uint32() % (0xffffffff - 5000)
	}
	return uint32(r.Intn(2000))
}

func c12ServerSide(c *fw.Ctx, cs c12Case) {
	r := rand.New(rand.NewSource(cs.Seed))
	var ack *uacp.Acknowledge
	if cs.ManyAborts {
		// a small chunk limit, so that what aborted messages leave behind (if anything) adds up quickly
		ack = &uacp.Acknowledge{ReceiveBufSize: 65535, SendBufSize: 65535, MaxChunkCount: 8, MaxMessageSize: 0}
	}
	if cs.LargeInterleaved {
		ack = &uacp.Acknowledge{ReceiveBufSize: 65535, SendBufSize: 65535, MaxChunkCount: 0, MaxMessageSize: 65536}
	}
	bs, err := newBareServer(ack)
	if err != nil {
		c.Inconclusive("listen: " + err.Error())
		return
	}
	defer bs.l.Close()
	sk, ck := keys.Get("b", 2048), keys.Get("a", 2048)
	cfg := &uasc.Config{SecurityPolicyURI: ua.SecurityPolicyURINone, SecurityMode: ua.MessageSecurityModeNone, Lifetime: 3600000, Certificate: sk.Cert, LocalKey: sk.Key}
	type accRes struct {
		sc   *uasc.SecureChannel
		conn *uacp.Conn
		err  error
	}
	acc := make(chan accRes, 1)
	go func() {
		sc, conn, err := bs.accept(cfg, 77, uint32(1+r.Intn(1000)), 5)
		acc <- accRes{sc, conn, err}
	}()
	sec := refpeer.Security{Mode: refpeer.ModeNone}
	if cs.Mode != refpeer.ModeNone {
		p := refpeer.PolicyByURI(refpeer.URIBasic256Sha256)
		sec = refpeer.Security{Policy: p, Mode: cs.Mode, LocalKey: ck.Key, LocalCert: ck.Cert, RemoteCert: sk.Cert}
	}
	ch, _, err := refpeer.Dial(strings.TrimPrefix(bs.ep, "opc.tcp://"), refpeer.ClientOpts{Sec: sec, FirstSeq: cs.FirstSeq})
	a := <-acc
	if err != nil || a.err != nil {
		c.Inconclusive(fmt.Sprintf("set-up: %v / %v", err, a.err))
		return
	}
	defer ch.Close()
	defer a.conn.Close()

	type delivered struct {
		reqID uint32
		body  []byte
		err   error
	}
	var mu sync.Mutex
	var got []delivered
	rdone := make(chan struct{})
	ctx, cancel := context.WithCancel(context.Background())
	defer cancel()
	go func() {
		defer close(rdone)
		for {
			var msg *uasc.MessageBody
			if pn := fw.Catch(func() { msg = a.sc.Receive(ctx) }); pn != nil {
				mu.Lock()
				got = append(got, delivered{err: fmt.Errorf("PANIC %s: %s", pn.Frame, pn.Msg)})
				mu.Unlock()
				return
			}
			if msg.Err == io.EOF || ctx.Err() != nil {
				return
			}
			if msg.Err != nil {
				mu.Lock()
				got = append(got, delivered{reqID: msg.RequestID, err: msg.Err})
				mu.Unlock()
				if _, isStatus := msg.Err.(ua.StatusCode); !isStatus {
					return // transport-level failure ends the stream
				}
				continue
			}
			req := msg.Request()
			if req == nil {
				continue // the OPN was handled inside Receive
			}
			b, _ := refpeer.EncodeBody(req)
			mu.Lock()
			got = append(got, delivered{reqID: msg.RequestID, body: b})
			mu.Unlock()
		}
	}()
	ch.Conn.SetReadDeadline(time.Now().Add(10 * time.Second))
	if _, err := ch.Open(false, 3600000); err != nil {
		c.Inconclusive("reference client could not open the channel: " + classOf(err.Error()))
		return
	}
	ch.Conn.SetReadDeadline(time.Time{})

	msgs := c12Messages(r, cs.Msgs, false)
	order := c12Order(r, msgs)
	if cs.ManyAborts {
		msgs, order = nil, nil
		for round := 0; round < 25; round++ {
			ab := &c12Msg{reqID: uint32(100 + 2*round), abortAt: 3, nonce: fmt.Sprintf("a%d", round)}
			ab.body = c12Body(r, ab.nonce, 2000)
			ab.parts = c12Split(r, ab.body, 4)
			ok := &c12Msg{reqID: uint32(101 + 2*round), abortAt: -1, nonce: fmt.Sprintf("k%d", round)}
			ok.body = c12Body(r, ok.nonce, 3000)
			ok.parts = c12Split(r, ok.body, 2+r.Intn(4))
			bi, oi := len(msgs), len(msgs)+1
			msgs = append(msgs, ab, ok)
			for k := 0; k < 3; k++ {
				order = append(order, [2]int{bi, k})
			}
			order = append(order, [2]int{bi, len(ab.parts)}) // the abort chunk
			for k := range ok.parts {
				order = append(order, [2]int{oi, k})
			}
		}
	}
	if cs.LargeInterleaved {
		msgs, order = nil, nil
		for k := 0; k < 2; k++ {
			m := &c12Msg{reqID: uint32(300 + k), abortAt: -1, nonce: fmt.Sprintf("big%d", k)}
			m.body = c12Body(r, m.nonce, 40000)
			m.parts = c12Split(r, m.body, 6)
			msgs = append(msgs, m)
		}
		for k := 0; k < 6; k++ {
			order = append(order, [2]int{0, k}, [2]int{1, k})
		}
	}
	desc, err := c12Send(ch, msgs, order)
	cs.Order = desc
	if err != nil {
		c.Inconclusive("reference sender: " + err.Error())
		return
	}
	// a final single-chunk marker message tells us that everything before it was processed
	marker := &c12Msg{reqID: 999999, abortAt: -1, nonce: "marker"}
	marker.body = c12Body(r, "marker", 10)
	marker.parts = [][]byte{marker.body}
	c12Send(ch, []*c12Msg{marker}, [][2]int{{0, 0}})
	sawMarker := func() bool {
		mu.Lock()
		defer mu.Unlock()
		for _, g := range got {
			if g.reqID == 999999 || (g.err != nil && strings.HasPrefix(g.err.Error(), "PANIC")) {
				return true
			}
		}
		return false
	}
	beats := fw.Heartbeats()
wait:
	for !sawMarker() && fw.Heartbeats()-beats < 6000 {
		select {
		case <-rdone:
			break wait
		case <-time.After(time.Millisecond):
		}
	}
	cancel()
	ch.Close()
	mu.Lock()
	defer mu.Unlock()
	c12Judge(c, cs, msgs, func(yield func(reqID uint32, body []byte, err error)) {
		for _, g := range got {
			yield(g.reqID, g.body, g.err)
		}
	}, true)
}

func c12Body(r *rand.Rand, nonce string, size int) []byte {
	payload := make([]byte, size)
	r.Read(payload)
	req := &ua.WriteRequest{NodesToWrite: []*ua.WriteValue{{NodeID: ua.NewStringNodeID(1, nonce), AttributeID: ua.AttributeIDValue,
		Value: &ua.DataValue{EncodingMask: ua.DataValueValue, Value: ua.MustVariant(payload)}}}}
	req.SetHeader(&ua.RequestHeader{AuthenticationToken: ua.NewTwoByteNodeID(0), Timestamp: time.Unix(1700000000, 0).UTC(), RequestHandle: 1, AdditionalHeader: ua.NewExtensionObject(nil)})
	b, _ := refpeer.EncodeBody(req)
	return b
}

func c12RespBody(r *rand.Rand, nonce string, size int, handle uint32) []byte {
	payload := make([]byte, size)
	r.Read(payload)
	resp := &ua.ReadResponse{ResponseHeader: &ua.ResponseHeader{Timestamp: time.Unix(1700000000, 0).UTC(), RequestHandle: handle, ServiceDiagnostics: &ua.DiagnosticInfo{}, StringTable: []string{}, AdditionalHeader: ua.NewExtensionObject(nil)},
		Results: []*ua.DataValue{{EncodingMask: ua.DataValueValue, Value: ua.MustVariant(nonce)}, {EncodingMask: ua.DataValueValue, Value: ua.MustVariant(payload)}}}
	b, _ := refpeer.EncodeBody(resp)
	return b
}

func c12Messages(r *rand.Rand, n int, responses bool) []*c12Msg {
	var msgs []*c12Msg
	for i := 0; i < n; i++ {
		m := &c12Msg{reqID: uint32(100 + i), abortAt: -1, nonce: fmt.Sprintf("m%d", i)}
		size := []int{1, 10, 500, 4000, 20000, 60000}[r.Intn(6)] // not 0: an empty ByteString decodes to a null one (codec normalisation)
		if responses {
			m.body = c12RespBody(r, m.nonce, size, m.reqID)
		} else {
			m.body = c12Body(r, m.nonce, size)
		}
		m.parts = c12Split(r, m.body, 1+r.Intn(5))
		if len(m.parts) > 1 && r.Intn(5) == 0 {
			m.abortAt = 1 + r.Intn(len(m.parts)-1)
		}
		msgs = append(msgs, m)
	}
	return msgs
}

// c12Judge compares what was delivered with what the reference sender encoded.
func c12Judge(c *fw.Ctx, cs c12Case, msgs []*c12Msg, each func(func(reqID uint32, body []byte, err error)), _ bool) {
	byID := map[uint32]*c12Msg{}
	for _, m := range msgs {
		byID[m.reqID] = m
	}
	deliveredN := map[uint32]int{}
	bad := false
	each(func(reqID uint32, body []byte, err error) {
		if bad {
			return
		}
		if err != nil && strings.HasPrefix(err.Error(), "PANIC") {
			cs.Detail = err.Error()
			c.Violation("c12:receive-panicked", cs.Detail, cs)
			bad = true
			return
		}
		m := byID[reqID]
		if m == nil {
			return // marker, OPN
		}
		if err != nil {
			if m.abortAt < 0 {
				cs.Detail = fmt.Sprintf("message %d (%d chunks, %d bytes) was not delivered: %v", reqID, len(m.parts), len(m.body), err)
				c.Violation("c12:complete-message-reported-as-error", cs.Detail, cs)
				bad = true
			} else {
				c.Class("aborted-message-reported-as-error", 1)
			}
			return
		}
		deliveredN[reqID]++
		if m.abortAt >= 0 {
			cs.Detail = fmt.Sprintf("message %d was aborted after %d of %d chunks but was delivered", reqID, m.abortAt, len(m.parts))
			c.Violation("c12:aborted-message-delivered", cs.Detail, cs)
			bad = true
			return
		}
		if !bytes.Equal(body, m.body) {
			cs.Detail = fmt.Sprintf("message %d (%d chunks): delivered %d bytes, encoded %d bytes, first difference at %d", reqID, len(m.parts), len(body), len(m.body), firstDiff(body, m.body))
			c.Violation("c12:reassembled-message-differs", cs.Detail, cs)
			bad = true
		}
	})
	if bad {
		return
	}
	for _, m := range msgs {
		n := deliveredN[m.reqID]
		switch {
		case m.abortAt < 0 && n == 0:
			cs.Detail = fmt.Sprintf("message %d (%d chunks, %d bytes) was never delivered", m.reqID, len(m.parts), len(m.body))
			c.Violation("c12:message-lost", cs.Detail, cs)
			return
		case n > 1:
			cs.Detail = fmt.Sprintf("message %d was delivered %d times", m.reqID, n)
			c.Violation("c12:message-delivered-twice", cs.Detail, cs)
			return
		}
		if m.abortAt >= 0 {
			c.Class("messages-aborted", 1)
		} else {
			c.Class(fmt.Sprintf("messages-delivered:%d-chunks", len(m.parts)), 1)
		}
	}
}

func c12ClientSide(c *fw.Ctx, cs c12Case) {
	r := rand.New(rand.NewSource(cs.Seed))
	sk, ck := keys.Get("b", 2048), keys.Get("a", 2048)
	so := refpeer.ServerOpts{FirstSeq: cs.FirstSeq}
	cfg := &uasc.Config{SecurityPolicyURI: ua.SecurityPolicyURINone, SecurityMode: ua.MessageSecurityModeNone, Lifetime: 3600000, RequestTimeout: 10 * time.Minute}
	if cs.Mode != refpeer.ModeNone {
		so.Policy, so.Mode, so.Key, so.Cert = refpeer.PolicyByURI(refpeer.URIBasic256Sha256), cs.Mode, sk.Key, sk.Cert
		cfg.SecurityPolicyURI, cfg.SecurityMode = refpeer.URIBasic256Sha256, ua.MessageSecurityMode(cs.Mode)
		cfg.Certificate, cfg.LocalKey, cfg.RemoteCertificate, cfg.Thumbprint = ck.Cert, ck.Key, sk.Cert, uapolicy.Thumbprint(sk.Cert)
	}
	srv, err := refpeer.NewServer(so)
	if err != nil {
		c.Inconclusive("listen: " + err.Error())
		return
	}
	defer srv.Close()
	msgs := c12Messages(r, cs.Msgs, true)
	// the server collects all requests (nonce -> request id), then answers with the interleaved stream
	var mu sync.Mutex
	reqIDs := map[string]uint32{}
	all := make(chan *refpeer.SrvConn, 1)
	srv.Handler = func(sc *refpeer.SrvConn, m *refpeer.Msg) {
		req, ok := m.Service.(*ua.ReadRequest)
		if !ok {
			return
		}
		mu.Lock()
		reqIDs[nonceOf(req)] = m.ReqID
		n := len(reqIDs)
		mu.Unlock()
		if n == len(msgs) {
			all <- sc
		}
	}
	ctx, cancel := context.WithTimeout(context.Background(), 30*time.Second)
	defer cancel()
	conn, err := uacp.Dial(ctx, srv.Endpoint())
	if err != nil {
		c.Inconclusive("dial: " + err.Error())
		return
	}
	defer conn.Close()
	sc, err := uasc.NewSecureChannel(srv.Endpoint(), conn, cfg, make(chan error, 64))
	if err == nil {
		err = sc.Open(ctx)
	}
	if err != nil {
		c.Inconclusive("open: " + classOf(err.Error()))
		return
	}
	defer sc.Close()
	type res struct {
		nonce string
		body  []byte
		err   error
	}
	results := make(chan res, len(msgs))
	reqCtx, reqCancel := context.WithCancel(context.Background()) // no deadline: see the collection loop below
	defer reqCancel()
	for _, m := range msgs {
		m := m
		go func() {
			var out res
			out.nonce = m.nonce
			req := &ua.ReadRequest{NodesToRead: []*ua.ReadValueID{{NodeID: ua.NewStringNodeID(1, m.nonce), AttributeID: ua.AttributeIDValue, DataEncoding: &ua.QualifiedName{}}}}
			if pn := fw.Catch(func() {
				out.err = sc.SendRequest(reqCtx, req, nil, func(v ua.Response) error {
					out.body, _ = refpeer.EncodeBody(v)
					return nil
				})
			}); pn != nil {
				out.err = fmt.Errorf("PANIC %s: %s", pn.Frame, pn.Msg)
			}
			results <- out
		}()
	}
	var conn2 *refpeer.SrvConn
	select {
	case conn2 = <-all:
	case <-time.After(30 * time.Second):
		c.Inconclusive("the reference server did not see all requests")
		return
	}
	// bind each prepared response to the request id the client used; the handle in the header stays as encoded
	mu.Lock()
	for _, m := range msgs {
		m.reqID = reqIDs[m.nonce]
	}
	mu.Unlock()
	order := c12Order(r, msgs)
	desc, err := c12Send(conn2.Channel, msgs, order)
	cs.Order = desc
	if err != nil {
		c.Inconclusive("reference sender: " + err.Error())
		return
	}
	byNonce := map[string]*c12Msg{}
	for _, m := range msgs {
		byNonce[m.nonce] = m
	}
	// The calls run with a request timeout that never fires by itself: how long the channel may take to deliver what
	// was sent is measured in heartbeats of this process since the last delivery (load can delay the verdict, not cause
	// it); a call that is still waiting then counts as timed out, the response was lost inside the channel.
	var got []res
	answered := map[string]bool{}
	beats := fw.Heartbeats()
collect:
	for len(got) < len(msgs) {
		select {
		case g := <-results:
			got = append(got, g)
			answered[g.nonce] = true
			beats = fw.Heartbeats()
		case <-time.After(time.Millisecond):
			if fw.Heartbeats()-beats > 6000 {
				break collect
			}
		}
	}
	for _, m := range msgs {
		if !answered[m.nonce] {
			got = append(got, res{nonce: m.nonce, err: ua.StatusBadTimeout})
		}
	}
	c12Judge(c, cs, msgs, func(yield func(uint32, []byte, error)) {
		for _, g := range got {
			m := byNonce[g.nonce]
			if g.err != nil && m.abortAt < 0 && g.err == ua.StatusBadTimeout {
				// the call timed out: the response was lost inside the channel
				yield(m.reqID, nil, fmt.Errorf("call timed out although all chunks of the response were sent"))
				continue
			}
			yield(m.reqID, g.body, g.err)
		}
	}, true)
}

func c12Run(c *fw.Ctx) error {
	n := int64(c.Pick(320, 40000))
	for i := int64(0); i < n; i++ {
		if int(i%int64(c.NBatch)) != c.Batch || i < c.Resume {
			continue
		}
		r := c.Rng("c12", i)
		cs := c12Case{Index: i, Side: []string{"server-channel", "client-channel"}[i%2], Mode: []int{1, 1, 2, 3}[r.Intn(4)], FirstSeq: c12FirstSeq(r), Msgs: 1 + r.Intn(5), Seed: r.Int63()}
		if i%16 == 0 {
			cs.Side, cs.ManyAborts = "server-channel", true
		}
		if i%16 == 8 {
			cs.Side, cs.LargeInterleaved, cs.Mode = "server-channel", true, 1
		}
		c.Journal(i, cs)
		if cs.Side == "server-channel" {
			c12ServerSide(c, cs)
		} else {
			c12ClientSide(c, cs)
		}
		c.Eval(int64(cs.Msgs))
		c.Nontrivial(fmt.Sprintf("%s/%d/%d/%d", cs.Side, cs.Mode, cs.FirstSeq, cs.Seed))
		c.Class("receiver:"+cs.Side, 1)
		c.Class("mode:"+modeName(cs.Mode), 1)
		switch {
		case cs.FirstSeq >= 0xffffffff-1024-40:
			c.Class("first-sequence:across-the-wrap", 1)
		case cs.FirstSeq < 4:
			c.Class("first-sequence:0-3", 1)
		default:
			c.Class("first-sequence:elsewhere", 1)
		}
		if i%101 == 0 {
			c.Sample(cs)
		}
		c.Done(i)
	}
	return nil
}

func init() {
	fw.Register("C12", fw.Spec{
		Plan: func(tier string) fw.Plan {
			p := fw.Plan{Batches: 8, TimeoutS: 900, MinNontrivial: 200, Level: "exploration",
				Rule:        "conforming chunk streams written by the independent reference peer to a bare gopcua secure channel over TCP (server-kind channel fed by the reference client with WriteRequests; client-kind channel whose concurrent requests the reference server answers): 1-5 messages of 0-60 kB cut into 1-5 chunks at uneven positions (empty final chunks included), chunks of different request ids interleaved, abort chunks after some intermediate chunks, first sequence number anywhere incl. the wrap to 0 within the first chunks; modes None, Sign, SignAndEncrypt (Basic256Sha256); every 16th stream is a long history on a channel limited to 8 chunks: 25 rounds of a message aborted after 3 chunks followed by a complete 2-5 chunk message; oracle: every complete message is delivered exactly once with byte-equal re-encoding, aborted ones are not delivered, nothing else is affected; distinct = streams",
				Assumptions: []string{"delivery is compared on the re-encoding of the decoded message (the codec is the subject of C01-C03)", "after an abort error the harness keeps calling Receive on the bare channel"}}
			if tier == "thorough" {
				p.Batches, p.TimeoutS, p.MinNontrivial = 16, 3000, 20000
			}
			return p
		},
		Run: c12Run,
		Replay: func(c *fw.Ctx, raw json.RawMessage) error {
			var cs c12Case
			if err := json.Unmarshal(raw, &cs); err != nil {
				return err
			}
			cs.Detail, cs.Order = "", ""
			if cs.Side == "server-channel" {
				c12ServerSide(c, cs)
			} else {
				c12ClientSide(c, cs)
			}
			return nil
		},
	})
}
