package props

import (
	"context"
	"encoding/json"
	"fmt"
	"io"
	"math/rand"
	"net"
	"strings"
	"sync"
	"time"

	"github.com/gopcua/opcua"
	"github.com/gopcua/opcua/ua"
	"github.com/gopcua/opcua/uacp"
	"github.com/gopcua/opcua/uasc"

	"verifharness/fw"
	"verifharness/refpeer"
)

// C06: negotiated transport limits are honoured in both directions. The independent peer is one side of the
// connection and sees every chunk gopcua puts on the wire; it also sends the largest chunks / messages it is
// entitled to send.

type c06Limits struct {
	RecvBuf   uint32 `json:"recv_buf"`
	SendBuf   uint32 `json:"send_buf"`
	MaxMsg    uint32 `json:"max_message_size"`
	MaxChunks uint32 `json:"max_chunk_count"`
}

type c06Case struct {
	Index  int64     `json:"index"`
	Side   string    `json:"gopcua_side"` // "client-channel", "server-channel", "stock-server"
	Gopcua c06Limits `json:"gopcua_configured"`
	Peer   c06Limits `json:"peer_configured"`
	Detail string    `json:"detail,omitempty"`
	Step   string    `json:"step,omitempty"`
}

func minU32(a, b uint32) uint32 {
	if a < b {
		return a
	}
	return b
}

var c06Bufs = []uint32{8192, 8193, 16384, 65535, 65536, 1 << 20}
var c06Msgs = []uint32{0, 8192, 100000}
var c06Chunks = []uint32{0, 1, 2, 5}

func c06Rand(r *rand.Rand) c06Limits {
	return c06Limits{c06Bufs[r.Intn(len(c06Bufs))], c06Bufs[r.Intn(len(c06Bufs))], c06Msgs[r.Intn(len(c06Msgs))], c06Chunks[r.Intn(len(c06Chunks))]}
}

// bodyOfSize returns a WriteRequest / ReadResponse payload so that the encoded message has roughly n bytes.
func c06Payload(n int) []byte {
	if n < 1 {
		n = 1
	}
	return make([]byte, n)
}

// msgFits reports whether a message of bodyLen bytes cut into chunks of at most chunkBody bytes respects the limits.
func c06Fits(bodyLen, chunkBody int, l c06Limits) bool {
	if l.MaxMsg != 0 && bodyLen > int(l.MaxMsg) {
		return false
	}
	n := (bodyLen + chunkBody - 1) / chunkBody
	if l.MaxChunks != 0 && n > int(l.MaxChunks) {
		return false
	}
	return true
}

// c06ClientChannel: gopcua is the client (bare client-kind channel), the independent peer the server.
func c06ClientChannel(c *fw.Ctx, cs c06Case) {
	g, p := cs.Gopcua, cs.Peer
	var mu sync.Mutex
	var hello *refpeer.Hello
	// the conforming ACK of a server with limits p for a client that said hello
	ackFor := func(h *refpeer.Hello) refpeer.Ack {
		return refpeer.Ack{RecvBuf: minU32(p.RecvBuf, h.SendBuf), SendBuf: minU32(p.SendBuf, h.RecvBuf), MaxMsg: p.MaxMsg, MaxChunks: p.MaxChunks}
	}
	l, err := net.Listen("tcp", "127.0.0.1:0")
	if err != nil {
		c.Inconclusive("listen: " + err.Error())
		return
	}
	defer l.Close()
	type srvSide struct {
		ch  *refpeer.Channel
		ack refpeer.Ack
	}
	ready := make(chan *srvSide, 1)
	respSize := make(chan int, 16) // size of the next response payload
	var wireMu sync.Mutex
	wire := map[uint32][]int{} // request id -> chunk lengths seen on the wire
	go func() {
		conn, err := l.Accept()
		if err != nil {
			ready <- nil
			return
		}
		f, err := refpeer.ReadFrame(conn, 0)
		if err != nil || f.Type != "HEL" {
			conn.Close()
			ready <- nil
			return
		}
		h, _ := refpeer.DecodeHello(f.Body())
		mu.Lock()
		hello = h
		mu.Unlock()
		ack := ackFor(h)
		conn.Write(refpeer.MakeFrame("ACKF", ack.Encode()))
		ch := refpeer.NewChannel(conn, true, refpeer.Security{Mode: refpeer.ModeNone})
		ch.ID = 321
		ch.MyRecvBuf = 16 << 20 // read whatever arrives: sizes are judged, not enforced, by the observer
		ch.PeerRecvBuf = ack.SendBuf
		ready <- &srvSide{ch, ack}
		for {
			m, err := ch.ReadMsg()
			if err != nil {
				return
			}
			wireMu.Lock()
			for _, o := range m.Obs {
				wire[m.ReqID] = append(wire[m.ReqID], o.Len)
			}
			wireMu.Unlock()
			switch req := m.Service.(type) {
			case *ua.OpenSecureChannelRequest:
				ch.AnswerOpen(m, refpeer.ServerOpts{})
			case *ua.WriteRequest:
				ch.SendService("MSG", m.ReqID, &ua.WriteResponse{ResponseHeader: refpeer.RespHeader(req, ua.StatusOK), Results: []ua.StatusCode{ua.StatusOK}}, refpeer.SendOpts{})
			case *ua.ReadRequest:
				n := <-respSize
				resp := &ua.ReadResponse{ResponseHeader: refpeer.RespHeader(req, ua.StatusOK), Results: []*ua.DataValue{{EncodingMask: ua.DataValueValue, Value: ua.MustVariant(c06Payload(n))}}}
				// the largest chunks this server may send: the client's receive buffer (bounded by its own send buffer)
				ch.SendService("MSG", m.ReqID, resp, refpeer.SendOpts{})
			}
		}
	}()
	ctx, cancel := context.WithTimeout(context.Background(), 90*time.Second)
	defer cancel()
	d := &uacp.Dialer{ClientACK: &uacp.Acknowledge{ReceiveBufSize: g.RecvBuf, SendBufSize: g.SendBuf, MaxMessageSize: g.MaxMsg, MaxChunkCount: g.MaxChunks}}
	conn, err := d.Dial(ctx, "opc.tcp://"+l.Addr().String())
	ss := <-ready
	if err != nil || ss == nil {
		c.Inconclusive(fmt.Sprintf("handshake: %v", err))
		return
	}
	defer conn.Close()
	defer ss.ch.Close()
	mu.Lock()
	h := *hello
	mu.Unlock()
	// a configured 0 means "no preference": the client may announce the limit it is going to enforce
	if h.RecvBuf != g.RecvBuf || h.SendBuf != g.SendBuf || (g.MaxMsg != 0 && h.MaxMsg != g.MaxMsg) || (g.MaxChunks != 0 && h.MaxChunks != g.MaxChunks) {
		cs.Step, cs.Detail = "hello", fmt.Sprintf("configured %+v, Hello on the wire %+v", g, h)
		c.Violation("c06:client-hello-differs-from-configuration", cs.Detail, cs)
	}
	sc, err := uasc.NewSecureChannel("opc.tcp://"+l.Addr().String(), conn, &uasc.Config{SecurityPolicyURI: ua.SecurityPolicyURINone, SecurityMode: ua.MessageSecurityModeNone, Lifetime: 3600000, RequestTimeout: 4 * time.Second}, make(chan error, 64))
	if err == nil {
		err = sc.Open(ctx)
	}
	if err != nil {
		c.Inconclusive("open: " + classOf(err.Error()))
		return
	}
	defer sc.Close()
	// what the client may send: chunks up to the server's receive buffer as acknowledged; messages within the server's limits
	maySend := int(ss.ack.RecvBuf)
	srvLimits := c06Limits{MaxMsg: ss.ack.MaxMsg, MaxChunks: ss.ack.MaxChunks}
	chunkBody := maySend - 24 // 12 header + 4 token + 8 sequence header (mode None)
	// 1. requests of sizes around the limits
	sizes := []int{10, chunkBody - 200, chunkBody + 200, 2*chunkBody - 200, 2*chunkBody + 200, 5*chunkBody + 200}
	if srvLimits.MaxMsg != 0 {
		sizes = append(sizes, int(srvLimits.MaxMsg)-300, int(srvLimits.MaxMsg)+300)
	}
	for _, n := range sizes {
		if n < 1 || n > 6<<20 {
			continue
		}
		cs.Step = fmt.Sprintf("client sends a WriteRequest with a %d byte payload", n)
		c.Journal(cs.Index, cs)
		req := &ua.WriteRequest{NodesToWrite: []*ua.WriteValue{{NodeID: ua.NewNumericNodeID(1, 1), AttributeID: ua.AttributeIDValue, Value: &ua.DataValue{EncodingMask: ua.DataValueValue, Value: ua.MustVariant(c06Payload(n))}}}}
		wireMu.Lock()
		before := len(wire)
		wireMu.Unlock()
		var reqErr error
		done := make(chan struct{})
		go func() {
			reqErr = sc.SendRequest(ctx, req, nil, func(ua.Response) error { return nil })
			close(done)
		}()
		select {
		case <-done:
		case <-time.After(6 * time.Second):
		}
		c.Eval(1)
		time.Sleep(10 * time.Millisecond)
		wireMu.Lock()
		var lens []int
		ids := 0
		for id, ls := range wire {
			if id > 1 {
				ids++
			}
			lens = append(lens, ls...)
		}
		after := len(wire)
		wireMu.Unlock()
		for _, L := range lens {
			if L > maySend {
				cs.Detail = fmt.Sprintf("a chunk of %d bytes is on the wire; the server acknowledged a receive buffer of %d (server %+v, client hello %+v)", L, ss.ack.RecvBuf, p, h)
				c.Violation("c06:client-sent-chunk-larger-than-peer-receive-buffer", cs.Detail, cs)
				return
			}
		}
		// total encoded body = payload + ~90 bytes of headers
		fits := c06Fits(n+90, chunkBody, srvLimits)
		switch {
		case !fits && after > before:
			cs.Detail = fmt.Sprintf("the message (%d byte payload) exceeds the server's limits %+v but was put on the wire (request error: %v)", n, srvLimits, reqErr)
			c.Violation("c06:client-sent-message-beyond-peer-limits", cs.Detail, cs)
			return
		case !fits:
			c.Class("client-channel:over-limit-message-refused-by-sender", 1)
		case reqErr != nil:
			cs.Detail = fmt.Sprintf("a message within all limits (%d byte payload, chunks of %d, server limits %+v) failed: %v", n, maySend, srvLimits, reqErr)
			c.Violation("c06:client-refused-message-within-limits", cs.Detail, cs)
			return
		default:
			c.Class("client-channel:request-within-limits-ok", 1)
		}
	}
	// 2. responses the server is entitled to send: chunks up to min(server send buffer, client receive buffer), messages
	// within the client's advertised limits
	srvChunk := int(ss.ack.SendBuf) - 24
	cliLimits := c06Limits{MaxMsg: h.MaxMsg, MaxChunks: h.MaxChunks}
	rsizes := []int{10, srvChunk - 200, srvChunk + 200, 3*srvChunk + 100}
	if cliLimits.MaxMsg != 0 {
		rsizes = append(rsizes, int(cliLimits.MaxMsg)-300)
	}
	for _, n := range rsizes {
		if n < 1 || n > 6<<20 || !c06Fits(n+90, srvChunk, cliLimits) {
			continue
		}
		cs.Step = fmt.Sprintf("server answers with a %d byte payload in chunks of up to %d bytes", n, ss.ack.SendBuf)
		c.Journal(cs.Index, cs)
		respSize <- n
		var got int
		// the time a large answer takes to arrive is not the subject: a generous timeout of its own
		err := sc.SendRequestWithTimeout(ctx, &ua.ReadRequest{NodesToRead: []*ua.ReadValueID{{NodeID: ua.NewNumericNodeID(1, 2), AttributeID: ua.AttributeIDValue, DataEncoding: &ua.QualifiedName{}}}}, nil, 40*time.Second, func(v ua.Response) error {
			if rr, ok := v.(*ua.ReadResponse); ok && len(rr.Results) == 1 && rr.Results[0].Value != nil {
				b, _ := rr.Results[0].Value.Value().([]byte)
				got = len(b)
			}
			return nil
		})
		c.Eval(1)
		if err != nil || got != n {
			cs.Detail = fmt.Sprintf("a response the server may send (payload %d, chunks <= %d = min(server send %d, client receive %d), client limits %+v) was not accepted: %v (got %d bytes)", n, ss.ack.SendBuf, p.SendBuf, h.RecvBuf, cliLimits, err, got)
			c.Violation("c06:client-rejected-chunk-or-message-the-peer-may-send", cs.Detail, cs)
			return
		}
		c.Class("client-channel:response-within-limits-accepted", 1)
	}
}

// ---- server side ----

// c06ServerChannel: gopcua is the server (uacp.Listen with its configured ACK + server-kind channel), the peer the client.
func c06ServerChannel(c *fw.Ctx, cs c06Case) {
	g, p := cs.Gopcua, cs.Peer
	bs, err := newBareServer(&uacp.Acknowledge{ReceiveBufSize: g.RecvBuf, SendBufSize: g.SendBuf, MaxMessageSize: g.MaxMsg, MaxChunkCount: g.MaxChunks})
	if err != nil {
		c.Inconclusive("listen: " + err.Error())
		return
	}
	defer bs.l.Close()
	type accRes struct {
		sc   *uasc.SecureChannel
		conn *uacp.Conn
		err  error
	}
	acc := make(chan accRes, 1)
	go func() {
		sc, conn, err := bs.accept(&uasc.Config{SecurityPolicyURI: ua.SecurityPolicyURINone, SecurityMode: ua.MessageSecurityModeNone, Lifetime: 3600000}, 55, 1, 5)
		acc <- accRes{sc, conn, err}
	}()
	ch, ack, err := refpeer.Dial(strings.TrimPrefix(bs.ep, "opc.tcp://"), refpeer.ClientOpts{Sec: refpeer.Security{Mode: refpeer.ModeNone}, Hello: refpeer.Hello{RecvBuf: p.RecvBuf, SendBuf: p.SendBuf, MaxMsg: p.MaxMsg, MaxChunks: p.MaxChunks}})
	a := <-acc
	if err != nil || a.err != nil {
		c.Inconclusive(fmt.Sprintf("set-up: %v / %v", err, a.err))
		return
	}
	defer ch.Close()
	defer a.conn.Close()
	ch.MyRecvBuf = 16 << 20
	c.Eval(1)
	// a second client with the smallest buffers connects to the same listener afterwards: what was negotiated for the
	// first connection must stay what it is
	acc2 := make(chan accRes, 1)
	go func() {
		sc, conn, err := bs.accept(&uasc.Config{SecurityPolicyURI: ua.SecurityPolicyURINone, SecurityMode: ua.MessageSecurityModeNone, Lifetime: 3600000}, 56, 1, 5)
		acc2 <- accRes{sc, conn, err}
	}()
	if ch2, _, err := refpeer.Dial(strings.TrimPrefix(bs.ep, "opc.tcp://"), refpeer.ClientOpts{Sec: refpeer.Security{Mode: refpeer.ModeNone}, Hello: refpeer.Hello{RecvBuf: 8192, SendBuf: 8192, MaxMsg: 8192, MaxChunks: 1}}); err == nil {
		defer ch2.Close()
		if a2 := <-acc2; a2.err == nil {
			defer a2.conn.Close()
			c.Class("server-channel:second-connection-with-minimal-buffers", 1)
		}
	}
	// the acknowledged buffers must respect both sides
	if ack.RecvBuf > p.SendBuf || ack.RecvBuf > g.RecvBuf || ack.SendBuf > p.RecvBuf || ack.SendBuf > g.SendBuf {
		cs.Step, cs.Detail = "acknowledge", fmt.Sprintf("server configured %+v, client hello %+v, acknowledge %+v: the receive buffer must not exceed the client's send buffer, the send buffer not the client's receive buffer", g, p, *ack)
		c.Violation("c06:server-acknowledge-ignores-hello", cs.Detail, cs)
	}
	// the server loop: answers a ReadRequest whose node id carries the wanted payload size
	sendErr := make(chan error, 16)
	delivered := make(chan int, 64)
	ctx, cancel := context.WithCancel(context.Background())
	defer cancel()
	go func() {
		for {
			msg := a.sc.Receive(ctx)
			if msg.Err == io.EOF || ctx.Err() != nil {
				return
			}
			if msg.Err != nil {
				delivered <- -1
				if _, ok := msg.Err.(ua.StatusCode); !ok {
					return
				}
				continue
			}
			switch req := msg.Request().(type) {
			case *ua.ReadRequest:
				n := int(req.NodesToRead[0].NodeID.IntID())
				resp := &ua.ReadResponse{ResponseHeader: &ua.ResponseHeader{Timestamp: time.Now(), RequestHandle: req.RequestHeader.RequestHandle, ServiceDiagnostics: &ua.DiagnosticInfo{}, StringTable: []string{}, AdditionalHeader: ua.NewExtensionObject(nil)},
					Results: []*ua.DataValue{{EncodingMask: ua.DataValueValue, Value: ua.MustVariant(c06Payload(n))}}}
				sendErr <- a.sc.SendResponseWithContext(ctx, msg.RequestID, resp)
			case *ua.WriteRequest:
				delivered <- len(req.NodesToWrite[0].Value.Value.Value().([]byte))
			}
		}
	}()
	ch.Conn.SetReadDeadline(time.Now().Add(10 * time.Second))
	if _, err := ch.Open(false, 3600000); err != nil {
		c.Inconclusive("open: " + tailStr(err.Error(), 60))
		return
	}
	// 1. responses of the server: chunk sizes on the wire <= the client's receive buffer; over-limit messages refused
	cliRecv := int(p.RecvBuf)
	mayChunk := int(minU32(g.SendBuf, p.RecvBuf)) - 24
	cliLimits := c06Limits{MaxMsg: p.MaxMsg, MaxChunks: p.MaxChunks}
	sizes := []int{10, mayChunk - 200, mayChunk + 200, 2*mayChunk + 200, 5*mayChunk + 200}
	if p.MaxMsg != 0 {
		sizes = append(sizes, int(p.MaxMsg)-300, int(p.MaxMsg)+300)
	}
	for _, n := range sizes {
		if n < 1 || n > 6<<20 {
			continue
		}
		cs.Step = fmt.Sprintf("server answers with a %d byte payload", n)
		c.Journal(cs.Index, cs)
		base := len(ch.Log)
		reqID, err := ch.SendRequest(&ua.ReadRequest{NodesToRead: []*ua.ReadValueID{{NodeID: ua.NewNumericNodeID(1, uint32(n)), AttributeID: ua.AttributeIDValue, DataEncoding: &ua.QualifiedName{}}}}, nil, refpeer.SendOpts{})
		if err != nil {
			c.Inconclusive("reference client send: " + err.Error())
			return
		}
		var serr error
		select {
		case serr = <-sendErr:
		case <-time.After(6 * time.Second):
			c.Inconclusive("the server loop did not answer")
			return
		}
		ch.Conn.SetReadDeadline(time.Now().Add(300 * time.Millisecond))
		if serr == nil {
			ch.Conn.SetReadDeadline(time.Now().Add(5 * time.Second))
			ch.Await(reqID, 0)
		} else {
			ch.ReadMsg()
		}
		c.Eval(1)
		onWire := 0
		for _, o := range ch.Log[base:] {
			if o.ReqID != reqID {
				continue
			}
			onWire++
			if o.Len > cliRecv {
				cs.Detail = fmt.Sprintf("the server sent a chunk of %d bytes; the client announced a receive buffer of %d (server configured %+v)", o.Len, cliRecv, g)
				c.Violation("c06:server-sent-chunk-larger-than-peer-receive-buffer", cs.Detail, cs)
				return
			}
		}
		fits := c06Fits(n+90, mayChunk, cliLimits)
		switch {
		case !fits && onWire > 0:
			cs.Detail = fmt.Sprintf("the response (%d byte payload) exceeds the client's limits %+v but %d chunks of it were put on the wire (send error: %v)", n, cliLimits, onWire, serr)
			c.Violation("c06:server-sent-message-beyond-peer-limits", cs.Detail, cs)
			return
		case !fits:
			c.Class("server-channel:over-limit-message-refused-by-sender", 1)
		case serr != nil:
			cs.Detail = fmt.Sprintf("a response within all limits (%d byte payload, chunks of %d, client limits %+v) was refused: %v", n, mayChunk+24, cliLimits, serr)
			c.Violation("c06:server-refused-message-within-limits", cs.Detail, cs)
			return
		default:
			c.Class("server-channel:response-within-limits-ok", 1)
		}
	}
	// 2. requests the client may send: chunks up to the acknowledged receive buffer, messages within the server's limits
	okChunk := int(ack.RecvBuf) - 24
	srvLimits := c06Limits{MaxMsg: ack.MaxMsg, MaxChunks: ack.MaxChunks}
	for _, n := range []int{10, okChunk - 200, okChunk + 200, 3*okChunk + 100} {
		if n < 1 || n > 6<<20 || !c06Fits(n+90, okChunk, srvLimits) {
			continue
		}
		cs.Step = fmt.Sprintf("client sends a %d byte payload in chunks of up to %d bytes", n, ack.RecvBuf)
		c.Journal(cs.Index, cs)
		ch.PeerRecvBuf = ack.RecvBuf
		if _, err := ch.SendRequest(&ua.WriteRequest{NodesToWrite: []*ua.WriteValue{{NodeID: ua.NewNumericNodeID(1, 1), AttributeID: ua.AttributeIDValue, Value: &ua.DataValue{EncodingMask: ua.DataValueValue, Value: ua.MustVariant(c06Payload(n))}}}}, nil, refpeer.SendOpts{}); err != nil {
			c.Inconclusive("reference client send: " + err.Error())
			return
		}
		c.Eval(1)
		select {
		case got := <-delivered:
			if got != n {
				cs.Detail = fmt.Sprintf("a request the client may send (payload %d, chunks <= %d as acknowledged, server limits %+v) was not delivered (server configured %+v, client hello %+v)", n, ack.RecvBuf, srvLimits, g, p)
				c.Violation("c06:server-rejected-chunk-or-message-the-peer-may-send", cs.Detail, cs)
				return
			}
			c.Class("server-channel:request-within-limits-accepted", 1)
		case <-time.After(6 * time.Second):
			c.Inconclusive("request not delivered in time")
			return
		}
	}
}

// c06StockServer: the stock server.Server (default ACK) against a client with small buffers.
func c06StockServer(c *fw.Ctx, cs c06Case) {
	rs, err := startRealServer(srvCfg{Vars: 1})
	if err != nil {
		c.Inconclusive("server start: " + err.Error())
		return
	}
	defer rs.Srv.Close()
	p := cs.Peer
	big := make([]byte, 30000)
	rs.Vars[0].SetAttribute(ua.AttributeIDValue, &ua.DataValue{EncodingMask: ua.DataValueValue, Value: ua.MustVariant(big)})
	addr := strings.TrimPrefix(rs.Endpoint, "opc.tcp://")
	ch, tok, err := refpeer.OpenSecureSession(addr, rs.Endpoint, nil, refpeer.ModeNone, nil, nil, nil, refpeer.ClientOpts{Hello: refpeer.Hello{RecvBuf: p.RecvBuf, SendBuf: p.SendBuf, MaxMsg: p.MaxMsg, MaxChunks: p.MaxChunks}})
	if err != nil {
		c.Inconclusive("session: " + classOf(err.Error()))
		return
	}
	defer ch.Close()
	ch.MyRecvBuf = 16 << 20
	base := len(ch.Log)
	cs.Step = "stock server answers a Read of a 30000 byte value"
	c.Journal(cs.Index, cs)
	rv, rerr := ch.Request(&ua.ReadRequest{NodesToRead: []*ua.ReadValueID{{NodeID: rs.Vars[0].ID(), AttributeID: ua.AttributeIDValue, DataEncoding: &ua.QualifiedName{}}}}, tok, 5*time.Second)
	c.Class(fmt.Sprintf("stock-server:answer:%T:%v", rv, rerr != nil), 1)
	c.Eval(1)
	n := 0
	for _, o := range ch.Log[base:] {
		n++
		if o.Len > int(p.RecvBuf) {
			cs.Detail = fmt.Sprintf("the server sent a chunk of %d bytes; the client announced a receive buffer of %d", o.Len, p.RecvBuf)
			c.Violation("c06:server-sent-chunk-larger-than-peer-receive-buffer", cs.Detail, cs)
			return
		}
	}
	if n > 1 && (p.MaxChunks != 0 && n > int(p.MaxChunks) || p.MaxMsg != 0 && 30000 > p.MaxMsg) {
		cs.Detail = fmt.Sprintf("the response exceeds the client's limits %+v but %d chunks were put on the wire", p, n)
		c.Violation("c06:server-sent-message-beyond-peer-limits", cs.Detail, cs)
		return
	}
	c.Class("stock-server:chunks-observed", int64(n))
	_ = opcua.NewClient
}

func c06Run(c *fw.Ctx) error {
	n := int64(c.Pick(60, 1296*3))
	for i := int64(0); i < n; i++ {
		if int(i%int64(c.NBatch)) != c.Batch || i < c.Resume {
			continue
		}
		r := c.Rng("c06", i)
		cs := c06Case{Index: i, Side: []string{"client-channel", "server-channel", "client-channel", "server-channel", "stock-server"}[i%5], Gopcua: c06Rand(r), Peer: c06Rand(r)}
		if !c.Quick() && i < 1296*2 { // the full grid of buffer sizes, limits sampled
			k := i / 2
			cs.Gopcua.RecvBuf, cs.Gopcua.SendBuf = c06Bufs[k%6], c06Bufs[(k/6)%6]
			cs.Peer.RecvBuf, cs.Peer.SendBuf = c06Bufs[(k/36)%6], c06Bufs[(k/216)%6]
			cs.Side = []string{"client-channel", "server-channel"}[i%2]
		}
		c.Journal(i, cs)
		switch cs.Side {
		case "client-channel":
			c06ClientChannel(c, cs)
		case "server-channel":
			c06ServerChannel(c, cs)
		default:
			c06StockServer(c, cs)
		}
		c.Nontrivial(fmt.Sprintf("%s/%+v/%+v", cs.Side, cs.Gopcua, cs.Peer))
		c.Class("side:"+cs.Side, 1)
		if cs.Gopcua.RecvBuf != cs.Gopcua.SendBuf || cs.Peer.RecvBuf != cs.Peer.SendBuf {
			c.Class("configurations-with-asymmetric-buffers", 1)
		}
		if i%13 == 0 {
			c.Sample(cs)
		}
		c.Done(i)
	}
	return nil
}

func init() {
	fw.Register("C06", fw.Spec{
		Plan: func(tier string) fw.Plan {
			p := fw.Plan{Batches: 8, TimeoutS: 900, MinNontrivial: 40, Level: "exploration",
				Rule:        "configurations: receive and send buffers from {8192, 8193, 16384, 65535, 65536, 2^20} on each side, maximum message size from {0, 8192, 100000} and chunk count from {0, 1, 2, 5} on each side (quick: 60 random configurations; thorough: the full 6^4 grid of buffer sizes for both roles, limits sampled); gopcua as bare client-kind channel against the independent server (conforming ACK computed from the Hello), as bare server-kind channel behind uacp.Listen with its configured ACK against the independent client, and the stock server against a client with small buffers; messages sized around every resulting chunk and message limit in both directions; oracle at the independent peer: every chunk on the wire <= the receive buffer its receiver advertised, the server's ACK respects the Hello, every chunk/message the peer is entitled to send is accepted, a message beyond the peer's limits is refused by the sender and none of its chunks is on the wire; distinct = configurations",
				Assumptions: []string{"policy None (chunk header 24 bytes); 0 means no limit"}}
			if tier == "thorough" {
				p.Batches, p.TimeoutS, p.MinNontrivial = 16, 3400, 3000
			}
			return p
		},
		Run: c06Run,
		Replay: func(c *fw.Ctx, raw json.RawMessage) error {
			var cs c06Case
			if err := json.Unmarshal(raw, &cs); err != nil {
				return err
			}
			cs.Detail, cs.Step = "", ""
			switch cs.Side {
			case "client-channel":
				c06ClientChannel(c, cs)
			case "server-channel":
				c06ServerChannel(c, cs)
			default:
				c06StockServer(c, cs)
			}
			return nil
		},
	})
}
