package props

import (
	"encoding/json"
	"fmt"
	"math"
	"math/rand"
	"os"
	"regexp"
	"strconv"
	"strings"
	"time"

	"github.com/gopcua/opcua/id"
	"github.com/gopcua/opcua/ua"

	"verifharness/fw"
	"verifharness/gen"
	"verifharness/refpeer"
	"verifharness/sut"
)

// C29: no client can crash or hang the server. The real server runs in a child process; hostile scripted
// clients (independent peer) send generated, targeted and raw-fuzzed traffic; a canary client on its own
// connection must keep getting answers.

type c29Case struct {
	Kind    string `json:"kind"`
	Type    string `json:"request_type,omitempty"`
	Index   int64  `json:"index"`
	Session bool   `json:"with_session"`
	Desc    string `json:"desc,omitempty"`
	Hex     string `json:"request_hex,omitempty"`
}

type c29Env struct {
	c        *fw.Ctx
	child    *sut.Child
	endpoint string
	addr     string
	ns       uint16
	canary   *refpeer.Channel
	canTok   *ua.NodeID
	atk      *refpeer.Channel
	atkTok   *ua.NodeID
	restarts int
	last     []c29Case // what was sent since the last successful canary
}

func (e *c29Env) start() error {
	ch, ep, ns, err := startServerChild(srvCfg{Vars: 4})
	if err != nil {
		return err
	}
	e.child, e.endpoint, e.ns = ch, ep, ns
	e.addr = strings.TrimPrefix(ep, "opc.tcp://")
	if e.canary, e.canTok, err = refpeer.OpenSession(e.addr, e.endpoint); err != nil {
		return fmt.Errorf("canary session: %v", err)
	}
	return e.newAttacker()
}

func (e *c29Env) newAttacker() error {
	if e.atk != nil {
		e.atk.Close()
		e.atk = nil
	}
	ch, tok, err := refpeer.OpenSession(e.addr, e.endpoint)
	if err != nil {
		return err
	}
	e.atk, e.atkTok = ch, tok
	return nil
}

func (e *c29Env) stop() {
	if e.canary != nil {
		e.canary.Close()
	}
	if e.atk != nil {
		e.atk.Close()
	}
	if e.child != nil && e.child.Alive() {
		e.child.Kill()
	}
}

func procCPU(pid int) float64 {
	b, err := os.ReadFile(fmt.Sprintf("/proc/%d/stat", pid))
	if err != nil {
		return -1
	}
	f := strings.Fields(string(b[strings.LastIndexByte(string(b), ')')+1:]))
	if len(f) < 13 {
		return -1
	}
	ut, _ := strconv.ParseFloat(f[11], 64)
	st, _ := strconv.ParseFloat(f[12], 64)
	return (ut + st) / 100
}

var blockedRe = regexp.MustCompile(`(?s)goroutine \d+ (?:gp=\S+ m=\S+ (?:mp=\S+ )?)?\[([^\]]+)\]:\n(.*?)\n\n`)

// dispatcherState finds the goroutine running the server's single dispatcher in a goroutine dump.
func dispatcherState(dump string) (state, frame string) {
	for _, m := range blockedRe.FindAllStringSubmatch(dump+"\n\n", -1) {
		if strings.Contains(m[2], "server.(*Server).monitorConnections") {
			return m[1], fw.TopRepoFrame(m[2])
		}
	}
	return "?", "?"
}

// repoGoroutines returns the goroutines of a dump that have a gopcua frame, shortened to max bytes.
func repoGoroutines(dump string, max int) string {
	var b strings.Builder
	for _, m := range blockedRe.FindAllStringSubmatch(dump+"\n\n", -1) {
		if strings.Contains(m[2], "github.com/gopcua/opcua") {
			b.WriteString("[" + m[1] + "]\n" + m[2] + "\n\n")
		}
	}
	return tailStr(b.String(), max)
}

// deepProbe exercises the other services on the canary connection: every request must be answered (a
// ServiceFault is an answer). A lock left behind by somebody else's request shows up here.
func (e *c29Env) deepProbe() bool {
	if e.canary == nil {
		return false
	}
	ask := func(req ua.Request) interface{} {
		v, err := e.canary.Request(req, e.canTok, 3*time.Second)
		if err != nil {
			return nil
		}
		return v
	}
	v := ask(&ua.BrowseRequest{View: &ua.ViewDescription{ViewID: ua.NewTwoByteNodeID(0)}, NodesToBrowse: []*ua.BrowseDescription{{NodeID: ua.NewNumericNodeID(0, id.ObjectsFolder),
		BrowseDirection: 0, ReferenceTypeID: ua.NewTwoByteNodeID(0), IncludeSubtypes: true, ResultMask: 0x3f}}})
	if v == nil {
		return false
	}
	if v = ask(&ua.WriteRequest{NodesToWrite: []*ua.WriteValue{{NodeID: ua.NewStringNodeID(e.ns, "v0"), AttributeID: ua.AttributeIDValue, Value: &ua.DataValue{EncodingMask: 1, Value: ua.MustVariant(int64(1))}}}}); v == nil {
		return false
	}
	v = ask(&ua.CreateSubscriptionRequest{RequestedPublishingInterval: 1000, RequestedLifetimeCount: 100, RequestedMaxKeepAliveCount: 10, PublishingEnabled: false})
	if v == nil {
		return false
	}
	sid := uint32(0)
	if r, ok := v.(*ua.CreateSubscriptionResponse); ok {
		sid = r.SubscriptionID
	}
	v = ask(&ua.CreateMonitoredItemsRequest{SubscriptionID: sid, ItemsToCreate: []*ua.MonitoredItemCreateRequest{{ItemToMonitor: &ua.ReadValueID{NodeID: ua.NewStringNodeID(e.ns, "v0"), AttributeID: ua.AttributeIDValue, DataEncoding: &ua.QualifiedName{}},
		MonitoringMode: ua.MonitoringModeReporting, RequestedParameters: &ua.MonitoringParameters{ClientHandle: 1, SamplingInterval: 100, QueueSize: 1, Filter: ua.NewExtensionObject(nil)}}}})
	if v == nil {
		return false
	}
	mid := uint32(0)
	if r, ok := v.(*ua.CreateMonitoredItemsResponse); ok && len(r.Results) == 1 {
		mid = r.Results[0].MonitoredItemID
	}
	if v = ask(&ua.SetMonitoringModeRequest{SubscriptionID: sid, MonitoringMode: ua.MonitoringModeSampling, MonitoredItemIDs: []uint32{mid}}); v == nil {
		return false
	}
	if v = ask(&ua.DeleteMonitoredItemsRequest{SubscriptionID: sid, MonitoredItemIDs: []uint32{mid}}); v == nil {
		return false
	}
	if v = ask(&ua.DeleteSubscriptionsRequest{SubscriptionIDs: []uint32{sid}}); v == nil {
		return false
	}
	return true
}

// check asks the canary; on failure decides between crash, hang and load.
func (e *c29Env) check() bool {
	c := e.c
	probe := func(d time.Duration) bool {
		if e.canary == nil {
			return false
		}
		v, err := e.canary.Request(&ua.ReadRequest{NodesToRead: []*ua.ReadValueID{{NodeID: ua.NewStringNodeID(e.ns, "v0"), AttributeID: ua.AttributeIDValue, DataEncoding: &ua.QualifiedName{}}}}, e.canTok, d)
		if err != nil {
			return false
		}
		_, ok := v.(*ua.ReadResponse)
		return ok
	}
	if probe(3*time.Second) && e.deepProbe() {
		e.last = nil
		return true
	}
	witness := map[string]interface{}{"sent_since_last_good_canary": e.last}
	if !e.child.Alive() {
		_, stderr := e.child.Output()
		key, msg := fw.CrashKey(stderr)
		witness["stderr_tail"] = tailStr(stderr, 3000)
		c.Violation("c29:server-"+key, "the server process died: "+msg, witness)
	} else {
		// alive but silent: blocked or busy? look at its CPU clock while retrying on a fresh canary connection
		cpu0 := procCPU(e.child.Cmd.Process.Pid)
		answered := false
		for i := 0; i < 4 && !answered; i++ {
			if e.canary != nil {
				e.canary.Close()
			}
			ch, tok, err := refpeer.OpenSession(e.addr, e.endpoint)
			if err == nil {
				e.canary, e.canTok = ch, tok
				answered = probe(2 * time.Second)
			} else {
				e.canary = nil
				time.Sleep(time.Second)
			}
		}
		if answered {
			c.Class("canary:recovered-after-retry", 1)
			e.last = nil
			return true
		}
		cpu := procCPU(e.child.Cmd.Process.Pid) - cpu0
		dump := e.child.Dump()
		st, fr := dispatcherState(dump)
		witness["dispatcher_goroutine"] = st + " in " + fr
		witness["goroutines_in_gopcua"] = repoGoroutines(dump, 8000)
		if st == "?" {
			witness["dump_head"] = dump[:min(len(dump), 4000)]
		}
		witness["cpu_seconds_while_silent"] = cpu
		if cpu < 1.0 {
			c.Violation("c29:server-hang:"+fr, fmt.Sprintf("the server stopped answering other clients (dispatcher goroutine: %s in %s; %.2fs CPU used while silent)", st, fr, cpu), witness)
		} else {
			c.Inconclusive("server silent but busy (CPU advancing): load, not a verdict")
		}
	}
	// restart
	e.stop()
	e.restarts++
	e.last = nil
	if err := e.start(); err != nil {
		c.Inconclusive("server restart failed: " + err.Error())
		return false
	}
	return false
}

func (e *c29Env) send(cs c29Case, req ua.Request, tok *ua.NodeID, wait time.Duration) (interface{}, error) {
	e.last = append(e.last, cs)
	if len(e.last) > 12 {
		e.last = e.last[len(e.last)-12:]
	}
	if e.atk == nil {
		if err := e.newAttacker(); err != nil {
			return nil, err
		}
		if tok != nil {
			tok = e.atkTok
		}
	}
	v, err := e.atk.Request(req, tok, wait)
	if err != nil {
		e.newAttacker()
	}
	return v, err
}

type targeted struct {
	desc string
	run  func(e *c29Env, cs c29Case)
}

func c29Targeted() []targeted {
	sub := func(e *c29Env, cs c29Case, interval float64, life, keep uint32) uint32 {
		v, _ := e.send(cs, &ua.CreateSubscriptionRequest{RequestedPublishingInterval: interval, RequestedLifetimeCount: life, RequestedMaxKeepAliveCount: keep, PublishingEnabled: true}, e.atkTok, 2*time.Second)
		if r, ok := v.(*ua.CreateSubscriptionResponse); ok {
			return r.SubscriptionID
		}
		return 0
	}
	item := func(ns uint16, name string) *ua.MonitoredItemCreateRequest {
		return &ua.MonitoredItemCreateRequest{ItemToMonitor: &ua.ReadValueID{NodeID: ua.NewStringNodeID(ns, name), AttributeID: ua.AttributeIDValue, DataEncoding: &ua.QualifiedName{}},
			MonitoringMode: ua.MonitoringModeReporting, RequestedParameters: &ua.MonitoringParameters{ClientHandle: 1, SamplingInterval: 10, QueueSize: 1, Filter: ua.NewExtensionObject(nil)}}
	}
	var out []targeted
	add := func(desc string, f func(e *c29Env, cs c29Case)) { out = append(out, targeted{desc, f}) }
	add("SetMonitoringMode with an unknown monitored item id", func(e *c29Env, cs c29Case) {
		id := sub(e, cs, 100, 100, 10)
		e.send(cs, &ua.SetMonitoringModeRequest{SubscriptionID: id, MonitoringMode: ua.MonitoringModeDisabled, MonitoredItemIDs: []uint32{999999}}, e.atkTok, 2*time.Second)
	})
	add("DeleteMonitoredItems with an unknown monitored item id", func(e *c29Env, cs c29Case) {
		id := sub(e, cs, 100, 100, 10)
		e.send(cs, &ua.DeleteMonitoredItemsRequest{SubscriptionID: id, MonitoredItemIDs: []uint32{999999, 0}}, e.atkTok, 2*time.Second)
	})
	for _, iv := range []float64{0, -1, math.NaN(), math.Inf(1), 1e-9, 0.5, 1e300} {
		iv := iv
		add(fmt.Sprintf("CreateSubscription with publishing interval %v", iv), func(e *c29Env, cs c29Case) {
			sub(e, cs, iv, 3, 1)
			time.Sleep(30 * time.Millisecond)
		})
	}
	add("CreateSubscription with zero lifetime and keep-alive counts, then publish", func(e *c29Env, cs c29Case) {
		sub(e, cs, 10, 0, 0)
		e.send(cs, &ua.PublishRequest{SubscriptionAcknowledgements: []*ua.SubscriptionAcknowledgement{}}, e.atkTok, 300*time.Millisecond)
	})
	add("CreateMonitoredItems for an unknown subscription", func(e *c29Env, cs c29Case) {
		e.send(cs, &ua.CreateMonitoredItemsRequest{SubscriptionID: 424242, ItemsToCreate: []*ua.MonitoredItemCreateRequest{item(e.ns, "v1")}}, e.atkTok, 2*time.Second)
	})
	add("CreateMonitoredItems with unknown nodes, namespaces and attributes, then a write", func(e *c29Env, cs c29Case) {
		id := sub(e, cs, 10, 100, 10)
		its := []*ua.MonitoredItemCreateRequest{item(e.ns, "nope"), item(99, "v1"), item(e.ns, "v1")}
		its[2].ItemToMonitor.AttributeID = 9999
		e.send(cs, &ua.CreateMonitoredItemsRequest{SubscriptionID: id, ItemsToCreate: its}, e.atkTok, 2*time.Second)
		e.send(cs, &ua.WriteRequest{NodesToWrite: []*ua.WriteValue{{NodeID: ua.NewStringNodeID(e.ns, "v1"), AttributeID: ua.AttributeIDValue, Value: &ua.DataValue{EncodingMask: 1, Value: ua.MustVariant(int64(5))}}}}, e.atkTok, 2*time.Second)
	})
	add("DeleteSubscriptions twice and of unknown ids, publish afterwards", func(e *c29Env, cs c29Case) {
		id := sub(e, cs, 10, 100, 10)
		e.send(cs, &ua.DeleteSubscriptionsRequest{SubscriptionIDs: []uint32{id, id, 0, 77777}}, e.atkTok, 2*time.Second)
		e.send(cs, &ua.DeleteSubscriptionsRequest{SubscriptionIDs: []uint32{id}}, e.atkTok, 2*time.Second)
		e.send(cs, &ua.PublishRequest{SubscriptionAcknowledgements: []*ua.SubscriptionAcknowledgement{}}, e.atkTok, 300*time.Millisecond)
	})
	add("Browse with hierarchical reference type without subtypes, all directions", func(e *c29Env, cs c29Case) {
		for _, d := range []ua.BrowseDirection{0, 1, 2, 3, 99} {
			e.send(cs, &ua.BrowseRequest{View: &ua.ViewDescription{ViewID: ua.NewTwoByteNodeID(0)}, NodesToBrowse: []*ua.BrowseDescription{{NodeID: ua.NewNumericNodeID(0, id.ObjectsFolder),
				BrowseDirection: d, ReferenceTypeID: ua.NewNumericNodeID(0, id.HierarchicalReferences), IncludeSubtypes: false, ResultMask: 0x3f}}}, e.atkTok, 2*time.Second)
		}
	})
	add("Write an AccessLevel attribute without a value, then read the node", func(e *c29Env, cs c29Case) {
		n := ua.NewStringNodeID(e.ns, "v2")
		for _, a := range []ua.AttributeID{ua.AttributeIDAccessLevel, ua.AttributeIDUserAccessLevel, ua.AttributeIDNodeClass, ua.AttributeIDBrowseName, ua.AttributeIDDisplayName, ua.AttributeIDDataType} {
			e.send(cs, &ua.WriteRequest{NodesToWrite: []*ua.WriteValue{{NodeID: n, AttributeID: a, Value: &ua.DataValue{}}}}, e.atkTok, 2*time.Second)
			e.send(cs, &ua.ReadRequest{NodesToRead: []*ua.ReadValueID{{NodeID: n, AttributeID: ua.AttributeIDValue, DataEncoding: &ua.QualifiedName{}}, {NodeID: n, AttributeID: a, DataEncoding: &ua.QualifiedName{}}}}, e.atkTok, 2*time.Second)
			e.send(cs, &ua.BrowseRequest{View: &ua.ViewDescription{ViewID: ua.NewTwoByteNodeID(0)}, NodesToBrowse: []*ua.BrowseDescription{{NodeID: ua.NewNumericNodeID(e.ns, id.ObjectsFolder), BrowseDirection: 2, ReferenceTypeID: ua.NewTwoByteNodeID(0), IncludeSubtypes: true, ResultMask: 0x3f}}}, e.atkTok, 2*time.Second)
		}
	})
	add("Write wrong-typed values into standard attributes of namespace 0 nodes, then browse", func(e *c29Env, cs c29Case) {
		n := ua.NewNumericNodeID(0, id.Server)
		for _, a := range []ua.AttributeID{ua.AttributeIDBrowseName, ua.AttributeIDDisplayName, ua.AttributeIDNodeClass, ua.AttributeIDDataType, ua.AttributeIDDescription} {
			e.send(cs, &ua.WriteRequest{NodesToWrite: []*ua.WriteValue{{NodeID: n, AttributeID: a, Value: &ua.DataValue{EncodingMask: 1, Value: ua.MustVariant("x")}}}}, e.atkTok, 2*time.Second)
		}
		e.send(cs, &ua.BrowseRequest{View: &ua.ViewDescription{ViewID: ua.NewTwoByteNodeID(0)}, NodesToBrowse: []*ua.BrowseDescription{{NodeID: ua.NewNumericNodeID(0, id.ObjectsFolder), BrowseDirection: 2, ReferenceTypeID: ua.NewTwoByteNodeID(0), IncludeSubtypes: true, ResultMask: 0x3f}}}, e.atkTok, 2*time.Second)
		e.send(cs, &ua.ReadRequest{NodesToRead: []*ua.ReadValueID{{NodeID: n, AttributeID: ua.AttributeIDBrowseName, DataEncoding: &ua.QualifiedName{}}}}, e.atkTok, 2*time.Second)
	})
	add("Read and Write with 100000 operands", func(e *c29Env, cs c29Case) {
		rv := make([]*ua.ReadValueID, 100000)
		for i := range rv {
			rv[i] = &ua.ReadValueID{NodeID: ua.NewStringNodeID(e.ns, "v0"), AttributeID: ua.AttributeIDValue, DataEncoding: &ua.QualifiedName{}}
		}
		e.send(cs, &ua.ReadRequest{NodesToRead: rv}, e.atkTok, 10*time.Second)
	})
	add("Requests with nil-able members left empty", func(e *c29Env, cs c29Case) {
		e.send(cs, &ua.ReadRequest{}, e.atkTok, 2*time.Second)
		e.send(cs, &ua.WriteRequest{}, e.atkTok, 2*time.Second)
		e.send(cs, &ua.BrowseRequest{View: &ua.ViewDescription{ViewID: ua.NewTwoByteNodeID(0)}}, e.atkTok, 2*time.Second)
		e.send(cs, &ua.CreateMonitoredItemsRequest{}, e.atkTok, 2*time.Second)
		e.send(cs, &ua.CallRequest{}, e.atkTok, 2*time.Second)
		e.send(cs, &ua.TranslateBrowsePathsToNodeIDsRequest{}, e.atkTok, 2*time.Second)
	})
	add("Subscription on a connection that is then closed while notifications are due", func(e *c29Env, cs c29Case) {
		id := sub(e, cs, 5, 1000, 5)
		e.send(cs, &ua.CreateMonitoredItemsRequest{SubscriptionID: id, ItemsToCreate: []*ua.MonitoredItemCreateRequest{item(e.ns, "v3")}}, e.atkTok, 2*time.Second)
		for i := 0; i < 5 && e.atk != nil; i++ {
			e.atk.SendRequest(&ua.PublishRequest{SubscriptionAcknowledgements: []*ua.SubscriptionAcknowledgement{}}, e.atkTok, refpeer.SendOpts{})
		}
		e.newAttacker()
		for i := 0; i < 150; i++ {
			e.send(cs, &ua.WriteRequest{NodesToWrite: []*ua.WriteValue{{NodeID: ua.NewStringNodeID(e.ns, "v3"), AttributeID: ua.AttributeIDValue, Value: &ua.DataValue{EncodingMask: 1, Value: ua.MustVariant(int64(i))}}}}, e.atkTok, 2*time.Second)
		}
	})
	add("Client that subscribes, never sends a publish request and never reads, while the value changes 400 times", func(e *c29Env, cs c29Case) {
		id := sub(e, cs, 5, 100000, 5)
		e.send(cs, &ua.CreateMonitoredItemsRequest{SubscriptionID: id, ItemsToCreate: []*ua.MonitoredItemCreateRequest{item(e.ns, "v3")}}, e.atkTok, 2*time.Second)
		w, wt, err := refpeer.OpenSession(e.addr, e.endpoint)
		if err != nil {
			return
		}
		defer w.Close()
		for i := 0; i < 400; i++ {
			if _, err := w.Request(&ua.WriteRequest{NodesToWrite: []*ua.WriteValue{{NodeID: ua.NewStringNodeID(e.ns, "v3"), AttributeID: ua.AttributeIDValue, Value: &ua.DataValue{EncodingMask: 1, Value: ua.MustVariant(int64(i))}}}}, wt, 2*time.Second); err != nil {
				break
			}
		}
	})
	add("Subscription that times out (no publish requests, lifetime count 3, 5 ms) while another client keeps writing the monitored node", func(e *c29Env, cs c29Case) {
		for round := 0; round < 4; round++ {
			id := sub(e, cs, 5, 3, 1)
			e.send(cs, &ua.CreateMonitoredItemsRequest{SubscriptionID: id, ItemsToCreate: []*ua.MonitoredItemCreateRequest{item(e.ns, "v3")}}, e.atkTok, 2*time.Second)
		}
		w, wt, err := refpeer.OpenSession(e.addr, e.endpoint)
		if err != nil {
			return
		}
		defer w.Close()
		for i := 0; i < 600; i++ {
			if _, err := w.Request(&ua.WriteRequest{NodesToWrite: []*ua.WriteValue{{NodeID: ua.NewStringNodeID(e.ns, "v3"), AttributeID: ua.AttributeIDValue, Value: &ua.DataValue{EncodingMask: 1, Value: ua.MustVariant(int64(i))}}}}, wt, 2*time.Second); err != nil {
				break
			}
		}
	})
	add("Subscriber that keeps publish requests queued but never reads the 60 kB notifications, while another client keeps writing the monitored node", func(e *c29Env, cs c29Case) {
		id := sub(e, cs, 2, 1000, 5)
		e.send(cs, &ua.CreateMonitoredItemsRequest{SubscriptionID: id, ItemsToCreate: []*ua.MonitoredItemCreateRequest{item(e.ns, "v3")}}, e.atkTok, 2*time.Second)
		if e.atk != nil {
			e.atk.Conn.SetWriteDeadline(time.Now().Add(3 * time.Second))
			for i := 0; i < 400; i++ {
				if _, err := e.atk.SendRequest(&ua.PublishRequest{SubscriptionAcknowledgements: []*ua.SubscriptionAcknowledgement{}}, e.atkTok, refpeer.SendOpts{}); err != nil {
					break
				}
			}
		}
		w, wt, err := refpeer.OpenSession(e.addr, e.endpoint)
		if err != nil {
			return
		}
		defer w.Close()
		big := make([]byte, 60000)
		for i := 0; i < 500; i++ {
			big[0] = byte(i)
			if _, err := w.Request(&ua.WriteRequest{NodesToWrite: []*ua.WriteValue{{NodeID: ua.NewStringNodeID(e.ns, "v3"), AttributeID: ua.AttributeIDValue, Value: &ua.DataValue{EncodingMask: 1, Value: ua.MustVariant(big)}}}}, wt, 8*time.Second); err != nil {
				break
			}
		}
	})
	add("DeleteSubscriptions immediately followed by CreateMonitoredItems, pipelined, 300 times", func(e *c29Env, cs c29Case) {
		for k := 0; k < 300 && e.atk != nil; k++ {
			id := sub(e, cs, 50, 100, 10)
			id2 := sub(e, cs, 50, 100, 10)
			if id == 0 || id2 == 0 {
				return
			}
			r1, err1 := e.atk.SendRequest(&ua.DeleteSubscriptionsRequest{SubscriptionIDs: []uint32{id}}, e.atkTok, refpeer.SendOpts{})
			r2, err2 := e.atk.SendRequest(&ua.CreateMonitoredItemsRequest{SubscriptionID: id2, ItemsToCreate: []*ua.MonitoredItemCreateRequest{item(e.ns, "v1")}}, e.atkTok, refpeer.SendOpts{})
			if err1 != nil || err2 != nil {
				return
			}
			if _, err := e.atk.Await(r1, 2*time.Second); err != nil {
				return
			}
			if _, err := e.atk.Await(r2, 2*time.Second); err != nil {
				return
			}
			e.atk.Request(&ua.DeleteSubscriptionsRequest{SubscriptionIDs: []uint32{id2}}, e.atkTok, 2*time.Second)
		}
	})
	add("CloseSession with unknown, made-up and already closed tokens and DeleteSubscriptions set, while a subscription of another session exists", func(e *c29Env, cs c29Case) {
		id := sub(e, cs, 100, 1000, 10)
		_ = id
		if ch, tok, err := refpeer.OpenSession(e.addr, e.endpoint); err == nil {
			ch.Request(&ua.CloseSessionRequest{DeleteSubscriptions: true}, tok, 2*time.Second)
			ch.Request(&ua.CloseSessionRequest{DeleteSubscriptions: true}, tok, 2*time.Second) // a second time: the token is closed now
			for _, t := range []*ua.NodeID{ua.NewNumericNodeID(0, 0x7ffffff3), ua.NewGUIDNodeID(1, "12345678-1234-1234-1234-123456789abc"), ua.NewTwoByteNodeID(0), ua.NewStringNodeID(3, "x")} {
				ch.Request(&ua.CloseSessionRequest{DeleteSubscriptions: true}, t, time.Second)
				ch.Request(&ua.CloseSessionRequest{DeleteSubscriptions: false}, t, time.Second)
			}
			ch.Close()
		}
	})
	add("Client that requests large responses and never reads them", func(e *c29Env, cs c29Case) {
		rv := make([]*ua.ReadValueID, 20000) // about 1.6 MB per response: some 25 chunks each
		for i := range rv {
			rv[i] = &ua.ReadValueID{NodeID: ua.NewNumericNodeID(0, id.Server_NamespaceArray), AttributeID: ua.AttributeIDValue, DataEncoding: &ua.QualifiedName{}}
		}
		if e.atk != nil {
			e.atk.Conn.SetWriteDeadline(time.Now().Add(4 * time.Second)) // our own writes block once the server stops reading
		}
		for i := 0; i < 300 && e.atk != nil; i++ {
			if _, err := e.atk.SendRequest(&ua.ReadRequest{NodesToRead: rv}, e.atkTok, refpeer.SendOpts{}); err != nil {
				break
			}
		}
		time.Sleep(500 * time.Millisecond)
	})
	return out
}

func c29Run(c *fw.Ctx) error {
	reg := gen.LoadRegistry()
	types := requestTypes(reg)
	e := &c29Env{c: c}
	if err := e.start(); err != nil {
		return err
	}
	defer e.stop()
	idx := int64(0)
	mine := func(i int64) bool { return int(i%int64(c.NBatch)) == c.Batch && i >= c.Resume }

	// 1. targeted requests
	for _, t := range c29Targeted() {
		i := idx
		idx++
		if !mine(i) {
			continue
		}
		cs := c29Case{Kind: "targeted", Index: i, Session: true, Desc: t.desc}
		c.Journal(i, cs)
		t.run(e, cs)
		c.Eval(1)
		c.Class("targeted", 1)
		c.Nontrivial("targeted:" + t.desc)
		e.check()
		c.Done(i)
	}

	// 2. every request type with generated fields, with and without a session
	reps := int64(c.Pick(12, 1500))
	for _, t := range types {
		name := t.Type.Elem().Name()
		if name == "CloseSessionRequest" || name == "CloseSecureChannelRequest" {
			continue
		}
		for k := int64(0); k < reps; k++ {
			i := idx
			idx++
			if !mine(i) {
				continue
			}
			r := c.Rng("c29", i)
			g := gen.New(r, reg)
			g.MaxDepth = 2
			var req ua.Request
			if pn := fw.Catch(func() { req = g.Value(t.Type).Interface().(ua.Request) }); pn != nil {
				continue
			}
			cs := c29Case{Kind: "generated", Type: name, Index: i, Session: k%4 != 3}
			if b, err := ua.Encode(req); err == nil {
				cs.Hex = hexTrunc(b)
			}
			tok := e.atkTok
			if !cs.Session {
				tok = nil
			}
			c.Journal(i, cs)
			wait := 400 * time.Millisecond
			if name == "PublishRequest" {
				wait = 50 * time.Millisecond
			}
			e.send(cs, req, tok, wait)
			c.Eval(1)
			c.Class("generated:"+name, 1)
			c.Nontrivial(fmt.Sprintf("gen:%s:%d", name, k))
			if k%4 == 3 || k == reps-1 {
				e.check()
			}
			c.Done(i)
		}
	}

	// 2b. stateful multi-session scenarios
	nsc := int64(c.Pick(48, 4000))
	for k := int64(0); k < nsc; k++ {
		i := idx
		idx++
		if !mine(i) {
			continue
		}
		r := c.Rng("c29scn", i)
		cs := c29Case{Kind: "scenario", Index: i, Session: true}
		c.Journal(i, cs)
		c29Scenario(e, r, &cs)
		e.last = append(e.last, cs)
		c.Eval(1)
		c.Class("scenario", 1)
		c.Nontrivial(fmt.Sprintf("scenario:%d", i))
		e.check()
		c.Done(i)
	}

	// 3. raw fuzz: mutated chunks on an open channel
	nf := int64(c.Pick(300, 30000))
	for k := int64(0); k < nf; k++ {
		i := idx
		idx++
		if !mine(i) {
			continue
		}
		r := c.Rng("c29raw", i)
		cs := c29Case{Kind: "raw-fuzz", Index: i, Session: true}
		c.Journal(i, cs)
		c29Raw(e, r, &cs)
		c.Eval(1)
		c.Class("raw-fuzz", 1)
		c.NontrivialBytes([]byte(cs.Hex))
		if k%10 == 9 {
			e.check()
		}
		c.Done(i)
	}
	e.check()
	c.Extra("sum_server_restarts", e.restarts)
	c.Sample(map[string]interface{}{"request_types": len(types), "targeted": len(c29Targeted())})
	return nil
}

// c29Scenario is one stateful multi-session history: up to three attacker sessions issue a random sequence of
// subscription, monitored item, publish, write, session and connection operations with ids drawn from their
// own, each other's and unknown ids, with short publishing intervals and pauses so that the timer-driven paths
// of the server run while the sessions change under them.
func c29Scenario(e *c29Env, r *rand.Rand, cs *c29Case) {
	type sess struct {
		ch  *refpeer.Channel
		tok *ua.NodeID
	}
	ss := make([]*sess, 3)
	open := func(i int) {
		if ss[i] != nil && ss[i].ch != nil {
			ss[i].ch.Close()
		}
		ss[i] = &sess{}
		if ch, tok, err := refpeer.OpenSession(e.addr, e.endpoint); err == nil {
			ss[i].ch, ss[i].tok = ch, tok
		}
	}
	for i := range ss {
		open(i)
	}
	defer func() {
		for _, x := range ss {
			if x != nil && x.ch != nil {
				x.ch.Close()
			}
		}
	}()
	var subs, items []uint32
	subOf := map[uint32]uint32{} // item -> subscription
	pick := func(ids []uint32) uint32 {
		switch k := r.Intn(10); {
		case k == 0 || len(ids) == 0:
			return uint32(r.Intn(5)) * 100000
		default:
			return ids[r.Intn(len(ids))]
		}
	}
	var steps []string
	note := func(f string, a ...interface{}) { steps = append(steps, fmt.Sprintf(f, a...)) }
	defer func() { cs.Desc = strings.Join(steps, "; ") }()
	nsteps := 12 + r.Intn(30)
	for k := 0; k < nsteps; k++ {
		si := r.Intn(len(ss))
		x := ss[si]
		if x.ch == nil {
			open(si)
			if x = ss[si]; x.ch == nil {
				continue
			}
		}
		ask := func(req ua.Request, wait time.Duration) interface{} {
			v, err := x.ch.Request(req, x.tok, wait)
			if err != nil {
				open(si) // connection unusable (timeout, fault that closed it): start over with a new session
				return nil
			}
			return v
		}
		node := ua.NewStringNodeID(e.ns, fmt.Sprintf("v%d", r.Intn(5)))
		switch op := r.Intn(20); op {
		case 0, 1:
			iv := []float64{1, 5, 10, 20, 50}[r.Intn(5)]
			v := ask(&ua.CreateSubscriptionRequest{RequestedPublishingInterval: iv, RequestedLifetimeCount: uint32([]int{0, 3, 10, 1000}[r.Intn(4)]),
				RequestedMaxKeepAliveCount: uint32([]int{0, 1, 2, 5}[r.Intn(4)]), PublishingEnabled: r.Intn(4) > 0, MaxNotificationsPerPublish: uint32(r.Intn(3))}, 2*time.Second)
			if rr, ok := v.(*ua.CreateSubscriptionResponse); ok {
				subs = append(subs, rr.SubscriptionID)
				note("s%d CreateSubscription(%v)=%d", si, iv, rr.SubscriptionID)
			}
		case 2, 3:
			sid := pick(subs)
			v := ask(&ua.CreateMonitoredItemsRequest{SubscriptionID: sid, ItemsToCreate: []*ua.MonitoredItemCreateRequest{{ItemToMonitor: &ua.ReadValueID{NodeID: node, AttributeID: ua.AttributeIDValue, DataEncoding: &ua.QualifiedName{}},
				MonitoringMode: ua.MonitoringMode(r.Intn(4)), RequestedParameters: &ua.MonitoringParameters{ClientHandle: uint32(r.Intn(5)), SamplingInterval: float64(r.Intn(20)), QueueSize: uint32(r.Intn(3)), Filter: ua.NewExtensionObject(nil)}}}}, 2*time.Second)
			note("s%d CreateMonitoredItems(sub %d)", si, sid)
			if rr, ok := v.(*ua.CreateMonitoredItemsResponse); ok {
				for _, it := range rr.Results {
					if it != nil && it.StatusCode == ua.StatusOK {
						items = append(items, it.MonitoredItemID)
						subOf[it.MonitoredItemID] = sid
					}
				}
			}
		case 4:
			it := pick(items)
			note("s%d SetMonitoringMode(item %d)", si, it)
			ask(&ua.SetMonitoringModeRequest{SubscriptionID: []uint32{subOf[it], pick(subs)}[r.Intn(2)], MonitoringMode: ua.MonitoringMode(r.Intn(4)), MonitoredItemIDs: []uint32{it, pick(items)}}, 2*time.Second)
		case 5:
			it := pick(items)
			note("s%d DeleteMonitoredItems(item %d)", si, it)
			ask(&ua.DeleteMonitoredItemsRequest{SubscriptionID: []uint32{subOf[it], pick(subs)}[r.Intn(2)], MonitoredItemIDs: []uint32{it}}, 2*time.Second)
		case 6:
			it := pick(items)
			note("s%d ModifyMonitoredItems(item %d)", si, it)
			ask(&ua.ModifyMonitoredItemsRequest{SubscriptionID: subOf[it], ItemsToModify: []*ua.MonitoredItemModifyRequest{{MonitoredItemID: it, RequestedParameters: &ua.MonitoringParameters{ClientHandle: 9, SamplingInterval: 1, QueueSize: 1, Filter: ua.NewExtensionObject(nil)}}}}, 2*time.Second)
		case 7:
			sid := pick(subs)
			note("s%d DeleteSubscriptions(%d)", si, sid)
			ask(&ua.DeleteSubscriptionsRequest{SubscriptionIDs: []uint32{sid}}, 2*time.Second)
		case 8:
			sid := pick(subs)
			note("s%d ModifySubscription/SetPublishingMode(%d)", si, sid)
			ask(&ua.ModifySubscriptionRequest{SubscriptionID: sid, RequestedPublishingInterval: float64(r.Intn(30)), RequestedLifetimeCount: uint32(r.Intn(10)), RequestedMaxKeepAliveCount: uint32(r.Intn(4))}, 2*time.Second)
			ask(&ua.SetPublishingModeRequest{PublishingEnabled: r.Intn(2) == 0, SubscriptionIDs: []uint32{sid, pick(subs)}}, 2*time.Second)
		case 9:
			sid := pick(subs)
			note("s%d Republish/Transfer(%d)", si, sid)
			ask(&ua.RepublishRequest{SubscriptionID: sid, RetransmitSequenceNumber: uint32(r.Intn(4))}, 2*time.Second)
			ask(&ua.TransferSubscriptionsRequest{SubscriptionIDs: []uint32{sid}, SendInitialValues: r.Intn(2) == 0}, 2*time.Second)
		case 10, 11, 12:
			n := 1 + r.Intn(4)
			note("s%d %d x Publish (not awaited)", si, n)
			for j := 0; j < n; j++ {
				var acks []*ua.SubscriptionAcknowledgement
				if r.Intn(2) == 0 {
					acks = append(acks, &ua.SubscriptionAcknowledgement{SubscriptionID: pick(subs), SequenceNumber: uint32(r.Intn(5))})
				}
				if _, err := x.ch.SendRequest(&ua.PublishRequest{SubscriptionAcknowledgements: acks}, x.tok, refpeer.SendOpts{}); err != nil {
					open(si)
					break
				}
			}
		case 13, 14:
			note("s%d Write", si)
			ask(&ua.WriteRequest{NodesToWrite: []*ua.WriteValue{{NodeID: node, AttributeID: ua.AttributeIDValue, Value: &ua.DataValue{EncodingMask: 1, Value: ua.MustVariant(int64(r.Intn(1000)))}}}}, 2*time.Second)
		case 15:
			del := r.Intn(2) == 0
			note("s%d CloseSession(deleteSubscriptions=%v), new session", si, del)
			x.ch.Request(&ua.CloseSessionRequest{DeleteSubscriptions: del}, x.tok, 2*time.Second)
			if r.Intn(2) == 0 { // keep using the closed session's token for a moment
				x.ch.Request(&ua.PublishRequest{}, x.tok, 100*time.Millisecond)
			}
			open(si)
		case 16:
			note("s%d connection dropped, new session", si)
			open(si)
		case 17:
			sid := pick(subs)
			note("s%d Call GetMonitoredItems(%d)", si, sid)
			ask(&ua.CallRequest{MethodsToCall: []*ua.CallMethodRequest{{ObjectID: ua.NewNumericNodeID(0, id.Server), MethodID: ua.NewNumericNodeID(0, id.Server_GetMonitoredItems), InputArguments: []*ua.Variant{ua.MustVariant(sid)}}}}, 2*time.Second)
		default:
			d := time.Duration(20+r.Intn(120)) * time.Millisecond
			note("pause %v", d)
			time.Sleep(d)
		}
		if !e.child.Alive() {
			note("server process gone after this step")
			return
		}
	}
	// let keep-alive and lifetime timers of whatever is left run
	time.Sleep(150 * time.Millisecond)
}

// c29Raw sends a valid request whose chunk bytes were mutated (the channel is None/None, so the
// mutation reaches the message decoder), then drops the connection.
func c29Raw(e *c29Env, r *rand.Rand, cs *c29Case) {
	ch, tok, err := refpeer.OpenSession(e.addr, e.endpoint)
	if err != nil {
		return
	}
	defer ch.Close()
	reqs := []ua.Request{
		&ua.ReadRequest{NodesToRead: []*ua.ReadValueID{{NodeID: ua.NewStringNodeID(e.ns, "v0"), AttributeID: ua.AttributeIDValue, DataEncoding: &ua.QualifiedName{}}}},
		&ua.WriteRequest{NodesToWrite: []*ua.WriteValue{{NodeID: ua.NewStringNodeID(e.ns, "v1"), AttributeID: ua.AttributeIDValue, Value: &ua.DataValue{EncodingMask: 1, Value: ua.MustVariant(int64(7))}}}},
		&ua.BrowseRequest{View: &ua.ViewDescription{ViewID: ua.NewTwoByteNodeID(0)}, NodesToBrowse: []*ua.BrowseDescription{{NodeID: ua.NewNumericNodeID(0, id.ObjectsFolder), BrowseDirection: 2, ReferenceTypeID: ua.NewTwoByteNodeID(0), IncludeSubtypes: true, ResultMask: 0x3f}}},
		&ua.CreateSubscriptionRequest{RequestedPublishingInterval: 100, RequestedLifetimeCount: 10, RequestedMaxKeepAliveCount: 3, PublishingEnabled: true},
		&ua.CallRequest{MethodsToCall: []*ua.CallMethodRequest{{ObjectID: ua.NewNumericNodeID(0, id.Server), MethodID: ua.NewNumericNodeID(0, id.Server_GetMonitoredItems), InputArguments: []*ua.Variant{ua.MustVariant(uint32(1))}}}},
	}
	req := reqs[r.Intn(len(reqs))]
	ch.SendRequest(req, tok, refpeer.SendOpts{ChunkHook: func(i, n int, chunk []byte) []byte {
		out := chunk
		for k := 0; k < 1+r.Intn(3); k++ {
			// keep the 8 byte transport header intact most of the time so that the frame is read completely
			body, mut := gen.Mutate(r, out[8:], nil)
			cs.Desc += mut + " "
			out = append(append([]byte{}, out[:8]...), body...)
		}
		if r.Intn(4) > 0 {
			out[4], out[5], out[6], out[7] = byte(len(out)), byte(len(out)>>8), byte(len(out)>>16), byte(len(out)>>24)
		}
		cs.Hex = hexTrunc(out)
		return out
	}})
	ch.Conn.SetReadDeadline(time.Now().Add(100 * time.Millisecond))
	ch.ReadMsg()
}

func init() {
	fw.Register("C29", fw.Spec{
		Plan: func(tier string) fw.Plan {
			p := fw.Plan{Batches: 8, TimeoutS: 1200, MinNontrivial: 300, Level: "exploration",
				Rule:        "real server in a child process per batch; the independent scripted client sends (1) targeted requests (unknown/foreign ids, publishing intervals 0/NaN/negative/huge, zero counts, empty members, 100000 operands, attribute writes that corrupt later reads, subscriptions on dropped connections, clients that never read), (2) every registered request type with generated field values with and without a session, (3) stateful multi-session scenarios (3 sessions x 12-40 random subscription / monitored item / publish / write / CloseSession / connection-drop operations on own, foreign and unknown ids with publishing intervals of 1-50 ms and pauses), (4) raw mutated chunks; after each group a canary client on its own connection must get answers to Read, Browse, Write and a CreateSubscription/CreateMonitoredItems/SetMonitoringMode/DeleteMonitoredItems/DeleteSubscriptions cycle; oracle: the server process is alive and the canary is answered; a silent server is a hang only if its CPU clock stands still (goroutine dump attached), otherwise inconclusive; distinct = distinct requests sent",
				Assumptions: []string{"the canary waits 3 s and retries 4 times on fresh connections before a verdict"}}
			if tier == "thorough" {
				p.Batches, p.TimeoutS, p.MinNontrivial = 16, 3400, 20000
			}
			return p
		},
		Run: c29Run,
		Replay: func(c *fw.Ctx, raw json.RawMessage) error {
			return fmt.Errorf("re-run the check with the same seed (the witness lists the requests sent before the failure)")
		},
	})
}
