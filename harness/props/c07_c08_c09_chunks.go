package props

import (
	"bytes"
	"encoding/binary"
	"encoding/hex"
	"encoding/json"
	"fmt"
	"math/rand"

	"github.com/gopcua/opcua/id"
	"github.com/gopcua/opcua/ua"
	"github.com/gopcua/opcua/uapolicy"
	"github.com/gopcua/opcua/uasc"

	"verifharness/fw"
	"verifharness/gen"
	"verifharness/keys"
	"verifharness/refpeer"
)

// In-process chunk monitors built on the detached channel instances of the uasc hook:
//   C07  gopcua sender -> gopcua receiver: chunking round-trips, chunk invariants
//   C08  gopcua <-> refpeer (independent Part 6 implementation), both directions, MSG/CLO and OPN
//   C09  tampered / truncated / forged chunks are rejected by the real verifyAndDecrypt

type chunkCase struct {
	Policy    string `json:"policy"`
	Mode      int    `json:"mode"`
	ChunkSize int    `json:"chunk_size"`
	Body      int    `json:"body_len"`
	Seq       uint32 `json:"first_seq"`
	Nonces    string `json:"nonces_hex,omitempty"`
	LocalBits int    `json:"client_key_bits,omitempty"`
	RemBits   int    `json:"server_key_bits,omitempty"`
	What      string `json:"what"`
	Detail    string `json:"detail,omitempty"`
}

type symPair struct {
	p                *refpeer.Policy
	uri              string
	mode             int
	cn, sn           []byte
	cliAlgo, srvAlgo *uapolicy.EncryptionAlgorithm
	cfg              *uasc.Config
}

func newSymPair(uri string, mode int, cn, sn []byte) (*symPair, error) {
	sp := &symPair{uri: uri, mode: mode, cn: cn, sn: sn, p: refpeer.PolicyByURI(uri)}
	var err error
	if uri == refpeer.URINone {
		sp.cliAlgo, err = uapolicy.Symmetric(uri, nil, nil)
		if err != nil {
			return nil, err
		}
		sp.srvAlgo, err = uapolicy.Symmetric(uri, nil, nil)
	} else {
		sp.cliAlgo, err = uapolicy.Symmetric(uri, cn, sn)
		if err != nil {
			return nil, err
		}
		sp.srvAlgo, err = uapolicy.Symmetric(uri, sn, cn)
	}
	sp.cfg = &uasc.Config{SecurityPolicyURI: uri, SecurityMode: ua.MessageSecurityMode(mode)}
	return sp, err
}

func (sp *symPair) gopcua(client bool, chunkSize int, seq uint32) *uasc.VerifInstance {
	algo := sp.srvAlgo
	if client {
		algo = sp.cliAlgo
	}
	inst := uasc.VerifNewInstance(sp.cfg, algo, 77, 99, seq)
	inst.SetMaximumBodySize(chunkSize)
	return inst
}

func (sp *symPair) ref(client bool) *refpeer.SymCtx {
	return refpeer.NewSymCtx(sp.p, sp.mode, sp.cn, sp.sn, client, 77, 99)
}

// wireBody is the message body as Part 6 defines it: type id followed by the service, encoded with the ua codec.
func wireBody(svc interface{}) []byte {
	tid, _ := ua.NewFourByteExpandedNodeID(0, ua.ServiceTypeID(svc)).Encode()
	b, err := ua.Encode(svc)
	if err != nil {
		panic(err)
	}
	return append(tid, b...)
}

func nextSeq(prev uint32) (uint32, bool) { // the successor per Part 6: +1, or a wrap to a value < 1024 once beyond 2^32-1024
	return prev + 1, prev >= 0xffffffff-1024
}

func seqOK(prev, cur uint32) bool {
	if cur == prev+1 && prev != 0xffffffff {
		return true
	}
	return prev >= 0xffffffff-1024-1 && cur < 1024
}

// checkChunks applies the C07 chunk invariants to what gopcua emitted, as seen by an opener.
func checkChunks(raw [][]byte, chunkSize int, open func([]byte) (typ byte, seq, req uint32, body []byte, err error)) (joined []byte, why string) {
	var prev uint32
	for i, ch := range raw {
		if len(ch) > chunkSize {
			return nil, fmt.Sprintf("oversize: chunk %d/%d has %d bytes > negotiated %d", i, len(raw), len(ch), chunkSize)
		}
		if int(binary.LittleEndian.Uint32(ch[4:])) != len(ch) {
			return nil, fmt.Sprintf("messagesize: chunk %d MessageSize=%d length=%d", i, binary.LittleEndian.Uint32(ch[4:]), len(ch))
		}
		typ, seq, req, body, err := open(ch)
		if err != nil {
			return nil, fmt.Sprintf("open: chunk %d/%d rejected by the receiver: %v", i, len(raw), err)
		}
		want := byte('C')
		if i == len(raw)-1 {
			want = 'F'
		}
		if typ != want {
			return nil, fmt.Sprintf("chunktype: chunk %d/%d is %q, want %q", i, len(raw), typ, want)
		}
		if req != 4242 {
			return nil, fmt.Sprintf("requestid: chunk %d carries request id %d", i, req)
		}
		if i > 0 && !seqOK(prev, seq) {
			return nil, fmt.Sprintf("sequence: chunk %d has sequence number %d after %d", i, seq, prev)
		}
		prev = seq
		joined = append(joined, body...)
	}
	return joined, ""
}

func classOf(why string) string {
	for i := 0; i < len(why); i++ {
		if why[i] == ':' {
			return why[:i]
		}
	}
	return why
}

// ---- C07 ----

func c07One(c *fw.Ctx, cs chunkCase, sp *symPair) {
	svc, err := bodyOfSize(cs.Body)
	if err != nil {
		return
	}
	want := wireBody(svc)
	c.Eval(1)
	c.Class(fmt.Sprintf("mode:%d", cs.Mode), 1)
	c.Nontrivial(fmt.Sprintf("%s/%d/%d/%d", cs.Policy, cs.Mode, cs.ChunkSize, cs.Body))
	var raw [][]byte
	var maxBody uint32
	var merged []byte
	var why string
	if pn := fw.Catch(func() {
		snd := sp.gopcua(true, cs.ChunkSize, cs.Seq)
		maxBody = snd.MaxBodySize()
		msg := snd.NewMessage(svc, ua.ServiceTypeID(svc), 4242)
		raw, err = snd.EncodeAndSecure(msg)
		if err != nil {
			why = "encode: " + err.Error()
			return
		}
		rcv := sp.gopcua(false, cs.ChunkSize, 1)
		var got []*uasc.MessageChunk
		_, why = checkChunks(raw, cs.ChunkSize, func(ch []byte) (byte, uint32, uint32, []byte, error) {
			m, err := rcv.VerifyAndDecrypt(ch)
			if err != nil {
				return 0, 0, 0, nil, err
			}
			got = append(got, m)
			return m.Header.ChunkType, m.SequenceHeader.SequenceNumber, m.SequenceHeader.RequestID, m.Data, nil
		})
		if why != "" {
			return
		}
		merged, err = uasc.VerifMergeChunks(got)
		if err != nil {
			why = "merge: " + err.Error()
		}
	}); pn != nil {
		cs.Detail = pn.Msg
		c.Violation("c07-"+pn.Key(), "chunking panicked: "+pn.Msg, cs)
		return
	}
	c.Class(fmt.Sprintf("chunks:%d", min(len(raw), 6)), 1)
	if maxBody > 0 {
		switch {
		case cs.Body%int(maxBody) == 0:
			c.Class("body:exact-multiple-of-max", 1)
		case cs.Body%int(maxBody) == 1 || cs.Body%int(maxBody) == int(maxBody)-1:
			c.Class("body:multiple+-1", 1)
		}
	}
	if why != "" {
		cs.Detail = why
		c.Violation("c07:"+classOf(why)+fmt.Sprintf(":mode=%d", cs.Mode), why, cs)
		return
	}
	if !bytes.Equal(merged, want) {
		cs.Detail = fmt.Sprintf("reassembled %d bytes, sent %d bytes (first difference at %d)", len(merged), len(want), firstDiff(merged, want))
		c.Violation(fmt.Sprintf("c07:reassembly-differs:mode=%d", cs.Mode), cs.Detail, cs)
		return
	}
	if dsvc, err := uasc.VerifDecodeService(merged); err != nil {
		cs.Detail = err.Error()
		c.Violation("c07:service-does-not-decode", cs.Detail, cs)
	} else if d := gen.Equal(svc, dsvc); d != "" {
		cs.Detail = d
		c.Violation("c07:service-differs", d, cs)
	}
}

func firstDiff(a, b []byte) int {
	for i := 0; i < len(a) && i < len(b); i++ {
		if a[i] != b[i] {
			return i
		}
	}
	return min(len(a), len(b))
}

func min(a, b int) int {
	if a < b {
		return a
	}
	return b
}

type polMode struct {
	uri  string
	mode int
}

func allPolModes() []polMode {
	out := []polMode{{refpeer.URINone, 1}}
	for _, p := range refpeer.Policies {
		out = append(out, polMode{p.URI, 2}, polMode{p.URI, 3})
	}
	return out
}

func randNonces(r *rand.Rand, uri string) (cn, sn []byte) {
	n := 32
	if p := refpeer.PolicyByURI(uri); p != nil {
		n = p.NonceLen
	}
	cn, sn = make([]byte, n), make([]byte, n)
	r.Read(cn)
	r.Read(sn)
	return
}

func c07ChunkSizes(r *rand.Rand) int {
	switch r.Intn(6) {
	case 0:
		return 8192 + r.Intn(64)
	case 1:
		return 8192 + r.Intn(4096)
	case 2:
		return []int{8192, 8193, 16384, 65535, 65536}[r.Intn(5)]
	case 3:
		return 8192 << uint(r.Intn(7))
	default:
		return 8192 + r.Intn(1<<16)
	}
}

func c07Run(c *fw.Ctx) error {
	pms := allPolModes()
	n := int64(c.Pick(3000, 150000))
	for i := int64(0); i < n; i++ {
		if int(i%int64(c.NBatch)) != c.Batch || i < c.Resume {
			continue
		}
		r := c.Rng("c07", i)
		pm := pms[int(i)%len(pms)]
		cn, sn := randNonces(r, pm.uri)
		sp, err := newSymPair(pm.uri, pm.mode, cn, sn)
		if err != nil {
			return err
		}
		cs := chunkCase{Policy: pm.uri, Mode: pm.mode, ChunkSize: c07ChunkSizes(r), What: "gopcua->gopcua",
			Nonces: hex.EncodeToString(cn) + "/" + hex.EncodeToString(sn)}
		mb := int(sp.gopcua(true, cs.ChunkSize, 1).MaxBodySize())
		k := 1 + r.Intn(4)
		switch r.Intn(6) {
		case 0:
			cs.Body = k * mb
		case 1:
			cs.Body = k*mb - 1
		case 2:
			cs.Body = k*mb + 1
		case 3:
			cs.Body = 70 + r.Intn(200)
		default:
			cs.Body = 70 + r.Intn(k*mb)
		}
		if cs.ChunkSize > 1<<18 && k > 2 {
			cs.Body = mb + r.Intn(3) - 1
		}
		cs.Seq = []uint32{1, 2, uint32(r.Intn(1 << 20)), 0xffffffff - 1024 - uint32(r.Intn(6)), 0xffffffff - 1030}[r.Intn(5)]
		c.Journal(i, cs)
		c07One(c, cs, sp)
		if i%997 == 0 {
			c.Sample(cs)
		}
		c.Done(i)
	}
	// OPN chunks (asymmetric algorithms): all policies x all pairs of allowed key sizes, both directions
	idx := n
	for _, p := range refpeer.Policies {
		sizes := allowedSizes(p)
		for _, lb := range sizes {
			for _, rb := range sizes {
				for k := 0; k < c.Pick(2, 12); k++ {
					i := idx
					idx++
					if int(i%int64(c.NBatch)) != c.Batch || i < c.Resume {
						continue
					}
					r := c.Rng("c07asym", i)
					cs := chunkCase{Policy: p.URI, Mode: 2 + r.Intn(2), LocalBits: lb, RemBits: rb, Body: r.Intn(3 * p.AsymPlainBlock(rb/8)),
						Seq: uint32(1 + r.Intn(1000)), What: "OPN gopcua->gopcua"}
					if k == 0 {
						cs.Body = 0
					}
					c.Journal(i, cs)
					c07Asym(c, cs, r)
					c.Done(i)
				}
			}
		}
	}
	return nil
}

// c07Asym: an OPN message secured by a gopcua instance with the asymmetric algorithm of the sender is opened by a gopcua
// instance with the algorithm of the receiver (key sizes of the two sides differ in most cases): same body, same ids.
func c07Asym(c *fw.Ctx, cs chunkCase, r *rand.Rand) {
	p := refpeer.PolicyByURI(cs.Policy)
	cli, srv := keys.Get("a", cs.LocalBits), keys.Get("b", cs.RemBits)
	c.Eval(1)
	c.Class("asym:"+p.Name, 1)
	c.Nontrivial(fmt.Sprintf("asym/%s/%d/%d/%d", cs.Policy, cs.LocalBits, cs.RemBits, cs.Body))
	for _, fromClient := range []bool{true, false} {
		sndK, rcvK := cli, srv
		dir := "client->server"
		if !fromClient {
			sndK, rcvK = srv, cli
			dir = "server->client"
		}
		svc := opnBody(r, p.NonceLen+cs.Body, fromClient)
		want := wireBody(svc)
		typeID := uint16(id.OpenSecureChannelRequest_Encoding_DefaultBinary)
		if !fromClient {
			typeID = id.OpenSecureChannelResponse_Encoding_DefaultBinary
		}
		inst := func(local, remote *keys.Pair, seq uint32) (*uasc.VerifInstance, error) {
			algo, err := uapolicy.Asymmetric(cs.Policy, local.Key, &remote.Key.PublicKey)
			if err != nil {
				return nil, err
			}
			v := uasc.VerifNewInstance(&uasc.Config{SecurityPolicyURI: cs.Policy, SecurityMode: ua.MessageSecurityMode(cs.Mode), Certificate: local.Cert,
				LocalKey: local.Key, RemoteCertificate: remote.Cert, Thumbprint: refpeer.Thumbprint(remote.Cert)}, algo, 77, 0, seq)
			v.SetMaximumBodySize(65535)
			return v, nil
		}
		var why string
		if pn := fw.Catch(func() {
			snd, err := inst(sndK, rcvK, cs.Seq)
			if err != nil {
				why = "algo: " + err.Error()
				return
			}
			rcv, err := inst(rcvK, sndK, 1)
			if err != nil {
				why = "algo: " + err.Error()
				return
			}
			raw, err := snd.EncodeAndSecure(snd.NewMessage(svc, typeID, 4242))
			if err != nil || len(raw) != 1 {
				why = fmt.Sprintf("encode: %v (%d chunks)", err, len(raw))
				return
			}
			if int(binary.LittleEndian.Uint32(raw[0][4:])) != len(raw[0]) || raw[0][3] != 'F' {
				why = fmt.Sprintf("header: MessageSize %d, length %d, chunk type %c", binary.LittleEndian.Uint32(raw[0][4:]), len(raw[0]), raw[0][3])
				return
			}
			m, err := rcv.VerifyAndDecrypt(raw[0])
			if err != nil {
				why = "rejected: the receiving instance does not accept the chunk: " + err.Error()
				return
			}
			if m.SequenceHeader == nil || m.SequenceHeader.RequestID != 4242 || !bytes.Equal(m.Data, want) {
				why = fmt.Sprintf("plaintext: the receiver recovers %d body bytes, sent %d", len(m.Data), len(want))
			}
		}); pn != nil {
			cs.Detail = pn.Msg
			c.Violation("c07-opn-"+pn.Key(), "an OPN round trip panicked: "+pn.Msg, cs)
			return
		}
		if why != "" {
			cs.Detail = dir + ": " + why
			c.Violation(fmt.Sprintf("c07:opn-round-trip:%s:%s", classOf(why), p.Name), cs.Detail, cs)
		}
	}
}

// ---- C08 ----

func c08Sym(c *fw.Ctx, cs chunkCase, sp *symPair, r *rand.Rand) {
	svc, err := bodyOfSize(cs.Body)
	if err != nil {
		return
	}
	want := wireBody(svc)
	c.Eval(1)
	c.Class(fmt.Sprintf("sym:mode:%d", cs.Mode), 1)
	c.Nontrivial(fmt.Sprintf("sym/%s/%d/%d/%d/%s", cs.Policy, cs.Mode, cs.ChunkSize, cs.Body, cs.Nonces[:8]))
	for _, fromClient := range []bool{true, false} {
		dir := "server->client"
		if fromClient {
			dir = "client->server"
		}
		// (a) gopcua seals, the reference opens
		var raw [][]byte
		var joined []byte
		var why string
		if pn := fw.Catch(func() {
			snd := sp.gopcua(fromClient, cs.ChunkSize, cs.Seq)
			msg := snd.NewMessage(svc, ua.ServiceTypeID(svc), 4242)
			raw, err = snd.EncodeAndSecure(msg)
			if err != nil {
				why = "encode: " + err.Error()
				return
			}
			ref := sp.ref(!fromClient)
			joined, why = checkChunks(raw, cs.ChunkSize, func(ch []byte) (byte, uint32, uint32, []byte, error) {
				k, err := ref.Open(ch)
				if err != nil {
					return 0, 0, 0, nil, err
				}
				if k.ChannelID != 77 || k.TokenID != 99 {
					return 0, 0, 0, nil, fmt.Errorf("channel/token id %d/%d, want 77/99", k.ChannelID, k.TokenID)
				}
				return k.ChunkType, k.Seq, k.ReqID, k.Body, nil
			})
		}); pn != nil {
			cs.Detail = pn.Msg
			c.Violation("c08-"+pn.Key(), "securing a chunk panicked: "+pn.Msg, cs)
			return
		}
		if why == "" && !bytes.Equal(joined, want) {
			why = fmt.Sprintf("plaintext: the reference recovers %d bytes, sent %d (first difference at %d)", len(joined), len(want), firstDiff(joined, want))
		}
		if why != "" {
			cs.Detail = dir + ": " + why
			c.Violation(fmt.Sprintf("c08:gopcua-chunk-not-conforming:%s:mode=%d", classOf(why), cs.Mode), cs.Detail, cs)
		}
		// (b) the reference seals (any conforming split and padding), gopcua opens
		ref := sp.ref(fromClient)
		maxb := ref.MaxBody(cs.ChunkSize)
		var got []*uasc.MessageChunk
		rest := want
		seq := cs.Seq
		why = ""
		if pn := fw.Catch(func() {
			rcv := sp.gopcua(!fromClient, cs.ChunkSize, 1)
			for first := true; first || len(rest) > 0; first = false {
				nb := len(rest)
				style := r.Intn(2)
				lim := maxb
				if style == refpeer.PadSpec && sp.mode == refpeer.ModeSignAndEncrypt {
					lim = maxb - 1 // the spec formula adds a full block when the plaintext is already aligned
				}
				if nb > lim {
					nb = lim
					if r.Intn(2) == 0 { // any split is conforming
						nb = 1 + r.Intn(lim)
					}
				}
				typ := byte('C')
				if nb == len(rest) {
					typ = 'F'
				}
				seq, _ = nextSeq(seq)
				if seq > 0xffffffff-1024 {
					seq = uint32(r.Intn(1024))
				}
				ch, err := ref.Seal("MSG", typ, seq, 4242, rest[:nb], style)
				if err != nil {
					why = "refseal: " + err.Error()
					return
				}
				if len(ch) > cs.ChunkSize {
					why = fmt.Sprintf("refseal: reference produced %d > %d", len(ch), cs.ChunkSize)
					return
				}
				m, err := rcv.VerifyAndDecrypt(ch)
				if err != nil {
					why = fmt.Sprintf("rejected: gopcua rejects a conforming chunk (type %c, %d body bytes, seq %d): %v", typ, nb, seq, err)
					return
				}
				if m.SequenceHeader.SequenceNumber != seq || m.SequenceHeader.RequestID != 4242 {
					why = fmt.Sprintf("seqhdr: gopcua reads seq/req %d/%d, sent %d/4242", m.SequenceHeader.SequenceNumber, m.SequenceHeader.RequestID, seq)
					return
				}
				got = append(got, m)
				rest = rest[nb:]
			}
			merged, err := uasc.VerifMergeChunks(got)
			if err != nil || !bytes.Equal(merged, want) {
				why = fmt.Sprintf("plaintext: gopcua recovers %d bytes, the reference sent %d (err=%v)", len(merged), len(want), err)
			}
		}); pn != nil {
			cs.Detail = pn.Msg
			c.Violation("c08-"+pn.Key(), "opening a conforming chunk panicked: "+pn.Msg, cs)
			return
		}
		if why != "" {
			cs.Detail = dir + ": " + why
			c.Violation(fmt.Sprintf("c08:conforming-chunk-not-accepted:%s:mode=%d", classOf(why), cs.Mode), cs.Detail, cs)
		}
	}
}

func opnBody(r *rand.Rand, nonceLen int, isReq bool) interface{} {
	nonce := make([]byte, nonceLen)
	r.Read(nonce)
	if isReq {
		return &ua.OpenSecureChannelRequest{
			RequestHeader:     &ua.RequestHeader{AuthenticationToken: ua.NewTwoByteNodeID(0), AdditionalHeader: ua.NewExtensionObject(nil)},
			RequestType:       ua.SecurityTokenRequestTypeIssue,
			SecurityMode:      ua.MessageSecurityModeSignAndEncrypt,
			ClientNonce:       nonce,
			RequestedLifetime: 3600000,
		}
	}
	return &ua.OpenSecureChannelResponse{
		ResponseHeader: &ua.ResponseHeader{ServiceDiagnostics: &ua.DiagnosticInfo{}, StringTable: []string{}, AdditionalHeader: ua.NewExtensionObject(nil)},
		SecurityToken:  &ua.ChannelSecurityToken{ChannelID: 77, TokenID: 99, RevisedLifetime: 3600000},
		ServerNonce:    nonce,
	}
}

func c08Asym(c *fw.Ctx, cs chunkCase, r *rand.Rand) {
	p := refpeer.PolicyByURI(cs.Policy)
	cli, srv := keys.Get("a", cs.LocalBits), keys.Get("b", cs.RemBits)
	c.Eval(1)
	c.Class("asym:"+p.Name, 1)
	c.Nontrivial(fmt.Sprintf("asym/%s/%d/%d/%d", cs.Policy, cs.LocalBits, cs.RemBits, cs.Body))
	for _, fromClient := range []bool{true, false} {
		sndK, rcvK := cli, srv
		dir := "client->server"
		if !fromClient {
			sndK, rcvK = srv, cli
			dir = "server->client"
		}
		svc := opnBody(r, p.NonceLen+cs.Body, fromClient)
		want := wireBody(svc)
		typeID := uint16(id.OpenSecureChannelRequest_Encoding_DefaultBinary)
		if !fromClient {
			typeID = id.OpenSecureChannelResponse_Encoding_DefaultBinary
		}
		gocfg := func(local, remote *keys.Pair) (*uasc.Config, *uapolicy.EncryptionAlgorithm, error) {
			algo, err := uapolicy.Asymmetric(cs.Policy, local.Key, &remote.Key.PublicKey)
			return &uasc.Config{SecurityPolicyURI: cs.Policy, SecurityMode: ua.MessageSecurityMode(cs.Mode), Certificate: local.Cert,
				LocalKey: local.Key, RemoteCertificate: remote.Cert, Thumbprint: refpeer.Thumbprint(remote.Cert)}, algo, err
		}
		// (a) gopcua seals the OPN, the reference opens it
		var why string
		if pn := fw.Catch(func() {
			cfg, algo, err := gocfg(sndK, rcvK)
			if err != nil {
				why = "algo: " + err.Error()
				return
			}
			snd := uasc.VerifNewInstance(cfg, algo, 77, 0, cs.Seq)
			snd.SetMaximumBodySize(65535)
			raw, err := snd.EncodeAndSecure(snd.NewMessage(svc, typeID, 4242))
			if err != nil || len(raw) != 1 {
				why = fmt.Sprintf("encode: %v (%d chunks)", err, len(raw))
				return
			}
			ref, err := refpeer.NewAsymCtx(p, rcvK.Key, rcvK.Cert, sndK.Cert)
			if err != nil {
				why = "refctx: " + err.Error()
				return
			}
			k, err := ref.OpenOPN(raw[0])
			if err != nil {
				why = "open: " + err.Error()
				return
			}
			if !bytes.Equal(k.SenderCrt, sndK.Cert) {
				why = "sendercert: the OPN does not carry the sender's certificate"
				return
			}
			if k.ReqID != 4242 || !bytes.Equal(k.Body, want) {
				why = fmt.Sprintf("plaintext: the reference recovers %d body bytes (request id %d), sent %d", len(k.Body), k.ReqID, len(want))
			}
		}); pn != nil {
			cs.Detail = pn.Msg
			c.Violation("c08-opn-"+pn.Key(), "securing an OPN panicked: "+pn.Msg, cs)
			return
		}
		if why != "" {
			cs.Detail = dir + ": " + why
			c.Violation(fmt.Sprintf("c08:gopcua-opn-not-conforming:%s:%s", classOf(why), p.Name), cs.Detail, cs)
		}
		// (b) the reference seals, gopcua opens
		why = ""
		if pn := fw.Catch(func() {
			ref, err := refpeer.NewAsymCtx(p, sndK.Key, sndK.Cert, rcvK.Cert)
			if err != nil {
				why = "refctx: " + err.Error()
				return
			}
			perBlock := 0
			if r.Intn(3) == 0 {
				perBlock = p.AsymPlainBlock(rcvK.Key.Size()) - 1 - r.Intn(64)
			}
			seq := cs.Seq + 7
			ch, err := ref.SealOPN(77, seq, 4242, want, r.Intn(2), perBlock)
			if err != nil {
				why = "refseal: " + err.Error()
				return
			}
			cfg, algo, err := gocfg(rcvK, sndK)
			if err != nil {
				why = "algo: " + err.Error()
				return
			}
			rcv := uasc.VerifNewInstance(cfg, algo, 77, 0, 1)
			m, err := rcv.VerifyAndDecrypt(ch)
			if err != nil {
				why = fmt.Sprintf("rejected: gopcua rejects a conforming OPN (perBlock=%d): %v", perBlock, err)
				return
			}
			if m.SequenceHeader.SequenceNumber != seq || m.SequenceHeader.RequestID != 4242 || !bytes.Equal(m.Data, want) {
				why = fmt.Sprintf("plaintext: gopcua recovers seq/req %d/%d and %d body bytes, sent %d/4242 and %d", m.SequenceHeader.SequenceNumber, m.SequenceHeader.RequestID, len(m.Data), seq, len(want))
			}
		}); pn != nil {
			cs.Detail = pn.Msg
			c.Violation("c08-opn-"+pn.Key(), "opening a conforming OPN panicked: "+pn.Msg, cs)
			return
		}
		if why != "" {
			cs.Detail = dir + ": " + why
			c.Violation(fmt.Sprintf("c08:conforming-opn-not-accepted:%s:%s", classOf(why), p.Name), cs.Detail, cs)
		}
	}
}

func allowedSizes(p *refpeer.Policy) []int {
	var out []int
	for _, s := range []int{1024, 2048, 3072, 4096} {
		if p.KeyAllowed(s) {
			out = append(out, s)
		}
	}
	return out
}

func c08Run(c *fw.Ctx) error {
	var pms []polMode
	for _, pm := range allPolModes() {
		if pm.mode != 1 {
			pms = append(pms, pm)
		}
	}
	pms = append(pms, polMode{refpeer.URINone, 1})
	n := int64(c.Pick(2000, 250000))
	for i := int64(0); i < n; i++ {
		if int(i%int64(c.NBatch)) != c.Batch || i < c.Resume {
			continue
		}
		r := c.Rng("c08sym", i)
		pm := pms[int(i)%len(pms)]
		cn, sn := randNonces(r, pm.uri)
		sp, err := newSymPair(pm.uri, pm.mode, cn, sn)
		if err != nil {
			return err
		}
		cs := chunkCase{Policy: pm.uri, Mode: pm.mode, ChunkSize: c07ChunkSizes(r), What: "symmetric differential",
			Nonces: hex.EncodeToString(cn) + "/" + hex.EncodeToString(sn)}
		if cs.ChunkSize > 70000 {
			cs.ChunkSize = 8192 + r.Intn(60000)
		}
		mb := int(sp.gopcua(true, cs.ChunkSize, 1).MaxBodySize())
		switch r.Intn(5) {
		case 0:
			cs.Body = 70 + r.Intn(64)
		case 1:
			cs.Body = mb + r.Intn(3) - 1
		case 2:
			cs.Body = (1+r.Intn(3))*mb + r.Intn(33) - 16
		default:
			cs.Body = 70 + r.Intn(3*mb)
		}
		cs.Seq = []uint32{1, uint32(r.Intn(1 << 24)), 0xffffffff - 1026, 0xffffffff - 1500}[r.Intn(4)]
		c.Journal(i, cs)
		c08Sym(c, cs, sp, r)
		if i%701 == 0 {
			c.Sample(cs)
		}
		c.Done(i)
	}
	// OPN: all policies x key size pairs (quick: a subset of pairs per seed)
	idx := n
	for _, p := range refpeer.Policies {
		sizes := allowedSizes(p)
		for _, lb := range sizes {
			for _, rb := range sizes {
				reps := c.Pick(2, 40)
				for k := 0; k < reps; k++ {
					i := idx
					idx++
					if int(i%int64(c.NBatch)) != c.Batch || i < c.Resume {
						continue
					}
					r := c.Rng("c08asym", i)
					if c.Quick() && (lb > 2048 || rb > 2048) && k > 0 {
						continue
					}
					cs := chunkCase{Policy: p.URI, Mode: 2 + r.Intn(2), LocalBits: lb, RemBits: rb, Body: r.Intn(3 * p.AsymPlainBlock(rb/8)),
						Seq: uint32(1 + r.Intn(1000)), What: "OPN differential"}
					if k == 0 {
						cs.Body = 0
					}
					c.Journal(i, cs)
					c08Asym(c, cs, r)
					if k == 0 {
						c.Sample(cs)
					}
					c.Done(i)
				}
			}
		}
	}
	return nil
}

// ---- C09 ----

type c09Case struct {
	chunkCase
	Mutation string `json:"mutation"`
	Hex      string `json:"chunk_hex,omitempty"`
}

func c09Run(c *fw.Ctx) error {
	var pms []polMode
	for _, pm := range allPolModes() {
		if pm.mode != 1 {
			pms = append(pms, pm)
		}
	}
	n := int64(c.Pick(400, 20000))
	for i := int64(0); i < n; i++ {
		if int(i%int64(c.NBatch)) != c.Batch || i < c.Resume {
			continue
		}
		r := c.Rng("c09", i)
		pm := pms[int(i)%len(pms)]
		cn, sn := randNonces(r, pm.uri)
		sp, err := newSymPair(pm.uri, pm.mode, cn, sn)
		if err != nil {
			return err
		}
		base := chunkCase{Policy: pm.uri, Mode: pm.mode, ChunkSize: 8192, Body: 70 + r.Intn(120), Seq: uint32(1 + r.Intn(1000)), What: "tamper",
			Nonces: hex.EncodeToString(cn) + "/" + hex.EncodeToString(sn)}
		svc, _ := bodyOfSize(base.Body)
		var valid []byte
		if r.Intn(2) == 0 {
			snd := sp.gopcua(true, 8192, base.Seq)
			raw, err := snd.EncodeAndSecure(snd.NewMessage(svc, ua.ServiceTypeID(svc), 4242))
			if err != nil {
				return err
			}
			valid = raw[0]
		} else {
			valid, err = sp.ref(true).Seal("MSG", 'F', base.Seq, 4242, wireBody(svc), r.Intn(2))
			if err != nil {
				return err
			}
		}
		try := func(mut string, b []byte) {
			if bytes.Equal(b, valid) {
				// random multi-byte changes can cancel each other (same position, same mask twice): that is the
				// chunk the legitimate peer did produce, and accepting it is no violation
				c.Class("mutation:cancelled-out-not-judged", 1)
				return
			}
			cs := c09Case{chunkCase: base, Mutation: mut, Hex: hex.EncodeToString(b)}
			c.Journal(i, cs)
			var m *uasc.MessageChunk
			var err error
			pn := fw.Catch(func() { m, err = sp.gopcua(false, 8192, 1).VerifyAndDecrypt(b) })
			c.Eval(1)
			c.Class("mutation:"+classOf(mut), 1)
			c.NontrivialBytes(b)
			if pn != nil {
				cs.Detail = pn.Msg
				c.Violation("c09-"+pn.Key(), "verifyAndDecrypt panicked on a hostile chunk: "+pn.Msg, cs)
				return
			}
			if err == nil && m != nil {
				cs.Detail = fmt.Sprintf("delivered %d body bytes", len(m.Data))
				c.Violation(fmt.Sprintf("c09:accepted:%s:mode=%d", classOf(mut), pm.mode), "a chunk that the legitimate peer never produced was accepted: "+mut, cs)
			}
		}
		// control: the valid chunk is accepted (otherwise the experiment is void)
		if _, err := sp.gopcua(false, 8192, 1).VerifyAndDecrypt(valid); err != nil {
			c.Inconclusive("control chunk rejected: " + err.Error())
			continue
		}
		// every single byte position x 3 masks
		for pos := 0; pos < len(valid); pos++ {
			for _, mask := range []byte{0x01, 0x80, 0xff} {
				if c.Quick() && (pos+int(mask)+int(i))%3 != 0 {
					continue
				}
				b := append([]byte{}, valid...)
				b[pos] ^= mask
				if pos < 3 { // a changed message type is a different (possibly unknown) kind of frame, still must not deliver
				}
				try(fmt.Sprintf("xor: byte %d ^ %#x", pos, mask), b)
			}
		}
		// multi-byte
		for k := 0; k < 8; k++ {
			b := append([]byte{}, valid...)
			for j := 0; j < 2+r.Intn(6); j++ {
				b[r.Intn(len(b))] ^= byte(1 + r.Intn(255))
			}
			try("multi: several bytes", b)
		}
		// truncation to every length >= 8, MessageSize adjusted (what a receiver gets from the transport) or not
		for L := 8; L < len(valid); L++ {
			if c.Quick() && L > 64 && (L+int(i))%5 != 0 {
				continue
			}
			b := append([]byte{}, valid[:L]...)
			binary.LittleEndian.PutUint32(b[4:], uint32(L))
			try(fmt.Sprintf("truncate: to %d bytes, size adjusted", L), b)
			if L%4 == 0 {
				try(fmt.Sprintf("truncate-raw: to %d bytes, size field unchanged", L), append([]byte{}, valid[:L]...))
			}
		}
		// extension
		for _, extra := range []int{1, 15, 16, 17, 32} {
			b := append(append([]byte{}, valid...), make([]byte, extra)...)
			binary.LittleEndian.PutUint32(b[4:], uint32(len(b)))
			try(fmt.Sprintf("extend: by %d bytes, size adjusted", extra), b)
		}
		// forged: produced with other keys
		cn2, sn2 := randNonces(r, pm.uri)
		if forged, err := refpeer.NewSymCtx(sp.p, pm.mode, cn2, sn2, true, 77, 99).Seal("MSG", 'F', base.Seq, 4242, wireBody(svc), 0); err == nil {
			try("forged: sealed with keys of other nonces", forged)
		}
		// reflected: produced by the receiver's own side
		if refl, err := sp.ref(false).Seal("MSG", 'F', base.Seq, 4242, wireBody(svc), 0); err == nil {
			try("reflected: sealed with the receiver's own sending keys", refl)
		}
		if i%37 == 0 {
			c.Sample(map[string]interface{}{"policy": pm.uri, "mode": pm.mode, "valid_chunk_len": len(valid)})
		}
		c.Done(i)
	}
	c09E2E(c)
	return nil
}

func init() {
	fw.Register("C07", fw.Spec{
		Plan: func(tier string) fw.Plan {
			p := fw.Plan{Batches: 8, TimeoutS: 600, MinNontrivial: 2000, Level: "exploration",
				Rule:        "in-process layer: every policy x applicable mode x chunk sizes (dense near 8192, all residues, powers of two, random to 2^16+8192) x body lengths (k*max-1, k*max, k*max+1 for k=1..4, small, random) x first sequence numbers (incl. just below the wrap) through the real newMessage/EncodeChunks/signAndEncrypt and, on a mirrored instance, the real verifyAndDecrypt/mergeChunks/DecodeService; per chunk: size <= negotiated, MessageSize = length, C...F flags, request id, sequence +1; reassembly byte-equal; OPN request and response chunks for every pair of allowed RSA key sizes (unequal pairs included) from a gopcua instance with the sender's asymmetric algorithm to one with the receiver's; the end-to-end layer over TCP is part of C06/C12/C20; distinct = distinct (policy, mode, chunk size, body length)",
				Assumptions: []string{"EncodeAndSecure in the hook file repeats the sender loop of writeMessageChunks without the socket write"}}
			if tier == "thorough" {
				p.Batches, p.TimeoutS, p.MinNontrivial = 16, 2400, 100000
			}
			return p
		},
		Run: c07Run,
	})
	fw.Register("C08", fw.Spec{
		Plan: func(tier string) fw.Plan {
			p := fw.Plan{Batches: 8, TimeoutS: 900, MinNontrivial: 1500, Level: "exploration",
				Rule:        "differential against refpeer, an implementation of the Part 6 chunk layout written from the specification: (a) chunks secured by gopcua (MSG, all policies x Sign/SignAndEncrypt + None; OPN request and response for every allowed (client, server) RSA key size pair incl. unequal pairs) must verify/decrypt in refpeer to the same plaintext, sequence header inside the encrypted region, padding bytes and ExtraPaddingSize as specified, signature over the whole chunk with the final MessageSize, receiver thumbprint = SHA-1 of the certificate; (b) chunks sealed by refpeer with any conforming split, minimal or spec-formula padding and any RSA block fill must be accepted by gopcua with the same plaintext; distinct = distinct (kind, policy, mode/key sizes, chunk size, body length)",
				Assumptions: []string{"refpeer shares only Go's crypto stdlib with gopcua; message bodies are encoded with gopcua's ua codec (subject of C01-C03)"}}
			if tier == "thorough" {
				p.Batches, p.TimeoutS, p.MinNontrivial = 16, 3000, 150000
			}
			return p
		},
		Run: c08Run,
	})
	fw.Register("C09", fw.Spec{
		Plan: func(tier string) fw.Plan {
			p := fw.Plan{Batches: 8, TimeoutS: 900, MinNontrivial: 20000, Level: "exploration",
				Rule:        "for valid MSG chunks of every policy x {Sign, SignAndEncrypt} (sealed by gopcua or by refpeer): every single-byte XOR (all positions x masks 0x01/0x80/0xff; quick: one third), multi-byte changes, truncation to every length >= 8 (MessageSize adjusted or not), extension, chunks sealed with other keys and with the receiver's own sending keys -> the real verifyAndDecrypt must return an error and must not panic; the valid chunk is a control; plus the end-to-end layer over TCP on established channels of the real server and the real client; distinct = distinct mutated chunks",
				Assumptions: []string{"in-process layer: delivery is observed at verifyAndDecrypt of a detached channel instance (hook file); end-to-end layer: every policy x mode, ~30 hostile variants each way (bit flips per region, truncations, extension, unsigned chunk, other keys, reflected keys, OPN-typed chunk announcing policy None, other channel/token id, retyped; and, as the answer to the real client's OpenSecureChannel request (first exchange and renewal), an unsigned OpenSecureChannelResponse in an OPN chunk naming policy None, which must not open the channel nor install its token) against the real server (effect = node value, inspected in-process) and the real client (effect = value returned by Read)"}}
			if tier == "thorough" {
				p.Batches, p.TimeoutS, p.MinNontrivial = 16, 3000, 2000000
			}
			return p
		},
		Run: c09Run,
	})
	_ = json.Marshal
}
