package props

import (
	"encoding/binary"
	"encoding/hex"
	"encoding/json"
	"fmt"
	"reflect"
	"runtime"
	"sort"
	"time"

	"github.com/gopcua/opcua/ua"

	"verifharness/fw"
	"verifharness/gen"
)

// C02: decoding arbitrary bytes is safe (no panic, no hang, bounded memory).
// C03: whatever decodes can be re-encoded and decodes to the same value.
// Both run over the same hostile corpus; each applies only its own oracle.

const (
	c02AllocFactor = 1024
	c02AllocFixed  = 16 << 20
	c02CPUBudget   = 20 * time.Second
	c02HeapAbort   = 6 << 30
)

type decWitness struct {
	Stream string `json:"stream"`
	Case   int64  `json:"case"`
	Type   string `json:"type"`
	Mut    string `json:"mutation,omitempty"`
	Hex    string `json:"hex,omitempty"`    // the input (if <= 64 KiB)
	Recipe string `json:"recipe,omitempty"` // how to rebuild a large input
	Len    int    `json:"len"`
	Detail string `json:"detail,omitempty"`
}

type decTarget struct {
	Name string
	T    reflect.Type // pointer type
}

func decTargets(reg *gen.Registry) []decTarget {
	var out []decTarget
	for _, t := range allC01Types(reg) {
		out = append(out, decTarget{t.Name, t.T})
	}
	return out
}

type decRunner struct {
	c     *fw.Ctx
	mode  string // "C02" or "C03"
	guard *fw.Guard
	reg   *gen.Registry
}

func (r *decRunner) witness(stream string, idx int64, tname, mut string, in []byte, recipe string) decWitness {
	w := decWitness{Stream: stream, Case: idx, Type: tname, Mut: mut, Len: len(in), Recipe: recipe}
	if len(in) <= 64<<10 {
		w.Hex = hex.EncodeToString(in)
	}
	return w
}

// allocSite re-runs f with full memory profiling and returns the gopcua function that allocated most.
func allocSite(f func()) string {
	old := runtime.MemProfileRate
	runtime.MemProfileRate = 1
	defer func() { runtime.MemProfileRate = old }()
	snap := func() map[[32]uintptr]int64 {
		runtime.GC()
		n, _ := runtime.MemProfile(nil, true)
		recs := make([]runtime.MemProfileRecord, n+200)
		n, ok := runtime.MemProfile(recs, true)
		if !ok {
			return nil
		}
		m := map[[32]uintptr]int64{}
		for _, rec := range recs[:n] {
			m[rec.Stack0] += rec.AllocBytes
		}
		return m
	}
	before := snap()
	fw.Catch(f)
	after := snap()
	var best [32]uintptr
	var bestN int64
	for k, v := range after {
		if d := v - before[k]; d > bestN {
			best, bestN = k, d
		}
	}
	if bestN == 0 {
		return "?"
	}
	frames := runtime.CallersFrames(trimPCs(best[:]))
	for {
		fr, more := frames.Next()
		if len(fr.Function) > 23 && fr.Function[:23] == "github.com/gopcua/opcua" {
			return fr.Function[24:]
		}
		if !more {
			break
		}
	}
	return "?"
}

func trimPCs(p []uintptr) []uintptr {
	for i, v := range p {
		if v == 0 {
			return p[:i]
		}
	}
	return p
}

// one runs one input against one target under the oracle of the mode.
func (r *decRunner) one(stream string, idx int64, tg decTarget, mut string, in []byte, recipe string) {
	c := r.c
	w := r.witness(stream, idx, tg.Name, mut, in, recipe)
	c.Journal(idx, w)
	v1 := reflect.New(tg.T.Elem())
	var n int
	var err error
	r.guard.Begin("", w)
	a0, cpu0 := fw.AllocBytes(), fw.CPUTime()
	p := fw.Catch(func() { n, err = ua.Decode(in, v1.Interface()) })
	alloc, cpu := fw.AllocBytes()-a0, fw.CPUTime()-cpu0
	r.guard.End()
	c.Eval(1)
	c.Class("stream:"+stream, 1)
	outcome := "error"
	if p != nil {
		outcome = "panic"
	} else if err == nil {
		outcome = "decoded"
	}
	c.Class("outcome:"+outcome, 1)
	c.NontrivialBytes(append([]byte(tg.Name+"\x00"), in...))

	if r.mode == "C02" {
		if p != nil {
			w.Detail = p.Msg
			c.Violation(p.Key(), "Decode panicked: "+p.Msg, w)
		}
		limit := uint64(c02AllocFactor*len(in) + c02AllocFixed)
		ratio := float64(alloc) / float64(len(in)+1)
		if len(in) >= 64 {
			c.Max("max_alloc_bytes_per_input_byte(inputs>=64B)", ratio, w)
		}
		c.Max("max_alloc_bytes_single_call", float64(alloc), w)
		c.Max("max_cpu_ms_single_call", float64(cpu.Milliseconds()), w)
		if alloc > limit {
			site := "?"
			if len(in) < 1<<20 {
				site = allocSite(func() { ua.Decode(in, reflect.New(tg.T.Elem()).Interface()) })
			}
			w.Detail = fmt.Sprintf("allocated %d bytes for %d input bytes (limit %d)", alloc, len(in), limit)
			c.Violation("alloc:"+site, "Decode allocated far more than the input justifies: "+w.Detail, w)
		}
		if cpu > c02CPUBudget {
			w.Detail = cpu.String()
			c.Violation("slow:"+tg.Name, "Decode used more CPU than the budget: "+cpu.String(), w)
		}
	}
	if r.mode == "C03" && p == nil && err == nil {
		r.reencode(tg, v1, w, n)
	}
	c.Done(idx)
}

func (r *decRunner) reencode(tg decTarget, v1 reflect.Value, w decWitness, n int) {
	c := r.c
	c.Class("c03:decoded", 1)
	var b2 []byte
	var err error
	if p := fw.Catch(func() { b2, err = ua.Encode(v1.Interface()) }); p != nil {
		w.Detail = p.Msg
		c.Violation("reencode-"+p.Key(), "Encode of a decoded value panicked: "+p.Msg, w)
		return
	}
	if err != nil {
		w.Detail = err.Error()
		c.Violation("reencode-error:"+fw.MsgClass(err.Error()), "Encode of a decoded value failed: "+err.Error(), w)
		return
	}
	v2 := reflect.New(tg.T.Elem())
	var n2 int
	if p := fw.Catch(func() { n2, err = ua.Decode(b2, v2.Interface()) }); p != nil {
		w.Detail = p.Msg
		c.Violation("redecode-"+p.Key(), "Decode of the re-encoding panicked: "+p.Msg, w)
		return
	}
	if err != nil {
		w.Detail = fmt.Sprintf("%v; re-encoding=%s", err, hexTrunc(b2))
		c.Violation("redecode-error:"+fw.MsgClass(err.Error()), "the re-encoding of a decoded value does not decode: "+err.Error(), w)
		return
	}
	if n2 != len(b2) {
		w.Detail = fmt.Sprintf("consumed %d of %d; re-encoding=%s", n2, len(b2), hexTrunc(b2))
		c.Violation("redecode-length", "the re-encoding is not consumed exactly: "+w.Detail, w)
		return
	}
	if d := gen.Equal(v1.Interface(), v2.Interface()); d != "" {
		w.Detail = d + "; re-encoding=" + hexTrunc(b2)
		c.Violation("changed:"+diffClass(d), "re-encoded value decodes differently: "+d, w)
		return
	}
	c.Class("c03:stable", 1)
}

// ---- corpus ----

func towerInput(kind string, depth int) []byte {
	switch kind {
	case "variant": // Variant(scalar Variant(...(null)))
		b := make([]byte, depth+1)
		for i := 0; i < depth; i++ {
			b[i] = 0x18
		}
		return b
	case "diag": // DiagnosticInfo with inner DiagnosticInfo ...
		b := make([]byte, depth+1)
		for i := 0; i < depth; i++ {
			b[i] = 0x40
		}
		return b
	case "datavalue": // Variant(DataValue(value: Variant(DataValue(...))))
		b := make([]byte, 0, 2*depth+1)
		for i := 0; i < depth; i++ {
			b = append(b, 0x17, 0x01)
		}
		return append(b, 0x00)
	case "variant-array": // Variant array[1] of Variant array[1] ...
		b := make([]byte, 0, 5*depth+1)
		for i := 0; i < depth; i++ {
			b = append(b, 0x98, 1, 0, 0, 0)
		}
		return append(b, 0x00)
	case "extobj": // Variant(ExtensionObject(KeyValuePair{Value: Variant(ExtensionObject(...))})), built inside-out
		// every level adds 16 bytes around the inner encoding: 0x16 (Variant scalar ExtensionObject),
		// TypeID four-byte ns0 id=14846 (KeyValuePair_Encoding_DefaultBinary), mask 1, body length,
		// KeyValuePair body = QualifiedName{ns uint16, name null string} + the inner Variant
		out := make([]byte, 0, 16*depth+1)
		for k := depth; k >= 1; k-- {
			innerSize := 1 + 16*(k-1)
			out = append(out, 0x16, 0x01, 0x00, 0xfe, 0x39, 0x01)
			out = binary.LittleEndian.AppendUint32(out, uint32(6+innerSize))
			out = append(out, 0, 0, 0xff, 0xff, 0xff, 0xff)
		}
		return append(out, 0x00) // null variant
	case "literal-operand": // Variant(ExtensionObject(LiteralOperand{Value: Variant(ExtensionObject(...))})): 10 bytes per level
		// 0x16, TypeID four-byte ns0 id=597 (LiteralOperand_Encoding_DefaultBinary), mask 1, body length, inner Variant
		out := make([]byte, 0, 10*depth+1)
		for k := depth; k >= 1; k-- {
			out = append(out, 0x16, 0x01, 0x00, 0x55, 0x02, 0x01)
			out = binary.LittleEndian.AppendUint32(out, uint32(1+10*(k-1)))
		}
		return append(out, 0x00)
	}
	return nil
}

type gridCase struct {
	b    []byte
	desc string
}

// variantGrid enumerates Variant headers: type x array bit x dims bit x length x dims.
func variantGrid() []gridCase {
	var out []gridCase
	lengths := []int32{-2147483648, -2, -1, 0, 1, 2, 3, 0xffff, 0x10000, 0xffffff, 0x7fffffff}
	elemZero := func(typ int, n int) []byte { // n zero-valued elements of the type (bounded)
		if n < 0 {
			n = 0
		}
		if n > 8 {
			n = 8
		}
		sz := []int{0, 1, 1, 1, 2, 2, 4, 4, 8, 8, 4, 8, 4, 8, 16, 4, 4, 2, 2, 4, 6, 1, 3, 1, 1, 1}
		s := 1
		if typ < len(sz) {
			s = sz[typ]
		}
		return make([]byte, s*n)
	}
	for typ := 0; typ < 64; typ++ {
		for _, arr := range []bool{false, true} {
			for _, dim := range []bool{false, true} {
				mask := byte(typ)
				if arr {
					mask |= 0x80
				}
				if dim {
					mask |= 0x40
				}
				if !arr {
					b := append([]byte{mask}, make([]byte, 24)...)
					out = append(out, gridCase{b, fmt.Sprintf("mask=%#02x scalar", mask)})
					if dim {
						// dims bit without array bit: scalar then a dims block
						for _, dc := range []int32{-1, 0, 1, 2, 0x0fffffff} {
							bb := append([]byte{mask}, elemZero(typ, 1)...)
							bb = binary.LittleEndian.AppendUint32(bb, uint32(dc))
							bb = append(bb, 1, 0, 0, 0, 1, 0, 0, 0)
							out = append(out, gridCase{bb, fmt.Sprintf("mask=%#02x scalar+dims count=%d", mask, dc)})
						}
					}
					continue
				}
				for _, l := range lengths {
					base := binary.LittleEndian.AppendUint32([]byte{mask}, uint32(l))
					base = append(base, elemZero(typ, int(l))...)
					if !dim {
						out = append(out, gridCase{base, fmt.Sprintf("mask=%#02x len=%d", mask, l)})
						continue
					}
					dimsets := [][]int32{nil, {}, {l}, {1, l}, {0, 0}, {-1, -1}, {2, -1}, {0}, {1, 1, 1, 1, 1, 1, 1, 1}}
					// dims whose int32 product wraps to l: a*b == l + k*2^32
					for k := int64(1); k <= 2; k++ {
						target := int64(uint32(l)) + k<<32
						for _, a := range []int64{2, 3, 4, 5, 6, 7, 9, 10, 16, 255, 256, 641, 1000, 65536, 65537} {
							if target%a == 0 && target/a < 1<<31 && target/a > 0 {
								dimsets = append(dimsets, []int32{int32(a), int32(target / a)})
								dimsets = append(dimsets, []int32{int32(target / a), int32(a)})
								break
							}
						}
					}
					for _, ds := range dimsets {
						bb := append([]byte{}, base...)
						if ds == nil {
							for _, dc := range []int32{-1, -2, 0x0fffffff, 0x7fffffff} {
								b3 := binary.LittleEndian.AppendUint32(append([]byte{}, bb...), uint32(dc))
								out = append(out, gridCase{b3, fmt.Sprintf("mask=%#02x len=%d dimcount=%d", mask, l, dc)})
							}
							continue
						}
						bb = binary.LittleEndian.AppendUint32(bb, uint32(len(ds)))
						for _, d := range ds {
							bb = binary.LittleEndian.AppendUint32(bb, uint32(d))
						}
						out = append(out, gridCase{bb, fmt.Sprintf("mask=%#02x len=%d dims=%v", mask, l, ds)})
					}
				}
			}
		}
	}
	return out
}

func runDecodeCorpus(c *fw.Ctx, mode string) error {
	reg := gen.LoadRegistry()
	targets := decTargets(reg)
	r := &decRunner{c: c, mode: mode, reg: reg}
	r.guard = c.StartGuard(c02CPUBudget, c02HeapAbort)
	c.Extra("target_types", len(targets))
	variantT := decTarget{"ua.Variant", reflect.TypeOf((*ua.Variant)(nil))}
	diagT := decTarget{"ua.DiagnosticInfo", reflect.TypeOf((*ua.DiagnosticInfo)(nil))}
	var idx int64

	mine := func(i int64) bool { return int(i%int64(c.NBatch)) == c.Batch && i >= c.Resume }

	// 1. mutated valid encodings
	nmut := int64(c.Pick(40000, 3000000))
	for k := int64(0); k < nmut; k++ {
		i := idx
		idx++
		if !mine(i) {
			continue
		}
		rng := c.Rng("mut", i)
		tg := targets[int(i)%len(targets)]
		g := gen.New(rng, reg)
		var enc, other []byte
		if p := fw.Catch(func() {
			v := g.Value(tg.T)
			enc, _ = ua.Encode(v.Interface())
			other, _ = ua.Encode(g.Value(targets[rng.Intn(len(targets))].T).Interface())
		}); p != nil {
			continue // constructor problems are C01's business
		}
		in, mut := enc, "valid"
		if rng.Intn(20) > 0 {
			nm := 1 + rng.Intn(3)
			for m := 0; m < nm; m++ {
				in, mut = gen.Mutate(rng, in, other)
			}
		}
		dt := tg
		if rng.Intn(10) == 0 {
			dt = targets[rng.Intn(len(targets))]
			mut += "+other-type"
		}
		r.one("mut", i, dt, mut, in, "")
	}

	// 2. type-directed length bombs: every slice field of every type
	counts := []uint32{0x00ffffff, 0x01000000, 0x0fffffff, 0x7fffffff, 0x80000000, 0xfffffffe, 0x10000, 100000}
	if c.Quick() {
		counts = []uint32{0x00ffffff, 0x7fffffff, 0x80000000, 0xfffffffe}
	}
	for ti, tg := range targets {
		for _, sp := range gen.SlicePaths(tg.T) {
			var enc []byte
			var off int
			var ok bool
			fw.Catch(func() { enc, off, ok = gen.CountOffset(tg.T, sp) })
			for _, cnt := range counts {
				i := idx
				idx++
				if !ok || !mine(i) {
					continue
				}
				in := append([]byte{}, enc...)
				binary.LittleEndian.PutUint32(in[off:], cnt)
				if c.Quick() && ti%3 != int(i)%3 && cnt != 0x00ffffff {
					continue
				}
				r.one("bomb", i, tg, fmt.Sprintf("count(%s)=%#x", sp.Name, cnt), in, "")
			}
		}
	}

	// 3. Variant header grid
	for _, gc := range variantGrid() {
		i := idx
		idx++
		if !mine(i) {
			continue
		}
		r.one("grid", i, variantT, gc.desc, gc.b, "")
	}

	// 4. nesting towers
	// up to 2 MiB (the default message size limit) for every kind, plus one input of 16-25 MiB per kind (limits are
	// configurable): a decoder that still recurses per level ends with a fatal stack overflow there
	depths := []int{1, 10, 100, 1000, 10000, 100000, 1000000, 2 << 20, 16 << 20}
	for _, kind := range []string{"variant", "diag", "datavalue", "variant-array", "extobj", "literal-operand"} {
		for _, d := range depths {
			i := idx
			idx++
			if !mine(i) {
				continue
			}
			switch {
			case kind == "extobj" && d == 16<<20:
				d = 1500000 // 16 bytes per level: 24 MiB
			case kind == "literal-operand" && d == 16<<20:
				d = 2500000 // 10 bytes per level: 25 MiB
			case kind == "datavalue" && d == 16<<20:
				d = 8 << 20
			case kind == "variant-array" && d == 16<<20:
				d = 4 << 20
			case (kind == "extobj" || kind == "literal-operand") && d > 100000:
				continue
			case (kind == "datavalue" && d > 1<<20) || (kind == "variant-array" && d > 400000):
				continue
			}
			tg := variantT
			if kind == "diag" {
				tg = diagT
			}
			in := towerInput(kind, d)
			r.one("tower", i, tg, "", in, fmt.Sprintf("tower:%s:%d", kind, d))
		}
	}

	// 4b. wide nested arrays around a failing core: d levels of Variant arrays that each claim K elements, then junk.
	// Decoding has to give up at the first failure instead of trying the rest of every level (K^d work).
	for _, d := range []int{2, 3, 4, 5, 6, 7} {
		for _, k := range []int{16, 64, 255} {
			for _, core := range []byte{0x3f, 0xff, 0x98} {
				i := idx
				idx++
				if !mine(i) {
					continue
				}
				in := make([]byte, 0, 5*d+k)
				for l := 0; l < d; l++ {
					in = append(in, 0x98)
					in = binary.LittleEndian.AppendUint32(in, uint32(k))
				}
				for j := 0; j < k; j++ {
					in = append(in, core)
				}
				r.one("wide", i, variantT, "wide nested arrays around a failing core", in, "")
			}
		}
	}

	// 5. random bytes
	nrand := int64(c.Pick(10000, 1000000))
	for k := int64(0); k < nrand; k++ {
		i := idx
		idx++
		if !mine(i) {
			continue
		}
		rng := c.Rng("rand", i)
		in := make([]byte, rng.Intn(64))
		rng.Read(in)
		if rng.Intn(2) == 0 { // favour small numbers, which look like masks and counts
			for j := range in {
				if rng.Intn(2) == 0 {
					in[j] = byte(rng.Intn(4))
				}
			}
		}
		r.one("rand", i, targets[rng.Intn(len(targets))], "random", in, "")
	}

	// 6. C03 targeted non-canonical forms inside containers
	for _, tc := range c03Targeted() {
		i := idx
		idx++
		if !mine(i) {
			continue
		}
		r.one("targeted", i, tc.tg, tc.desc, tc.b, "")
	}
	return nil
}

type targetedCase struct {
	tg   decTarget
	desc string
	b    []byte
}

// c03Targeted: non-canonical forms placed inside a container (an array of two
// elements, the second a marker), so that a length disagreement shows up as a
// changed sibling.
func c03Targeted() []targetedCase {
	var out []targetedCase
	varT := decTarget{"ua.Variant", reflect.TypeOf((*ua.Variant)(nil))}
	dvT := decTarget{"ua.DataValue", reflect.TypeOf((*ua.DataValue)(nil))}
	eoT := decTarget{"ua.ExtensionObject", reflect.TypeOf((*ua.ExtensionObject)(nil))}
	marker := []byte{0x06, 0x78, 0x56, 0x34, 0x12} // Variant Int32 0x12345678
	wrap := func(elem []byte, typ byte) []byte {   // Variant array[2] of typ: elem, then for Variant arrays a marker
		b := []byte{0x80 | typ, 2, 0, 0, 0}
		b = append(b, elem...)
		return append(b, elem...)
	}
	// ExtensionObject forms
	for _, mask := range []byte{0, 1, 2, 3, 0xff} {
		for _, tid := range [][]byte{{0x00, 0x00}, {0x01, 0x00, 0xff, 0xff}, {0x01, 0x00, 0xfe, 0x39}, {0x01, 0x00, 0x41, 0x01}} {
			for _, body := range [][]byte{nil, {}, {0xaa, 0xbb}, {0xff, 0xff, 0xff, 0xff}, make([]byte, 12)} {
				eo := append(append([]byte{}, tid...), mask)
				if mask != 0 {
					if body == nil {
						eo = append(eo, 0xff, 0xff, 0xff, 0xff)
					} else {
						eo = binary.LittleEndian.AppendUint32(eo, uint32(len(body)))
						eo = append(eo, body...)
					}
				}
				desc := fmt.Sprintf("extobj typeid=%x mask=%#x body=%x", tid, mask, body)
				out = append(out, targetedCase{eoT, desc, eo})
				out = append(out, targetedCase{varT, "array of " + desc, wrap(eo, 22)})
				// inside a Variant array of Variants followed by the marker
				b := []byte{0x98, 2, 0, 0, 0, 0x16}
				b = append(b, eo...)
				b = append(b, marker...)
				out = append(out, targetedCase{varT, "variant[extobj,marker] " + desc, b})
			}
		}
	}
	// every registered type without fields in an ExtensionObject with a body of length zero (decodes to an empty
	// value, which is not the same as no value)
	for _, nt := range gen.LoadRegistry().ExtObjs {
		if nt.Type.Kind() != reflect.Ptr || nt.Type.Elem().Kind() != reflect.Struct || nt.Type.Elem().NumField() != 0 {
			continue
		}
		nid, err := ua.ParseNodeID(nt.ID)
		if err != nil || nid.Namespace() != 0 || nid.IntID() == 0 || nid.IntID() > 0xffff {
			continue
		}
		eo := []byte{0x01, 0x00, byte(nid.IntID()), byte(nid.IntID() >> 8), 0x01, 0, 0, 0, 0}
		desc := fmt.Sprintf("extobj of fieldless type %s (%s) with an empty body", nt.ID, nt.Type.Elem().Name())
		out = append(out, targetedCase{eoT, desc, eo})
		b := []byte{0x98, 2, 0, 0, 0, 0x16}
		b = append(b, eo...)
		b = append(b, marker...)
		out = append(out, targetedCase{varT, "variant[extobj,marker] " + desc, b})
	}
	// Variant masks: dims bit without array bit, null type with flags
	for typ := 0; typ < 26; typ++ {
		for _, fl := range []byte{0x40, 0x80, 0xc0} {
			m := byte(typ) | fl
			inner := append([]byte{m}, make([]byte, 16)...)
			b := []byte{0x98, 2, 0, 0, 0}
			b = append(b, inner...)
			b = append(b, marker...)
			out = append(out, targetedCase{varT, fmt.Sprintf("variant[mask=%#02x zeros, marker]", m), b})
			out = append(out, targetedCase{varT, fmt.Sprintf("mask=%#02x zeros", m), inner})
			d := append([]byte{0x03}, inner[:1]...) // DataValue value+status
			d = append(d, make([]byte, 24)...)
			out = append(out, targetedCase{dvT, fmt.Sprintf("datavalue(variant mask=%#02x)", m), d})
		}
	}
	// reserved mask bits
	for m := 0; m < 256; m++ {
		out = append(out, targetedCase{dvT, fmt.Sprintf("datavalue mask=%#02x", m), append([]byte{byte(m), 0x00}, make([]byte, 40)...)})
		out = append(out, targetedCase{decTarget{"ua.LocalizedText", reflect.TypeOf((*ua.LocalizedText)(nil))}, fmt.Sprintf("localizedtext mask=%#02x", m),
			append([]byte{byte(m)}, 1, 0, 0, 0, 'a', 1, 0, 0, 0, 'b', 9, 9)})
		out = append(out, targetedCase{decTarget{"ua.DiagnosticInfo", reflect.TypeOf((*ua.DiagnosticInfo)(nil))}, fmt.Sprintf("diag mask=%#02x", m),
			append([]byte{byte(m)}, make([]byte, 40)...)})
		out = append(out, targetedCase{decTarget{"ua.NodeID", reflect.TypeOf((*ua.NodeID)(nil))}, fmt.Sprintf("nodeid mask=%#02x", m),
			append([]byte{byte(m)}, 1, 0, 2, 0, 0, 0, 'a', 'b', 0, 0, 0, 0, 0, 0, 0, 0, 0, 0, 0, 0)})
		out = append(out, targetedCase{decTarget{"ua.ExpandedNodeID", reflect.TypeOf((*ua.ExpandedNodeID)(nil))}, fmt.Sprintf("expnodeid mask=%#02x", m),
			append([]byte{byte(m)}, 1, 0, 2, 0, 0, 0, 'a', 'b', 1, 0, 0, 0, 'u', 7, 0, 0, 0, 0, 0, 0, 0, 0, 0, 0)})
	}
	return out
}

func decodeReplay(mode string) func(c *fw.Ctx, w json.RawMessage) error {
	return func(c *fw.Ctx, raw json.RawMessage) error {
		var w decWitness
		if err := json.Unmarshal(raw, &w); err != nil {
			return err
		}
		reg := gen.LoadRegistry()
		var tg *decTarget
		for _, t := range decTargets(reg) {
			if t.Name == w.Type {
				t := t
				tg = &t
			}
		}
		if tg == nil {
			return fmt.Errorf("unknown type %s", w.Type)
		}
		var in []byte
		if w.Recipe != "" {
			var kind string
			var d int
			if _, err := fmt.Sscanf(w.Recipe, "tower:%s", &kind); err == nil {
				// kind holds "name:depth"
				for i := len(kind) - 1; i >= 0; i-- {
					if kind[i] == ':' {
						fmt.Sscanf(kind[i+1:], "%d", &d)
						kind = kind[:i]
						break
					}
				}
			}
			in = towerInput(kind, d)
		} else {
			b, err := hex.DecodeString(w.Hex)
			if err != nil {
				return err
			}
			in = b
		}
		r := &decRunner{c: c, mode: mode, reg: reg}
		r.guard = c.StartGuard(c02CPUBudget, c02HeapAbort)
		r.one(w.Stream, w.Case, *tg, w.Mut, in, w.Recipe)
		return nil
	}
}

func init() {
	_ = sort.Strings
	fw.Register("C02", fw.Spec{
		Plan: func(tier string) fw.Plan {
			p := fw.Plan{Batches: 8, TimeoutS: 600, MinNontrivial: 20000, Level: "exploration", MemLimitMB: 12288,
				Rule: "hostile corpus against every decodable type of the tree under test: structure-aware mutations of valid encodings (bit flips, boundary bytes, 4-byte windows set to length boundaries, truncation, splice, extension), type-directed length bombs for every slice field of every type, a Variant header grid (type x array bit x dims bit x length x dims, including dims whose int32 product wraps to the length), nesting towers up to 2 MiB, random bytes; distinct = distinct (target type, input) pairs; every input is non-trivial (it is not a plain valid encoding except for 5% controls)",
				Assumptions: []string{"memory bound instantiated as: bytes allocated during the call <= 1024*len(input) + 16 MiB (cumulative allocation, measured with runtime/metrics; the largest ratio observed is in coverage.extrema)",
					"'promptly' instantiated as <= 20 s of process CPU time per call (logical clock, load-independent)",
					"inputs up to 2 MiB (the default MaxMessageSize)"}}
			if tier == "thorough" {
				p.Batches = 16
				p.TimeoutS = 3000
				p.MinNontrivial = 1000000
			}
			return p
		},
		Run:    func(c *fw.Ctx) error { return runDecodeCorpus(c, "C02") },
		Replay: decodeReplay("C02"),
	})
	fw.Register("C03", fw.Spec{
		Plan: func(tier string) fw.Plan {
			p := fw.Plan{Batches: 8, TimeoutS: 600, MinNontrivial: 5000, Level: "exploration", MemLimitMB: 12288,
				Rule:        "the C02 corpus (mutated valid encodings, length bombs, Variant header grid, towers, wide nested arrays around a failing core, random bytes) plus targeted non-canonical forms inside containers (ExtensionObjects with unknown type ids / empty bodies / every mask, Variant masks with the dims bit but not the array bit, reserved mask bits of DataValue, LocalizedText, DiagnosticInfo, NodeID, ExpandedNodeID); every input that decodes is re-encoded and decoded again; distinct = distinct (type, input) pairs, non-trivial = all (the oracle only fires on the subset that decodes; that count is in coverage.classes['c03:decoded'])",
				Assumptions: []string{"equality as in C01 (nil==empty, 100ns, NaN, DataValue fields iff mask bit)"}}
			if tier == "thorough" {
				p.Batches = 16
				p.TimeoutS = 3000
				p.MinNontrivial = 500000
			}
			return p
		},
		Run:    func(c *fw.Ctx) error { return runDecodeCorpus(c, "C03") },
		Replay: decodeReplay("C03"),
	})
}
