package props

import (
	"context"
	"encoding/json"
	"fmt"
	"math/rand"
	"sort"
	"sync"
	"sync/atomic"
	"time"

	"github.com/gopcua/opcua"
	"github.com/gopcua/opcua/ua"

	"verifharness/fw"
	"verifharness/refpeer"
)

// C26: subscriptions survive reconnects and notifications are acknowledged once. The scripted server keeps a
// subscription model with retransmission queues and a ledger of everything it sent and every acknowledgement it
// was given; the application records what it receives. Values are self-identifying (server subscription id, sequence
// number), so both sides' records can be joined.

type c26Key struct{ Sub, Seq uint32 }

func (k c26Key) String() string { return fmt.Sprintf("%d/%d", k.Sub, k.Seq) }

type c26Fault struct {
	After int64  `json:"after_requests"`                         // requests seen since the previous fault (or since steady state)
	Kind  string `json:"kind"`                                   // channel-loss | session-loss | restart
	Lose  int    `json:"notifications_lost_in_flight,omitempty"` // messages the server has sent when the connection breaks but which never arrive
}

type c26Case struct {
	Index    int64      `json:"index"`
	Seed     int64      `json:"seed"`
	Subs     int        `json:"subscriptions"`
	Items    int        `json:"items_per_subscription"`
	Transfer string     `json:"transfer_subscriptions"` // supported | unsupported | invalid
	Faults   []c26Fault `json:"faults"`
	Detail   string     `json:"detail,omitempty"`
	Log      []string   `json:"server_log,omitempty"`
}

type c26Pub struct {
	sc      *refpeer.SrvConn
	m       *refpeer.Msg
	req     *ua.PublishRequest
	sess    string
	results []ua.StatusCode
	keys    []c26Key
}

type c26SrvSub struct {
	id      uint32
	sess    string
	handles []uint32
	first   uint32 // sequence numbers of this incarnation are > first
	seq     uint32
	queue   map[uint32]*ua.NotificationMessage
}

type c26Srv struct {
	srv      *refpeer.Server
	mu       sync.Mutex
	subs     map[uint32]*c26SrvSub
	nextSub  uint32
	epoch    uint32 // restarts so far; sequence numbers start at epoch*100000 so that (id, sequence number) stays unique although ids are reused
	held     []*c26Pub
	transfer string

	reconnecting    bool // a fault has been injected and no PublishRequest has arrived since (the client pauses publishing until a reconnect is complete)
	faultInRecreate bool // a further fault was injected in that state: the reconnect was interrupted

	sent     map[c26Key]int      // times written to a connection (publish or republish)
	acks     map[c26Key][]string // results given, in order
	answered map[c26Key]int      // connection index + 1 on which a response carrying the key's result was written
	dupAcks  []string
	badAcks  []string
	goodAck  map[c26Key]bool
	pubSeen  int64
	log      []string

	republished, republishMiss, lost int64

	life    sync.RWMutex // held shared by request handlers, exclusively by a restart
	minConn int          // connections with a lower index belong to a previous life of the server

	reqCount int64
	lastReq  time.Time
	faults   []c26Fault
	faultsMu sync.Mutex
	armed    bool
	nfaults  int
}

func (s *c26Srv) logf(f string, v ...interface{}) {
	if len(s.log) < 400 {
		s.log = append(s.log, fmt.Sprintf(f, v...))
	}
}

func (s *c26Srv) sessionOf(sc *refpeer.SrvConn, m *refpeer.Msg) (string, bool) {
	rq, ok := m.Service.(ua.Request)
	if !ok || rq.Header() == nil {
		return "", false
	}
	sess := s.srv.Session(rq.Header().AuthenticationToken)
	if sess == nil || sess.Closed || !sess.Activated {
		return "", false
	}
	return sess.AuthToken.String(), true
}

func (s *c26Srv) handle(sc *refpeer.SrvConn, m *refpeer.Msg) {
	// a restarted server does not see requests of connections of its previous life
	s.life.RLock()
	defer s.life.RUnlock()
	if sc.Index < s.minConn {
		return
	}
	s.tick()
	if s.srv.Default(sc, m) {
		return
	}
	sess, ok := s.sessionOf(sc, m)
	if !ok {
		sc.Fault(m, ua.StatusBadSessionIDInvalid)
		return
	}
	switch req := m.Service.(type) {
	case *ua.CreateSubscriptionRequest:
		s.mu.Lock()
		s.nextSub++
		sub := &c26SrvSub{id: s.nextSub, sess: sess, queue: map[uint32]*ua.NotificationMessage{}, first: s.epoch * 100000, seq: s.epoch * 100000}
		s.subs[sub.id] = sub
		s.logf("conn %d: CreateSubscription -> %d", sc.Index, sub.id)
		s.mu.Unlock()
		sc.Reply(m, &ua.CreateSubscriptionResponse{ResponseHeader: refpeer.RespHeader(req, ua.StatusOK), SubscriptionID: sub.id, RevisedPublishingInterval: 10, RevisedLifetimeCount: 6000, RevisedMaxKeepAliveCount: 2000})
	case *ua.CreateMonitoredItemsRequest:
		s.mu.Lock()
		sub := s.subs[req.SubscriptionID]
		if sub == nil || sub.sess != sess {
			s.mu.Unlock()
			sc.Fault(m, ua.StatusBadSubscriptionIDInvalid)
			return
		}
		res := make([]*ua.MonitoredItemCreateResult, len(req.ItemsToCreate))
		for i, it := range req.ItemsToCreate {
			sub.handles = append(sub.handles, it.RequestedParameters.ClientHandle)
			res[i] = &ua.MonitoredItemCreateResult{StatusCode: ua.StatusOK, MonitoredItemID: uint32(len(sub.handles)), RevisedSamplingInterval: 10, RevisedQueueSize: 1, FilterResult: ua.NewExtensionObject(nil)}
		}
		s.logf("conn %d: CreateMonitoredItems sub %d handles %v", sc.Index, sub.id, sub.handles)
		s.mu.Unlock()
		sc.Reply(m, &ua.CreateMonitoredItemsResponse{ResponseHeader: refpeer.RespHeader(req, ua.StatusOK), Results: res, DiagnosticInfos: []*ua.DiagnosticInfo{}})
	case *ua.DeleteSubscriptionsRequest:
		res := make([]ua.StatusCode, len(req.SubscriptionIDs))
		s.mu.Lock()
		for i, id := range req.SubscriptionIDs {
			if sub := s.subs[id]; sub != nil && sub.sess == sess {
				delete(s.subs, id)
			} else {
				res[i] = ua.StatusBadSubscriptionIDInvalid
			}
		}
		s.logf("conn %d: DeleteSubscriptions %v -> %v", sc.Index, req.SubscriptionIDs, res)
		s.mu.Unlock()
		sc.Reply(m, &ua.DeleteSubscriptionsResponse{ResponseHeader: refpeer.RespHeader(req, ua.StatusOK), Results: res, DiagnosticInfos: []*ua.DiagnosticInfo{}})
	case *ua.TransferSubscriptionsRequest:
		if s.transfer == "unsupported" {
			sc.Fault(m, ua.StatusBadServiceUnsupported)
			return
		}
		res := make([]*ua.TransferResult, len(req.SubscriptionIDs))
		s.mu.Lock()
		for i, id := range req.SubscriptionIDs {
			res[i] = &ua.TransferResult{StatusCode: ua.StatusBadSubscriptionIDInvalid, AvailableSequenceNumbers: []uint32{}}
			sub := s.subs[id]
			if sub == nil {
				continue
			}
			if s.transfer == "invalid" {
				delete(s.subs, id)
				continue
			}
			sub.sess = sess
			res[i].StatusCode = ua.StatusOK
			for q := range sub.queue {
				res[i].AvailableSequenceNumbers = append(res[i].AvailableSequenceNumbers, q)
			}
			sort.Slice(res[i].AvailableSequenceNumbers, func(a, b int) bool {
				return res[i].AvailableSequenceNumbers[a] < res[i].AvailableSequenceNumbers[b]
			})
		}
		s.logf("conn %d: TransferSubscriptions %v (%s)", sc.Index, req.SubscriptionIDs, s.transfer)
		s.mu.Unlock()
		sc.Reply(m, &ua.TransferSubscriptionsResponse{ResponseHeader: refpeer.RespHeader(req, ua.StatusOK), Results: res, DiagnosticInfos: []*ua.DiagnosticInfo{}})
	case *ua.RepublishRequest:
		s.mu.Lock()
		sub := s.subs[req.SubscriptionID]
		if sub == nil || sub.sess != sess {
			s.mu.Unlock()
			sc.Fault(m, ua.StatusBadSubscriptionIDInvalid)
			return
		}
		msg := sub.queue[req.RetransmitSequenceNumber]
		if msg != nil {
			s.sent[c26Key{sub.id, msg.SequenceNumber}]++
			s.republished++
		} else {
			s.republishMiss++
		}
		s.logf("conn %d: Republish %d/%d -> %v", sc.Index, req.SubscriptionID, req.RetransmitSequenceNumber, msg != nil)
		s.mu.Unlock()
		if msg == nil {
			sc.Fault(m, ua.StatusBadMessageNotAvailable)
			return
		}
		sc.Reply(m, &ua.RepublishResponse{ResponseHeader: refpeer.RespHeader(req, ua.StatusOK), NotificationMessage: msg})
	case *ua.PublishRequest:
		atomic.AddInt64(&s.pubSeen, 1)
		p := &c26Pub{sc: sc, m: m, req: req, sess: sess, results: make([]ua.StatusCode, len(req.SubscriptionAcknowledgements))}
		s.mu.Lock()
		s.reconnecting = false
		for i, a := range req.SubscriptionAcknowledgements {
			k := c26Key{a.SubscriptionID, a.SequenceNumber}
			p.keys = append(p.keys, k)
			if s.answered[k] == sc.Index+1 {
				s.dupAcks = append(s.dupAcks, fmt.Sprintf("%v acknowledged again on connection %d after the result of its acknowledgement had been returned on that connection (results so far %v)", k, sc.Index, s.acks[k]))
			}
			if s.sent[k] == 0 {
				s.badAcks = append(s.badAcks, fmt.Sprintf("%v acknowledged but never sent", k))
			}
			sub := s.subs[a.SubscriptionID]
			switch {
			case sub == nil || sub.sess != sess:
				p.results[i] = ua.StatusBadSubscriptionIDInvalid
			case sub.queue[a.SequenceNumber] == nil:
				p.results[i] = ua.StatusBadSequenceNumberUnknown
			default:
				delete(sub.queue, a.SequenceNumber)
				s.goodAck[k] = true
			}
			s.acks[k] = append(s.acks[k], p.results[i].Error())
		}
		has := false
		for _, sub := range s.subs {
			if sub.sess == sess {
				has = true
			}
		}
		if has {
			s.held = append(s.held, p)
		}
		s.mu.Unlock()
		if !has {
			sc.Fault(m, ua.StatusBadNoSubscription)
		}
	default:
		if _, ok := m.Service.(ua.Request); ok {
			sc.Fault(m, ua.StatusBadServiceUnsupported)
		}
	}
}

// emit answers one held publish request per session that has one: a data notification for one of the session's
// subscriptions (round robin by lowest sequence number), or a keep-alive.
func (s *c26Srv) emit(keepalive bool) int {
	s.mu.Lock()
	var rest []*c26Pub
	type out struct {
		p    *c26Pub
		resp *ua.PublishResponse
	}
	var outs []out
	for _, p := range s.held {
		select {
		case <-p.sc.Done:
			continue // the connection is gone; the request with it
		default:
		}
		var sub *c26SrvSub
		for _, x := range s.subs {
			if x.sess == p.sess && (sub == nil || x.seq < sub.seq || x.seq == sub.seq && x.id < sub.id) {
				sub = x
			}
		}
		if sub == nil {
			rest = append(rest, p)
			continue
		}
		msg := &ua.NotificationMessage{SequenceNumber: sub.seq + 1, PublishTime: time.Now(), NotificationData: []*ua.ExtensionObject{}}
		if !keepalive {
			sub.seq++
			dcn := &ua.DataChangeNotification{DiagnosticInfos: []*ua.DiagnosticInfo{}}
			for _, h := range sub.handles {
				dcn.MonitoredItems = append(dcn.MonitoredItems, &ua.MonitoredItemNotification{ClientHandle: h, Value: &ua.DataValue{EncodingMask: ua.DataValueValue, Value: ua.MustVariant(int64(sub.id)<<32 | int64(sub.seq))}})
			}
			eo := ua.NewExtensionObject(dcn)
			eo.UpdateMask()
			msg.NotificationData = []*ua.ExtensionObject{eo}
			sub.queue[sub.seq] = msg
			s.sent[c26Key{sub.id, sub.seq}]++
		}
		avail := []uint32{}
		for q := range sub.queue {
			avail = append(avail, q)
		}
		sort.Slice(avail, func(a, b int) bool { return avail[a] < avail[b] })
		outs = append(outs, out{p, &ua.PublishResponse{ResponseHeader: refpeer.RespHeader(p.req, ua.StatusOK), SubscriptionID: sub.id, NotificationMessage: msg, AvailableSequenceNumbers: avail, Results: p.results, DiagnosticInfos: []*ua.DiagnosticInfo{}}})
	}
	s.held = rest
	s.mu.Unlock()
	for _, o := range outs {
		if err := o.p.sc.Reply(o.p.m, o.resp); err == nil {
			s.mu.Lock()
			for _, k := range o.p.keys {
				s.answered[k] = o.p.sc.Index + 1
			}
			s.mu.Unlock()
		}
	}
	return len(outs)
}

// tick counts requests and injects the next fault when its turn has come.
func (s *c26Srv) tick() { s.tickN(1) }

// tickN with n == 0 is the idle tick of the publisher: when no request has arrived for 300 ms the next fault is
// injected anyway (a client that has lost all of its subscriptions sends nothing any more).
func (s *c26Srv) tickN(n int64) {
	s.faultsMu.Lock()
	defer s.faultsMu.Unlock()
	if !s.armed || len(s.faults) == 0 {
		return
	}
	if n > 0 {
		s.lastReq = time.Now()
	}
	s.reqCount += n
	if s.reqCount < s.faults[0].After && (n > 0 || time.Since(s.lastReq) < 300*time.Millisecond) {
		return
	}
	s.lastReq = time.Now()
	f := s.faults[0]
	s.faults = s.faults[1:]
	s.reqCount = 0
	s.nfaults++
	go s.inject(f.Kind, f.Lose)
}

// loseInFlight makes n notification messages that are "on the wire" when the connection breaks: they are in the
// retransmission queues, the publish requests they answered are gone, the client never sees them unless it asks
// for them again.
func (s *c26Srv) loseInFlight(n int) {
	for ; n > 0 && len(s.held) > 0; n-- {
		p := s.held[0]
		s.held = s.held[1:]
		var sub *c26SrvSub
		for _, x := range s.subs {
			if x.sess == p.sess && (sub == nil || x.id < sub.id) {
				sub = x
			}
		}
		if sub == nil {
			continue
		}
		sub.seq++
		dcn := &ua.DataChangeNotification{DiagnosticInfos: []*ua.DiagnosticInfo{}}
		for _, h := range sub.handles {
			dcn.MonitoredItems = append(dcn.MonitoredItems, &ua.MonitoredItemNotification{ClientHandle: h, Value: &ua.DataValue{EncodingMask: ua.DataValueValue, Value: ua.MustVariant(int64(sub.id)<<32 | int64(sub.seq))}})
		}
		eo := ua.NewExtensionObject(dcn)
		eo.UpdateMask()
		sub.queue[sub.seq] = &ua.NotificationMessage{SequenceNumber: sub.seq, PublishTime: time.Now(), NotificationData: []*ua.ExtensionObject{eo}}
		s.sent[c26Key{sub.id, sub.seq}]++
		s.lost++
		s.logf("message %d/%d lost in flight", sub.id, sub.seq)
	}
}

func (s *c26Srv) inject(kind string, lose int) {
	if kind == "restart" {
		s.life.Lock()
		defer s.life.Unlock()
		s.minConn = s.srv.NumConns()
	}
	s.mu.Lock()
	s.logf("FAULT %s", kind)
	if s.reconnecting {
		s.faultInRecreate = true
	}
	s.reconnecting = true
	if kind != "restart" {
		s.loseInFlight(lose)
	}
	switch kind {
	case "session-loss":
		s.srv.ForgetSessions()
	case "restart":
		s.srv.ForgetSessions()
		s.subs = map[uint32]*c26SrvSub{}
		s.nextSub = 0
		s.epoch++
		s.held = nil
	}
	s.mu.Unlock()
	s.srv.DropConns(kind == "restart")
}

func (s *c26Srv) faultsLeft() int {
	s.faultsMu.Lock()
	defer s.faultsMu.Unlock()
	return len(s.faults)
}

type c26App struct {
	sub     *opcua.Subscription
	handles []uint32
	ch      chan *opcua.PublishNotificationData
	mu      sync.Mutex
	got     map[c26Key]map[uint32]bool // key -> handles seen
	errs    int
	other   int
}

func c26One(c *fw.Ctx, cs c26Case) {
	r := rand.New(rand.NewSource(cs.Seed))
	srv, err := refpeer.NewServer(refpeer.ServerOpts{})
	if err != nil {
		c.Inconclusive("listen: " + err.Error())
		return
	}
	defer srv.Close()
	st := &c26Srv{srv: srv, subs: map[uint32]*c26SrvSub{}, transfer: cs.Transfer, sent: map[c26Key]int{}, acks: map[c26Key][]string{}, answered: map[c26Key]int{}, goodAck: map[c26Key]bool{}, faults: append([]c26Fault{}, cs.Faults...)}
	srv.Handler = st.handle
	bg := context.Background()
	cl, err := opcua.NewClient(srv.Endpoint(), opcua.SecurityMode(ua.MessageSecurityModeNone), opcua.AutoReconnect(true), opcua.ReconnectInterval(20*time.Millisecond), opcua.RequestTimeout(1500*time.Millisecond))
	if err == nil {
		x, cancel := context.WithTimeout(bg, 15*time.Second)
		err = cl.Connect(x)
		cancel()
	}
	if err != nil {
		c.Inconclusive("connect: " + classOf(err.Error()))
		return
	}
	defer func() {
		x, cancel := context.WithTimeout(bg, 2*time.Second)
		cl.Close(x)
		cancel()
	}()
	var apps []*c26App
	handle := uint32(10)
	for i := 0; i < cs.Subs; i++ {
		a := &c26App{ch: make(chan *opcua.PublishNotificationData, 1<<14), got: map[c26Key]map[uint32]bool{}}
		x, cancel := context.WithTimeout(bg, 5*time.Second)
		a.sub, err = cl.Subscribe(x, &opcua.SubscriptionParameters{Interval: 10 * time.Millisecond}, a.ch)
		if err == nil {
			var reqs []*ua.MonitoredItemCreateRequest
			for k := 0; k < cs.Items; k++ {
				handle++
				a.handles = append(a.handles, handle)
				reqs = append(reqs, opcua.NewMonitoredItemCreateRequestWithDefaults(ua.NewStringNodeID(1, fmt.Sprintf("n%d", handle)), ua.AttributeIDValue, handle))
			}
			// items of one subscription created with different TimestampsToReturn values (the client recreates
			// them in one request per value)
			if len(reqs) > 1 {
				_, err = a.sub.Monitor(x, ua.TimestampsToReturnSource, reqs[len(reqs)-1:]...)
				reqs = reqs[:len(reqs)-1]
			}
			if err == nil {
				_, err = a.sub.Monitor(x, ua.TimestampsToReturnBoth, reqs...)
			}
		}
		cancel()
		if err != nil {
			c.Inconclusive("subscribe: " + classOf(err.Error()))
			return
		}
		apps = append(apps, a)
		go func(a *c26App) {
			for d := range a.ch {
				a.mu.Lock()
				switch v := d.Value.(type) {
				case *ua.DataChangeNotification:
					for _, it := range v.MonitoredItems {
						if it.Value == nil || it.Value.Value == nil {
							continue
						}
						x, _ := it.Value.Value.Value().(int64)
						k := c26Key{uint32(x >> 32), uint32(x)}
						if a.got[k] == nil {
							a.got[k] = map[uint32]bool{}
						}
						a.got[k][it.ClientHandle] = true
					}
				default:
					if d.Error != nil {
						a.errs++
					} else {
						a.other++
					}
				}
				a.mu.Unlock()
			}
		}(a)
	}
	// steady state: a few notifications, then the faults are armed; the server keeps publishing throughout
	stopEmit := make(chan struct{})
	var emitted int64
	er := rand.New(rand.NewSource(r.Int63()))
	go func() {
		for {
			select {
			case <-stopEmit:
				return
			case <-time.After(time.Duration(1+er.Intn(4)) * time.Millisecond):
			}
			atomic.AddInt64(&emitted, int64(st.emit(er.Intn(5) == 0)))
			st.tickN(0)
		}
	}()
	time.Sleep(time.Duration(20+r.Intn(40)) * time.Millisecond)
	st.faultsMu.Lock()
	st.armed, st.lastReq = true, time.Now()
	st.faultsMu.Unlock()
	// wait until all faults have been injected and the client reports Connected again
	settled := make(chan struct{})
	stopSettle := make(chan struct{})
	go func() {
		stable := 0
		for stable < 50 {
			select {
			case <-stopSettle:
				return
			default:
			}
			if st.faultsLeft() == 0 && cl.State() == opcua.Connected {
				stable++
			} else {
				stable = 0
			}
			time.Sleep(2 * time.Millisecond)
		}
		close(settled)
	}()
	ok := fw.WaitBeats(settled, 15000)
	close(stopSettle)
	finish := func() { close(stopEmit) }
	if !ok {
		finish()
		st.mu.Lock()
		n := st.nfaults
		st.mu.Unlock()
		c.Inconclusive(fmt.Sprintf("no stable Connected state after %d fault(s) within 15000 heartbeats (state %v, faults left %d): precondition of the property not reached", n, cl.State(), st.faultsLeft()))
		return
	}
	c.Class(fmt.Sprintf("faults-injected:%d", len(cs.Faults)), 1)
	// survival: every subscription of the application receives a message with all of its items that was sent after now
	mark := map[*c26App]map[c26Key]bool{}
	for _, a := range apps {
		a.mu.Lock()
		m := map[c26Key]bool{}
		for k := range a.got {
			m[k] = true
		}
		mark[a] = m
		a.mu.Unlock()
	}
	alive := func() (bool, string) {
		for i, a := range apps {
			a.mu.Lock()
			found := false
			for k, hs := range a.got {
				if mark[a][k] {
					continue
				}
				all := true
				for _, h := range a.handles {
					if !hs[h] {
						all = false
					}
				}
				if all {
					found = true
					break
				}
			}
			a.mu.Unlock()
			if !found {
				id := a.sub.SubscriptionID
				st.mu.Lock()
				ss := st.subs[id]
				desc := "unknown to the server"
				if ss != nil {
					desc = fmt.Sprintf("on the server with handles %v, sequence number %d", ss.handles, ss.seq)
				}
				st.mu.Unlock()
				return false, fmt.Sprintf("subscription #%d of the application (id %d, items %v) received no new notification with all of its items; it is %s", i, id, a.handles, desc)
			}
		}
		return true, ""
	}
	adone := make(chan struct{})
	astop := make(chan struct{})
	go func() {
		for {
			if ok, _ := alive(); ok {
				close(adone)
				return
			}
			select {
			case <-astop:
				return
			case <-time.After(3 * time.Millisecond):
			}
		}
	}()
	ok = fw.WaitBeats(adone, 10000)
	close(astop)
	if !ok {
		_, why := alive()
		finish()
		st.mu.Lock()
		cs.Log = append([]string{}, st.log...)
		st.mu.Unlock()
		cs.Detail = fmt.Sprintf("client Connected again after %v, the server publishes for every subscription of the session, but 10000 heartbeats later %s (publish requests seen %d, responses sent %d)", cs.Faults, why, atomic.LoadInt64(&st.pubSeen), atomic.LoadInt64(&emitted))
		st.mu.Lock()
		interrupted := st.faultInRecreate
		st.mu.Unlock()
		if interrupted {
			// a further fault hit the client before it had completed the previous reconnect
			c.Violation("c26:subscription-lost-when-reconnect-is-interrupted", cs.Detail, cs)
			return
		}
		c.Violation("c26:subscription-silent-after-reconnect:"+cs.Faults[len(cs.Faults)-1].Kind+"/"+cs.Transfer, cs.Detail, cs)
		return
	}
	c.Class("all-subscriptions-deliver-after:"+cs.Faults[len(cs.Faults)-1].Kind+"/"+cs.Transfer, 1)
	// acknowledgements: everything the application received from a subscription that still exists gets acknowledged
	unacked := func() []string {
		var out []string
		st.mu.Lock()
		defer st.mu.Unlock()
		for _, a := range apps {
			a.mu.Lock()
			for k := range a.got {
				if st.subs[k.Sub] == nil || k.Seq <= st.subs[k.Sub].first {
					continue // that subscription is gone (its id may have been reused after a restart)
				}
				if len(st.acks[k]) == 0 {
					out = append(out, k.String())
				}
			}
			a.mu.Unlock()
		}
		sort.Strings(out)
		return out
	}
	// stop data, keep-alives only, until everything received so far has been acknowledged
	close(stopEmit)
	kdone := make(chan struct{})
	kstop := make(chan struct{})
	go func() {
		quiet := 0
		for {
			st.emit(true)
			if len(unacked()) == 0 {
				quiet++
				if quiet > 3 {
					close(kdone)
					return
				}
			}
			select {
			case <-kstop:
				return
			case <-time.After(3 * time.Millisecond):
			}
		}
	}()
	ok = fw.WaitBeats(kdone, 8000)
	close(kstop)
	st.mu.Lock()
	cs.Log = append([]string{}, st.log...)
	dup, bad := append([]string{}, st.dupAcks...), append([]string{}, st.badAcks...)
	var nsent, nack int
	for range st.sent {
		nsent++
	}
	for range st.acks {
		nack++
	}
	var undelivered []string
	for k := range st.goodAck {
		seen := false
		for _, a := range apps {
			a.mu.Lock()
			if a.got[k] != nil {
				seen = true
			}
			a.mu.Unlock()
		}
		if !seen {
			undelivered = append(undelivered, k.String())
		}
	}
	st.mu.Unlock()
	c.Eval(int64(nsent))
	c.Class("messages-sent", int64(nsent))
	st.mu.Lock()
	c.Class("republish-requests-served-from-the-queue", st.republished)
	c.Class("messages-lost-in-flight", st.lost)
	c.Class("republish-requests-not-available", st.republishMiss)
	st.mu.Unlock()
	c.Class("messages-acknowledged", int64(nack))
	if !ok {
		cs.Detail = fmt.Sprintf("received by the application but not acknowledged within 8000 heartbeats of keep-alive traffic: %v (sent %d, acknowledged %d)", unacked(), nsent, nack)
		c.Violation("c26:received-but-never-acknowledged", cs.Detail, cs)
		return
	}
	if len(dup) > 0 {
		cs.Detail = fmt.Sprintf("%d duplicate acknowledgement(s): %v", len(dup), dup[:minInt(len(dup), 4)])
		c.Violation("c26:acknowledged-twice", cs.Detail, cs)
		return
	}
	if len(bad) > 0 {
		cs.Detail = fmt.Sprintf("%v", bad[:minInt(len(bad), 4)])
		c.Violation("c26:acknowledged-but-never-sent", cs.Detail, cs)
		return
	}
	if len(undelivered) > 0 {
		sort.Strings(undelivered)
		cs.Detail = fmt.Sprintf("acknowledged to the server (Good) but never delivered to the application: %v", undelivered[:minInt(len(undelivered), 6)])
		c.Violation("c26:acknowledged-but-not-delivered", cs.Detail, cs)
		return
	}
	c.Class("ledger-consistent", 1)
}

var c26Kinds = []string{"channel-loss", "session-loss", "restart"}
var c26Transfers = []string{"supported", "unsupported", "invalid"}

func c26Run(c *fw.Ctx) error {
	n := int64(c.Pick(240, 6000))
	for i := int64(0); i < n; i++ {
		if int(i%int64(c.NBatch)) != c.Batch || i < c.Resume {
			continue
		}
		r := c.Rng("c26", i)
		k := int(i / int64(c.NBatch))
		cs := c26Case{Index: i, Seed: r.Int63(), Subs: 1 + r.Intn(3), Items: 1 + r.Intn(3), Transfer: c26Transfers[(k/3)%3]}
		nf := 1
		if r.Intn(2) == 0 {
			nf = 2 + r.Intn(2)
		}
		for f := 0; f < nf; f++ {
			kind := c26Kinds[k%3]
			after := int64(1 + r.Intn(12))
			if f > 0 {
				kind = c26Kinds[r.Intn(3)]
				// later faults hit the reconnect (few requests later) or the steady state after it (many requests
				// later: the subscriptions are restored a second and third time)
				if r.Intn(2) == 0 {
					after = int64(25 + r.Intn(40))
				}
			}
			fl := c26Fault{After: after, Kind: kind}
			if kind != "restart" {
				fl.Lose = r.Intn(3)
			}
			cs.Faults = append(cs.Faults, fl)
		}
		c.Journal(i, cs)
		c26One(c, cs)
		c.Nontrivial(fmt.Sprintf("%d", cs.Seed))
		if i%11 == 0 {
			cs.Log = nil
			c.Sample(cs)
		}
		c.Done(i)
	}
	return nil
}

func init() {
	fw.Register("C26", fw.Spec{
		Plan: func(tier string) fw.Plan {
			p := fw.Plan{Batches: 8, TimeoutS: 1500, MinNontrivial: 200, Level: "exploration",
				Rule:        "the real client (auto-reconnect) with 1-3 subscriptions of 1-3 items against the scripted server, which models subscriptions per session with retransmission queues, publishes data and keep-alives every 1-4 ms throughout and keeps a ledger of every message written and every acknowledgement given; 1-3 faults (connections dropped with the session kept, with the sessions forgotten - in both cases with 0-2 notification messages lost in flight, which only a Republish brings back - or a restart that also forgets the subscriptions and restarts the ids), the first after 1-12 requests of steady state, the others 1-12 requests later (inside the reconnect) or 25-64 requests later (after it: restored subscriptions are restored again); items of a subscription are created with two different TimestampsToReturn values; TransferSubscriptions supported / unsupported / all ids invalid; oracle after the client is stably Connected: every subscription of the application receives a newly sent message containing all of its items (10000 heartbeats), then under keep-alive traffic every message the application received from a subscription that still exists is acknowledged (8000 heartbeats), no message is acknowledged again on a connection on which its result was already returned, none is acknowledged that was never sent, and none is acknowledged Good without having reached the application; distinct = fault histories",
				Assumptions: []string{"heartbeat clock; a client that does not reach a stable Connected state is inconclusive here (C25 decides that)"}}
			if tier == "thorough" {
				p.Batches, p.TimeoutS, p.MinNontrivial = 16, 3400, 5000
			}
			return p
		},
		Run: c26Run,
		Replay: func(c *fw.Ctx, raw json.RawMessage) error {
			var cs c26Case
			if err := json.Unmarshal(raw, &cs); err != nil {
				return err
			}
			cs.Detail, cs.Log = "", nil
			c26One(c, cs)
			return nil
		},
	})
}
