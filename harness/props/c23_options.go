package props

import (
	"context"
	"encoding/json"
	"fmt"
	"math/rand"
	"net"
	"os"
	"path/filepath"
	"strings"
	"time"

	"github.com/gopcua/opcua"
	"github.com/gopcua/opcua/ua"
	"github.com/gopcua/opcua/uacp"

	"verifharness/fw"
	"verifharness/keys"
	"verifharness/refpeer"
	"verifharness/sut"
)

// C23: options affect only the client they are applied to. A sequence of client constructions with random
// option subsets runs in a fresh child process; after every construction the configuration snapshot of every
// earlier client, of a fresh default configuration, the exported default ACK and (at the end) the Hello a
// default client puts on the wire must be what they were.

type c23Opt struct {
	Name string `json:"name"`
	Arg  string `json:"arg"`
}

type c23Arg struct {
	Seed    int64  `json:"seed"`
	Run     int64  `json:"run"`
	Clients int    `json:"clients"`
	Dir     string `json:"dir"`
}

type c23Finding struct {
	Key    string     `json:"key"`
	Desc   string     `json:"desc"`
	Step   int        `json:"step"`
	Opts   []c23Opt   `json:"options_of_the_client_just_built"`
	Diff   []string   `json:"diff"`
	AllSeq [][]c23Opt `json:"sequence_so_far,omitempty"`
}

// c23Options builds a random option subset. files holds paths of PEM files written for this run.
// c23Pool holds option values built for earlier clients: applications share option slices between clients.
type c23Pooled struct {
	opt  opcua.Option
	desc c23Opt
}

var c23Pool []c23Pooled

func c23Options(r *rand.Rand, files map[string]string) ([]opcua.Option, []c23Opt) {
	var opts []opcua.Option
	var desc []c23Opt
	add := func(name, arg string, o opcua.Option) {
		// now and then the very option value an earlier client was built with is applied again
		if len(c23Pool) > 0 && r.Intn(4) == 0 {
			p := c23Pool[r.Intn(len(c23Pool))]
			opts = append(opts, p.opt)
			desc = append(desc, c23Opt{p.desc.Name + " (option value shared with an earlier client)", p.desc.Arg})
			return
		}
		opts = append(opts, o)
		desc = append(desc, c23Opt{name, arg})
		c23Pool = append(c23Pool, c23Pooled{o, c23Opt{name, arg}})
	}
	u32 := func() uint32 {
		return []uint32{0, 1, 8192, 8193, 16384, 65535, 65536, 1 << 20, 1<<32 - 1, uint32(r.Intn(1 << 24))}[r.Intn(10)]
	}
	dur := func() time.Duration {
		return []time.Duration{0, time.Millisecond, 250 * time.Millisecond, time.Second, 7 * time.Second, time.Hour, time.Duration(r.Intn(1e9))}[r.Intn(7)]
	}
	str := func() string { return []string{"", "x", "urn:verif:app", "nöt-ascii", strings.Repeat("long", 50)}[r.Intn(5)] }
	bits := []int{1024, 2048, 4096}[r.Intn(3)]
	kp := keys.Get([]string{"a", "b"}[r.Intn(2)], bits)
	pols := []string{"None", "Basic128Rsa15", "Basic256", "Basic256Sha256", "Aes128_Sha256_RsaOaep", "Aes256_Sha256_RsaPss", ua.SecurityPolicyURIBasic256Sha256}
	all := []func(){
		func() { s := str(); add("ApplicationName", s, opcua.ApplicationName(s)) },
		func() { s := str(); add("ApplicationURI", s, opcua.ApplicationURI(s)) },
		func() { b := r.Intn(2) == 0; add("AutoReconnect", fmt.Sprint(b), opcua.AutoReconnect(b)) },
		func() { d := dur(); add("ReconnectInterval", d.String(), opcua.ReconnectInterval(d)) },
		func() { d := dur(); add("Lifetime", d.String(), opcua.Lifetime(d)) },
		func() {
			l := [][]string{nil, {}, {"de"}, {"en-us", "fr", "x"}}[r.Intn(4)]
			add("Locales", fmt.Sprint(l), opcua.Locales(l...))
		},
		func() { s := str(); add("ProductURI", s, opcua.ProductURI(s)) },
		func() { add("RandomRequestID", "", opcua.RandomRequestID()) },
		func() { add("RemoteCertificate", kp.Name, opcua.RemoteCertificate(kp.Cert)) },
		func() { add("RemoteCertificateFile", kp.Name, opcua.RemoteCertificateFile(files[kp.Name+".cert.pem"])) },
		func() {
			m := ua.MessageSecurityMode(r.Intn(4))
			add("SecurityMode", m.String(), opcua.SecurityMode(m))
		},
		func() {
			s := []string{"None", "Sign", "SignAndEncrypt", "", "bogus"}[r.Intn(5)]
			add("SecurityModeString", s, opcua.SecurityModeString(s))
		},
		func() { s := pols[r.Intn(len(pols))]; add("SecurityPolicy", s, opcua.SecurityPolicy(s)) },
		func() { s := str(); add("SessionName", s, opcua.SessionName(s)) },
		func() { d := dur(); add("SessionTimeout", d.String(), opcua.SessionTimeout(d)) },
		func() { add("PrivateKey", kp.Name, opcua.PrivateKey(kp.Key)) },
		func() { add("PrivateKeyFile", kp.Name, opcua.PrivateKeyFile(files[kp.Name+".key.pem"])) },
		func() { add("Certificate", kp.Name, opcua.Certificate(kp.Cert)) },
		func() { add("CertificateFile", kp.Name, opcua.CertificateFile(files[kp.Name+".cert.pem"])) },
		func() {
			pol := "http://opcfoundation.org/UA/SecurityPolicy#" + pols[r.Intn(6)]
			tt := []ua.UserTokenType{ua.UserTokenTypeAnonymous, ua.UserTokenTypeUserName, ua.UserTokenTypeCertificate, ua.UserTokenTypeIssuedToken}[r.Intn(4)]
			ep := &ua.EndpointDescription{EndpointURL: "opc.tcp://127.0.0.1:1", SecurityPolicyURI: pol, SecurityMode: ua.MessageSecurityMode(1 + r.Intn(3)), ServerCertificate: kp.Cert,
				UserIdentityTokens: []*ua.UserTokenPolicy{{PolicyID: "anon", TokenType: ua.UserTokenTypeAnonymous}, {PolicyID: "user", TokenType: ua.UserTokenTypeUserName, SecurityPolicyURI: pol},
					{PolicyID: "cert", TokenType: ua.UserTokenTypeCertificate}, {PolicyID: "issued", TokenType: ua.UserTokenTypeIssuedToken}}}
			add("SecurityFromEndpoint", fmt.Sprintf("%s/%d/%v", pol, ep.SecurityMode, tt), opcua.SecurityFromEndpoint(ep, tt))
		},
		func() { s := str(); add("AuthPolicyID", s, opcua.AuthPolicyID(s)) },
		func() { add("AuthAnonymous", "", opcua.AuthAnonymous()) },
		func() { u, p := str(), str(); add("AuthUsername", u+"/"+p, opcua.AuthUsername(u, p)) },
		func() { add("AuthCertificate", kp.Name, opcua.AuthCertificate(kp.Cert)) },
		func() { add("AuthPrivateKey", kp.Name, opcua.AuthPrivateKey(kp.Key)) },
		func() { s := str(); add("AuthIssuedToken", s, opcua.AuthIssuedToken([]byte(s))) },
		func() { d := dur(); add("RequestTimeout", d.String(), opcua.RequestTimeout(d)) },
		func() {
			d := &uacp.Dialer{Dialer: &net.Dialer{Timeout: dur()}, ClientACK: &uacp.Acknowledge{ReceiveBufSize: u32(), SendBufSize: u32(), MaxMessageSize: u32(), MaxChunkCount: u32()}}
			if r.Intn(2) == 0 {
				d.ClientACK = nil // "defaults to DefaultClientACK"
				add("Dialer", "ClientACK nil", opcua.Dialer(d))
				return
			}
			add("Dialer", fmt.Sprintf("%+v", *d.ClientACK), opcua.Dialer(d))
		},
		func() { d := dur(); add("DialTimeout", d.String(), opcua.DialTimeout(d)) },
		func() { n := u32(); add("MaxMessageSize", fmt.Sprint(n), opcua.MaxMessageSize(n)) },
		func() { n := u32(); add("MaxChunkCount", fmt.Sprint(n), opcua.MaxChunkCount(n)) },
		func() { n := u32(); add("ReceiveBufferSize", fmt.Sprint(n), opcua.ReceiveBufferSize(n)) },
		func() { n := u32(); add("SendBufferSize", fmt.Sprint(n), opcua.SendBufferSize(n)) },
		func() { add("StateChangedCh", "", opcua.StateChangedCh(make(chan opcua.ConnState, 8))) },
		func() { add("StateChangedFunc", "", opcua.StateChangedFunc(func(opcua.ConnState) {})) },
	}
	n := 0
	switch r.Intn(4) {
	case 0:
		n = 1
	case 1:
		n = 1 + r.Intn(4)
	case 2:
		n = 1 + r.Intn(len(all))
	case 3:
		n = len(all)
	}
	for _, i := range r.Perm(len(all))[:n] {
		all[i]()
	}
	return opts, desc
}

func diffLines(a, b string) []string {
	la, lb := strings.Split(a, "\n"), strings.Split(b, "\n")
	ma := map[string]bool{}
	for _, l := range la {
		ma[l] = true
	}
	mb := map[string]bool{}
	for _, l := range lb {
		mb[l] = true
	}
	var out []string
	for _, l := range la {
		if !mb[l] {
			out = append(out, "- "+l)
		}
	}
	for _, l := range lb {
		if !ma[l] {
			out = append(out, "+ "+l)
		}
	}
	if len(out) > 12 {
		out = out[:12]
	}
	return out
}

// helloOf dials the scripted listener with the given options and returns the Hello it received.
func helloOf(opts ...opcua.Option) (*refpeer.Hello, error) {
	srv, err := refpeer.NewServer(refpeer.ServerOpts{})
	if err != nil {
		return nil, err
	}
	defer srv.Close()
	got := make(chan *refpeer.Hello, 1)
	srv.OnConn = func(sc *refpeer.SrvConn) {
		select {
		case got <- sc.Hello:
		default:
		}
	}
	cl, err := opcua.NewClient(srv.Endpoint(), append(opts, opcua.AutoReconnect(false))...)
	if err != nil {
		return nil, err
	}
	ctx, cancel := context.WithTimeout(context.Background(), 10*time.Second)
	defer cancel()
	derr := cl.Dial(ctx)
	defer cl.Close(ctx)
	select {
	case h := <-got:
		h.URL = ""
		return h, nil
	case <-time.After(5 * time.Second):
		return nil, fmt.Errorf("no Hello observed (dial: %v)", derr)
	}
}

// c23Handshake lets the client connect (HEL/ACK and OpenSecureChannel) to a listener that announces 8192 byte buffers.
func c23Handshake(cl *opcua.Client) {
	// a client whose own buffers are below the protocol minimum cannot talk to anybody: not this property's business
	if d := opcua.VerifDialer(cl); d.ClientACK != nil && (d.ClientACK.ReceiveBufSize < 8192 || d.ClientACK.SendBufSize < 8192) {
		return
	}
	srv, err := refpeer.NewServer(refpeer.ServerOpts{Ack: refpeer.Ack{RecvBuf: 8192, SendBuf: 8192, MaxMsg: 100000, MaxChunks: 5}})
	if err != nil {
		return
	}
	defer srv.Close()
	// the client was built for another URL; a dialer bound to this listener is not needed: NewClient keeps the
	// endpoint, so a second client with the same configuration object cannot be made. Use the uacp dialer of the
	// configuration directly, which is what Client.Dial does.
	ctx, cancel := context.WithTimeout(context.Background(), 3*time.Second)
	defer cancel()
	if conn, err := opcua.VerifDialer(cl).Dial(ctx, srv.Endpoint()); err == nil {
		conn.Close()
	}
}

// c23Child is the fresh process in which one construction sequence runs.
func c23Child(arg string) int {
	var a c23Arg
	if err := json.Unmarshal([]byte(arg), &a); err != nil {
		fmt.Fprintln(os.Stderr, err)
		return 3
	}
	files := map[string]string{}
	for _, n := range []string{"a", "b"} {
		for _, bits := range []int{1024, 2048, 4096} {
			for _, suf := range []string{".key.pem", ".cert.pem"} {
				name := fmt.Sprintf("%s%d%s", n, bits, suf)
				p := filepath.Join(a.Dir, name)
				if err := os.WriteFile(p, keys.PEM(name), 0o600); err != nil {
					fmt.Fprintln(os.Stderr, err)
					return 3
				}
				files[name] = p
			}
		}
	}
	emit := func(f c23Finding) {
		b, _ := json.Marshal(f)
		fmt.Println("C23FINDING " + string(b))
	}
	r := rand.New(rand.NewSource(a.Seed))
	// what a fresh process shows, before anything was configured
	hel0, err := helloOf()
	if err != nil {
		fmt.Println("C23INCONCLUSIVE baseline hello: " + err.Error())
		return 0
	}
	cfg0, _ := opcua.ApplyConfig()
	base := opcua.VerifConfigSnapshot(cfg0)
	ack0 := *uacp.DefaultClientACK

	type built struct {
		cl   *opcua.Client
		snap string
		opts []c23Opt
	}
	var clients []built
	var seq [][]c23Opt
	constructed, errored, dialled := 0, 0, 0
	for step := 0; step < a.Clients; step++ {
		opts, desc := c23Options(r, files)
		fmt.Printf("C23STEP %d %s\n", step, mustJSON(desc)) // write-ahead: a crash names the options
		seq = append(seq, desc)
		cl, err := opcua.NewClient("opc.tcp://127.0.0.1:1", opts...)
		if err != nil {
			errored++
		} else {
			constructed++
		}
		// 1. a fresh default configuration is what it was
		c1, _ := opcua.ApplyConfig()
		if s := opcua.VerifConfigSnapshot(c1); s != base {
			emit(c23Finding{Key: "c23:defaults-changed:" + firstField(diffLines(base, s)), Desc: "the default configuration seen by a client created later changed after another client was configured",
				Step: step, Opts: desc, Diff: diffLines(base, s), AllSeq: seq})
			base = s // report each drift once
		}
		if *uacp.DefaultClientACK != ack0 {
			emit(c23Finding{Key: "c23:uacp.DefaultClientACK-changed", Desc: fmt.Sprintf("uacp.DefaultClientACK changed from %+v to %+v", ack0, *uacp.DefaultClientACK), Step: step, Opts: desc, AllSeq: seq})
			ack0 = *uacp.DefaultClientACK
		}
		// 2. every existing client still has the configuration it was built with
		for i := range clients {
			if s := opcua.VerifConfigSnapshot(opcua.VerifClientConfig(clients[i].cl)); s != clients[i].snap {
				emit(c23Finding{Key: "c23:existing-client-changed:" + firstField(diffLines(clients[i].snap, s)), Desc: fmt.Sprintf("the configuration of client %d changed when client %d was configured", i, step),
					Step: step, Opts: desc, Diff: diffLines(clients[i].snap, s), AllSeq: seq})
				clients[i].snap = s
			}
		}
		if cl != nil {
			clients = append(clients, built{cl, opcua.VerifConfigSnapshot(opcua.VerifClientConfig(cl)), desc})
			// every third client performs a handshake with a server that announces the smallest buffers and limits;
			// what is negotiated for that connection must not flow back into any configuration (checked next round)
			if step%3 == 1 {
				c23Handshake(cl)
				dialled++
			}
		}
	}
	// one more look after the last handshake
	if c1, _ := opcua.ApplyConfig(); opcua.VerifConfigSnapshot(c1) != base {
		s := opcua.VerifConfigSnapshot(c1)
		emit(c23Finding{Key: "c23:defaults-changed:" + firstField(diffLines(base, s)), Desc: "the default configuration changed after a client performed its handshake", Step: a.Clients, Diff: diffLines(base, s), AllSeq: seq})
		base = s
	}
	if *uacp.DefaultClientACK != ack0 {
		emit(c23Finding{Key: "c23:uacp.DefaultClientACK-changed", Desc: fmt.Sprintf("uacp.DefaultClientACK changed from %+v to %+v after a client performed its handshake", ack0, *uacp.DefaultClientACK), Step: a.Clients, AllSeq: seq})
		ack0 = *uacp.DefaultClientACK
	}
	for i := range clients {
		if s := opcua.VerifConfigSnapshot(opcua.VerifClientConfig(clients[i].cl)); s != clients[i].snap {
			emit(c23Finding{Key: "c23:existing-client-changed:" + firstField(diffLines(clients[i].snap, s)), Desc: fmt.Sprintf("the configuration of client %d changed after a handshake", i), Step: a.Clients, Diff: diffLines(clients[i].snap, s), AllSeq: seq})
			clients[i].snap = s
		}
	}
	// 3. on the wire: a default client still announces the library defaults
	hel1, err := helloOf()
	if err != nil {
		fmt.Println("C23INCONCLUSIVE final hello: " + err.Error())
	} else if *hel1 != *hel0 {
		emit(c23Finding{Key: "c23:default-client-hello-changed", Desc: fmt.Sprintf("a default client announced %+v in a fresh process and %+v after other clients were configured", *hel0, *hel1), Step: a.Clients, AllSeq: seq})
	}
	// 4. and a client with its own buffer options announces exactly those
	rb, sb := uint32(8192+r.Intn(100000)), uint32(8192+r.Intn(100000))
	mm, mc := uint32(r.Intn(1<<20)), uint32(r.Intn(100))
	if h, err := helloOf(opcua.ReceiveBufferSize(rb), opcua.SendBufferSize(sb), opcua.MaxMessageSize(mm), opcua.MaxChunkCount(mc)); err == nil {
		if h.RecvBuf != rb || h.SendBuf != sb || (mm != 0 && h.MaxMsg != mm) || (mc != 0 && h.MaxChunks != mc) { // 0 = no preference
			emit(c23Finding{Key: "c23:own-options-not-on-the-wire", Desc: fmt.Sprintf("client configured with recv=%d send=%d maxmsg=%d maxchunks=%d announced %+v", rb, sb, mm, mc, *h), Step: a.Clients})
		}
		// ... and that again must not have leaked into the defaults
		if h2, err := helloOf(); err == nil && *h2 != *hel0 {
			emit(c23Finding{Key: "c23:default-client-hello-changed", Desc: fmt.Sprintf("a default client announced %+v in a fresh process and %+v after a client with buffer options had dialled", *hel0, *h2), Step: a.Clients + 1, AllSeq: seq})
		}
	}
	fmt.Printf("C23DIALLED %d\n", dialled)
	fmt.Printf("C23DONE %d %d\n", constructed, errored)
	return 0
}

func mustJSON(v interface{}) string {
	b, _ := json.Marshal(v)
	return string(b)
}

func firstField(diff []string) string {
	for _, d := range diff {
		d = strings.TrimLeft(d, "+- ")
		if i := strings.Index(d, " = "); i > 0 {
			return d[:i]
		}
		if d != "" {
			return d
		}
	}
	return "?"
}

func c23Run(c *fw.Ctx) error {
	runs := int64(c.Pick(300, 20000))
	for i := int64(0); i < runs; i++ {
		if int(i%int64(c.NBatch)) != c.Batch || i < c.Resume {
			continue
		}
		r := c.Rng("c23", i)
		a := c23Arg{Seed: r.Int63(), Run: i, Clients: 2 + r.Intn(7), Dir: c.Dir}
		c.Journal(i, a)
		out, stderr, rc, timedOut := sut.RunChild("c23-seq", mustJSON(a), 120*time.Second)
		c.Eval(int64(a.Clients))
		if timedOut {
			c.Inconclusive("sequence child did not finish within the watchdog")
			continue
		}
		done := false
		lastStep := ""
		for _, line := range strings.Split(out, "\n") {
			switch {
			case strings.HasPrefix(line, "C23FINDING "):
				var f c23Finding
				if json.Unmarshal([]byte(line[11:]), &f) == nil {
					c.Violation(f.Key, f.Desc, map[string]interface{}{"arg": a, "finding": f})
				}
			case strings.HasPrefix(line, "C23INCONCLUSIVE "):
				c.Inconclusive(line[16:])
			case strings.HasPrefix(line, "C23STEP "):
				lastStep = line[8:]
				c.Nontrivial(line[8:])
			case strings.HasPrefix(line, "C23DIALLED "):
				var n int64
				fmt.Sscanf(line[11:], "%d", &n)
				c.Class("clients-that-performed-a-handshake-with-a-small-buffer-server", n)
			case strings.HasPrefix(line, "C23DONE "):
				done = true
				var ok, bad int64
				fmt.Sscanf(line[8:], "%d %d", &ok, &bad)
				c.Class("clients-constructed", ok)
				c.Class("constructions-rejected-by-an-option", bad)
			}
		}
		if !done {
			key, msg := fw.CrashKey(stderr)
			c.Violation("c23:child-"+key, fmt.Sprintf("the process died (rc=%d) while clients were being constructed: %s", rc, msg), map[string]interface{}{"arg": a, "last_step": lastStep, "stderr_tail": tailStr(stderr, 2000)})
		}
		c.Done(i)
	}
	c.Sample(map[string]interface{}{"options": 36, "per_sequence": "2-8 clients, each with 1..36 options in random order"})
	return nil
}

func init() {
	sut.Register("c23-seq", c23Child)
	fw.Register("C23", fw.Spec{
		Plan: func(tier string) fw.Plan {
			p := fw.Plan{Batches: 8, TimeoutS: 900, MinNontrivial: 500, Level: "exploration",
				Rule:        "each sequence runs in a fresh child process: baseline = configuration snapshot (every field reachable from dialer, channel and session config, via the verif hook), uacp.DefaultClientACK and the Hello a default client sends to a scripted listener; then 2-8 clients are constructed with random subsets (1, few, many, all) of all 36 options in random order with generated arguments; after every construction the fresh-default snapshot, DefaultClientACK and the snapshots of all earlier clients must be unchanged; every third client performs a handshake with a listener that announces 8192 byte buffers; option values built for earlier clients are re-applied to later ones in a quarter of the slots; at the end the Hello of a default client must equal the baseline and a client with its own buffer options must announce exactly those; distinct = distinct option lists",
				Assumptions: []string{"the snapshot hook renders functions and channels only as set/unset"}}
			if tier == "thorough" {
				p.Batches, p.TimeoutS, p.MinNontrivial = 16, 3400, 30000
			}
			return p
		},
		Run: c23Run,
		Replay: func(c *fw.Ctx, raw json.RawMessage) error {
			var w struct {
				Arg c23Arg `json:"arg"`
			}
			if err := json.Unmarshal(raw, &w); err != nil {
				return err
			}
			w.Arg.Dir = c.Dir
			out, _, _, _ := sut.RunChild("c23-seq", mustJSON(w.Arg), 120*time.Second)
			for _, line := range strings.Split(out, "\n") {
				if strings.HasPrefix(line, "C23FINDING ") {
					var f c23Finding
					if json.Unmarshal([]byte(line[11:]), &f) == nil {
						c.Violation(f.Key, f.Desc, f)
					}
				}
			}
			return nil
		},
	})
}
