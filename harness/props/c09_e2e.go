package props

import (
	"context"
	"encoding/binary"
	"encoding/hex"
	"fmt"
	"math/rand"
	"strings"
	"sync"
	"time"

	"github.com/gopcua/opcua"
	"github.com/gopcua/opcua/ua"
	"github.com/gopcua/opcua/uacp"
	"github.com/gopcua/opcua/uapolicy"
	"github.com/gopcua/opcua/uasc"

	"verifharness/fw"
	"verifharness/keys"
	"verifharness/refpeer"
)

// End-to-end part of C09: hostile chunks on established Sign / SignAndEncrypt channels of the real server
// (effect observed on the node value, in-process) and of the real client (effect observed on what Read returns).

type c09E2ECase struct {
	Side     string `json:"side"` // "server" or "client"
	Policy   string `json:"policy"`
	Mode     int    `json:"mode"`
	Mutation string `json:"mutation"`
	Hex      string `json:"chunk_hex,omitempty"`
	Detail   string `json:"detail,omitempty"`
}

// hostile returns named variants of a chunk the legitimate peer never produced. valid is a correctly sealed chunk
// carrying the payload; sym is the legitimate context (for header values); payload the plain body.
func c09Hostile(r *rand.Rand, valid []byte, ch *refpeer.Channel, p *refpeer.Policy, mode int, msgType string, seq, reqID uint32, payload []byte, quick bool) map[string][]byte {
	out := map[string][]byte{}
	tok := ch.Tokens[len(ch.Tokens)-1]
	flip := func(name string, pos int) {
		if pos < 0 || pos >= len(valid) {
			return
		}
		b := append([]byte{}, valid...)
		b[pos] ^= byte(1 << uint(r.Intn(8)))
		out[fmt.Sprintf("xor:%s", name)] = b
	}
	flip("channel-id", 8+r.Intn(4))
	flip("token-id", 12+r.Intn(4))
	flip("sequence-header", 16+r.Intn(8))
	flip("body", 24+r.Intn(max(1, len(valid)-24-p.SymSigLen)))
	flip("signature", len(valid)-1-r.Intn(p.SymSigLen))
	flip("chunk-type", 3)
	n := 2
	if !quick {
		n = 8
	}
	for k := 0; k < n; k++ {
		flip(fmt.Sprintf("random-%d", k), r.Intn(len(valid)))
	}
	trunc := func(L int, fix bool) {
		if L < 8 || L >= len(valid) {
			return
		}
		b := append([]byte{}, valid[:L]...)
		if fix {
			binary.LittleEndian.PutUint32(b[4:], uint32(L))
		}
		out[fmt.Sprintf("truncate:to-%d-fixsize-%v", L, fix)] = b
	}
	trunc(len(valid)-1, true)
	trunc(len(valid)-p.SymSigLen, true)
	trunc(24, true)
	trunc(16+r.Intn(16), true)
	trunc(12+r.Intn(4), true)
	ext := append(append([]byte{}, valid...), make([]byte, 16)...)
	binary.LittleEndian.PutUint32(ext[4:], uint32(len(ext)))
	out["extend:by-16"] = ext

	isClient := !ch.IsServer
	// without the keys: no signature at all, same ids
	if b, err := refpeer.NewSymCtx(nil, refpeer.ModeNone, nil, nil, isClient, ch.ID, tok.ID).Seal(msgType, 'F', seq, reqID, payload, 0); err == nil {
		out["forged:unsigned-plaintext-chunk"] = b
	}
	// signed mode claimed, keys of other nonces
	cn, sn := make([]byte, p.NonceLen), make([]byte, p.NonceLen)
	r.Read(cn)
	r.Read(sn)
	if b, err := refpeer.NewSymCtx(p, mode, cn, sn, isClient, ch.ID, tok.ID).Seal(msgType, 'F', seq, reqID, payload, 0); err == nil {
		out["forged:sealed-with-other-keys"] = b
	}
	// sealed with the keys of the opposite direction (reflection)
	if b, err := refpeer.NewSymCtx(p, mode, tok.ClientNonce, tok.ServerNonce, !isClient, ch.ID, tok.ID).Seal(msgType, 'F', seq, reqID, payload, 0); err == nil {
		out["forged:reflected-direction-keys"] = b
	}
	// an OPN-typed chunk announcing policy None that carries the service message in the clear
	if a, err := refpeer.NewAsymCtx(nil, nil, nil, nil); err == nil {
		if b, err := a.SealOPN(ch.ID, seq, reqID, payload, 0, 0); err == nil {
			out["forged:opn-typed-chunk-with-policy-none"] = b
			b2 := append([]byte{}, b...)
			binary.LittleEndian.PutUint32(b2[8:], 0)
			out["forged:opn-typed-chunk-with-policy-none-channel-0"] = b2
			// the same with a PaddingSize byte of 0 behind the body, as asymmetric chunks of a secured policy carry one
			b3 := append(append([]byte{}, b...), 0)
			binary.LittleEndian.PutUint32(b3[4:], uint32(len(b3)))
			out["forged:opn-typed-chunk-with-policy-none-and-padding-byte"] = b3
		}
	}
	// an OPN-typed chunk under the channel's own policy, properly signed and encrypted - with a key pair of the
	// attacker's own (certificate in the chunk header), carrying the service message
	if ch.Sec.RemoteCert != nil {
		atk := keys.Get("a", 1024)
		if p.MinKeyBits > 1024 {
			atk = keys.Get("b", 4096)
		}
		if a, err := refpeer.NewAsymCtx(p, atk.Key, atk.Cert, ch.Sec.RemoteCert); err == nil {
			if b, err := a.SealOPN(ch.ID, seq, reqID, payload, refpeer.PadMinimal, 0); err == nil {
				out["forged:opn-typed-chunk-signed-with-a-foreign-certificate"] = b
			}
		}
	}
	// right keys, unknown token id / channel id in the clear header (signature then does not cover what was sent)
	for name, off := range map[string]int{"channel": 8, "token": 12} {
		b := append([]byte{}, valid...)
		binary.LittleEndian.PutUint32(b[off:], binary.LittleEndian.Uint32(b[off:])+1)
		out["forged:other-"+name+"-id"] = b
	}
	// CLO / unknown message type with the body of the write
	for _, t := range []string{"CLO", "XYZ"} {
		b := append([]byte{}, valid...)
		copy(b, t)
		out["retyped:"+t] = b
	}
	return out
}

// c09ClientOpen: the client asks for a secured channel; what comes back as the answer to its OpenSecureChannel request is
// a chunk the server never produced: an OPN-typed chunk that names policy None and carries, unsigned and in the clear, an
// OpenSecureChannelResponse with a token of the sender's choosing (also after a first, genuine exchange: as the answer
// to a renewal). The channel must not open / must not take that token.
func c09ClientOpen(c *fw.Ctx, idx int64, pm polMode, r *rand.Rand) {
	p := refpeer.PolicyByURI(pm.uri)
	sk, ck := keys.Get("b", 2048), keys.Get("a", 2048)
	for _, when := range []string{"issue", "renew"} {
		for _, variant := range []string{"plain", "channel-0", "padding-byte"} {
			name := "forged-open-response:" + when + ":" + variant
			srv, err := refpeer.NewServer(refpeer.ServerOpts{Policy: p, Mode: pm.mode, Key: sk.Key, Cert: sk.Cert})
			if err != nil {
				c.Inconclusive("listen: " + err.Error())
				return
			}
			var mu sync.Mutex
			var sentHex string
			srv.OnOpen = func(sc *refpeer.SrvConn, m *refpeer.Msg, renew bool) bool {
				if (when == "renew") != renew {
					return true
				}
				req, _ := m.Service.(*ua.OpenSecureChannelRequest)
				nonce := make([]byte, p.NonceLen)
				resp := &ua.OpenSecureChannelResponse{ResponseHeader: refpeer.RespHeader(req, ua.StatusOK),
					SecurityToken: &ua.ChannelSecurityToken{ChannelID: 4711, TokenID: 666, CreatedAt: time.Now(), RevisedLifetime: 3600000}, ServerNonce: nonce}
				body, _ := refpeer.EncodeBody(resp)
				a, _ := refpeer.NewAsymCtx(nil, nil, nil, nil)
				chID := sc.Channel.ID
				if !renew {
					chID = 4711
				}
				b, err := a.SealOPN(chID, sc.TakeSeq(), m.ReqID, body, 0, 0)
				if err != nil {
					return true
				}
				switch variant {
				case "channel-0":
					binary.LittleEndian.PutUint32(b[8:], 0)
				case "padding-byte":
					b = append(b, 0)
					binary.LittleEndian.PutUint32(b[4:], uint32(len(b)))
				}
				mu.Lock()
				sentHex = hexTrunc(b)
				mu.Unlock()
				sc.WriteRaw(b)
				return false
			}
			cs := c09E2ECase{Side: "client-open", Policy: p.Name, Mode: pm.mode, Mutation: name}
			c.Journal(idx, cs)
			cfg := &uasc.Config{SecurityPolicyURI: pm.uri, SecurityMode: ua.MessageSecurityMode(pm.mode), Lifetime: 3600000, RequestTimeout: 1500 * time.Millisecond,
				Certificate: ck.Cert, LocalKey: ck.Key, RemoteCertificate: sk.Cert, Thumbprint: uapolicy.Thumbprint(sk.Cert)}
			ctx, cancel := context.WithTimeout(context.Background(), 20*time.Second)
			conn, err := uacp.Dial(ctx, srv.Endpoint())
			if err != nil {
				cancel()
				srv.Close()
				c.Inconclusive("dial: " + classOf(err.Error()))
				continue
			}
			sc, err := uasc.NewSecureChannel(srv.Endpoint(), conn, cfg, make(chan error, 16))
			var operr error
			if err == nil {
				operr = sc.Open(ctx)
				if operr == nil && when == "renew" {
					operr = sc.Renew(ctx)
				} else if operr != nil && when == "renew" {
					cancel()
					conn.Close()
					srv.Close()
					c.Inconclusive("the genuine exchange before the renewal failed: " + classOf(operr.Error()))
					continue
				}
			}
			cancel()
			c.Eval(1)
			c.Class("client-open:"+when+":"+variant, 1)
			c.Nontrivial("cliopen|" + p.Name + fmt.Sprint(pm.mode) + "|" + name)
			took := false
			if sc != nil {
				for _, t := range sc.VerifTokens() {
					if t.TokenID == 666 {
						took = true
					}
				}
			}
			if err == nil && (operr == nil || took) {
				mu.Lock()
				cs.Hex = sentHex
				mu.Unlock()
				cs.Detail = fmt.Sprintf("result of the exchange: %v; channel holds the forged token: %v", operr, took)
				c.Violation("c09:e2e-client-accepted-forged-open-response:"+when, fmt.Sprintf("%s/%s: the client took an unsigned OpenSecureChannel response in an OPN chunk naming policy None as the answer to its %s request (%s)", p.Name, modeName(pm.mode), when, variant), cs)
			}
			if sc != nil {
				sc.Close()
			}
			conn.Close()
			srv.Close()
		}
	}
}

func max(a, b int) int {
	if a > b {
		return a
	}
	return b
}

// c09ServerSide: the real server, the independent client with a secured session; hostile Write chunks must not change the value.
func c09ServerSide(c *fw.Ctx, idx int64, pm polMode, r *rand.Rand) {
	p := refpeer.PolicyByURI(pm.uri)
	rs, err := startRealServer(srvCfg{Sec: []secPair{{pm.uri, pm.mode}}, KeyBits: 2048, Vars: 1})
	if err != nil {
		c.Inconclusive("server start: " + err.Error())
		return
	}
	defer rs.Srv.Close()
	addr := strings.TrimPrefix(rs.Endpoint, "opc.tcp://")
	sk, ck := keys.Get("b", 2048), keys.Get("a", 2048)
	node := rs.Vars[0]
	cur := func() int64 {
		dv := node.Value()
		if dv == nil || dv.Value == nil {
			return -1
		}
		v, _ := dv.Value.Value().(int64)
		return v
	}
	writeBody := func(ch *refpeer.Channel, tok *ua.NodeID, val int64, reqID uint32) []byte {
		req := &ua.WriteRequest{NodesToWrite: []*ua.WriteValue{{NodeID: node.ID(), AttributeID: ua.AttributeIDValue, Value: &ua.DataValue{EncodingMask: 1, Value: ua.MustVariant(val)}}}}
		req.SetHeader(&ua.RequestHeader{AuthenticationToken: tok, Timestamp: time.Now(), RequestHandle: reqID, TimeoutHint: 10000, AdditionalHeader: ua.NewExtensionObject(nil)})
		b, _ := refpeer.EncodeBody(req)
		return b
	}
	session := func() (*refpeer.Channel, *ua.NodeID) {
		ch, tok, err := refpeer.OpenSecureSession(addr, rs.Endpoint, p, pm.mode, ck.Key, ck.Cert, sk.Cert, refpeer.ClientOpts{})
		if err != nil {
			c.Inconclusive("secured session: " + classOf(err.Error()))
			return nil, nil
		}
		return ch, tok
	}
	// control: the legitimate write takes effect
	ch, tok := session()
	if ch == nil {
		return
	}
	ctlVal := int64(idx*1_000_000 + 1)
	seq := ch.TakeSeq()
	valid, _ := ch.SealChunk(nil, "MSG", 'F', seq, 900, writeBody(ch, tok, ctlVal, 900))
	ch.WriteRaw(valid)
	ch.Await(900, 3*time.Second)
	if cur() != ctlVal {
		c.Inconclusive(fmt.Sprintf("control write did not take effect (%s/%d)", p.Name, pm.mode))
		ch.Close()
		return
	}
	c.Class("server-side:control-write-ok", 1)
	// one hostile variant per connection: the server drops the connection on a security error
	names := func() []string {
		seq := ch.TakeSeq()
		body := writeBody(ch, tok, 1, 901)
		v, _ := ch.SealChunk(nil, "MSG", 'F', seq, 901, body)
		var out []string
		for k := range c09Hostile(r, v, ch, p, pm.mode, "MSG", seq, 901, body, c.Quick()) {
			out = append(out, k)
		}
		return out
	}()
	ch.Close()
	sortStrings(names)
	for vi, name := range names {
		ch, tok := session()
		if ch == nil {
			continue
		}
		renewed := ""
		if vi%3 == 1 {
			// every third variant meets a channel whose token has been renewed: the server also holds the previous one
			ch.Conn.SetReadDeadline(time.Now().Add(5 * time.Second))
			if _, err := ch.Open(true, 3600000); err != nil {
				ch.Close()
				c.Class("server-side:renewal-before-variant-failed", 1)
				continue
			}
			ch.Conn.SetReadDeadline(time.Time{})
			renewed = " after a renewal"
		}
		bad := int64(idx*1_000_000 + 100 + int64(vi))
		seq := ch.TakeSeq()
		body := writeBody(ch, tok, bad, 901)
		v, _ := ch.SealChunk(nil, "MSG", 'F', seq, 901, body)
		hostile := c09Hostile(r, v, ch, p, pm.mode, "MSG", seq, 901, body, c.Quick())[name]
		if hostile == nil {
			ch.Close()
			continue
		}
		cs := c09E2ECase{Side: "server", Policy: p.Name, Mode: pm.mode, Mutation: name + renewed, Hex: hexTrunc(hostile)}
		c.Journal(idx, cs)
		ch.WriteRaw(hostile)
		// wait until the server has dealt with it: a response, an error or the end of the connection
		resp, rerr := ch.Await(901, 900*time.Millisecond)
		ch.Close()
		c.Eval(1)
		c.Class("server-side:"+classOf(name), 1)
		c.Nontrivial("srv|" + p.Name + fmt.Sprint(pm.mode) + "|" + name)
		if got := cur(); got == bad {
			cs.Detail = fmt.Sprintf("node value is now %d", got)
			c.Violation("c09:e2e-server-executed-hostile-chunk:"+name, fmt.Sprintf("%s/%s: the write carried by a chunk the client never produced (%s) took effect", p.Name, modeName(pm.mode), name), cs)
		} else if wr, ok := resp.(*ua.WriteResponse); ok && rerr == nil && len(wr.Results) == 1 && wr.Results[0] == ua.StatusOK {
			cs.Detail = "WriteResponse Good"
			c.Violation("c09:e2e-server-answered-hostile-chunk:"+name, fmt.Sprintf("%s/%s: the server answered a hostile chunk (%s) with a Good WriteResponse", p.Name, modeName(pm.mode), name), cs)
		}
	}
	// takeover: whoever can inject into the connection asks for a renewal of the channel's token with a certificate
	// of their own (a well-formed, properly signed OpenSecureChannelRequest) and goes on under the keys of that renewal
	if ch, tok := session(); ch != nil {
		atk := keys.Get("a", 1024)
		if p.MinKeyBits > 1024 {
			atk = keys.Get("b", 4096)
		}
		hij := refpeer.NewChannel(ch.Conn, false, refpeer.Security{Policy: p, Mode: pm.mode, LocalKey: atk.Key, LocalCert: atk.Cert, RemoteCert: sk.Cert})
		hij.ID, hij.SendSeq, hij.ReqSeq, hij.PeerRecvBuf = ch.ID, ch.SendSeq, ch.ReqSeq+100, ch.PeerRecvBuf
		cs := c09E2ECase{Side: "server", Policy: p.Name, Mode: pm.mode, Mutation: "renewal-of-the-channel-with-a-foreign-certificate"}
		c.Journal(idx, cs)
		ch.Conn.SetReadDeadline(time.Now().Add(2 * time.Second))
		_, oerr := hij.Open(true, 60000)
		c.Eval(1)
		c.Nontrivial("srv|" + p.Name + fmt.Sprint(pm.mode) + "|takeover")
		if oerr != nil {
			c.Class("server-side:renewal-with-a-foreign-certificate-refused", 1)
		} else {
			bad := int64(idx*1_000_000 + 777)
			ch.Conn.SetReadDeadline(time.Time{})
			raw, _ := hij.SealChunk(nil, "MSG", 'F', hij.TakeSeq(), 990, writeBody(hij, tok, bad, 990))
			hij.WriteRaw(raw)
			hij.Await(990, 900*time.Millisecond)
			if got := cur(); got == bad {
				cs.Detail = fmt.Sprintf("the server renewed the token of a channel opened with the client's certificate for an OpenSecureChannelRequest signed with another certificate, and executed a Write secured with the keys of that renewal (node value %d)", got)
				c.Violation("c09:e2e-server-renewed-channel-for-a-foreign-certificate", fmt.Sprintf("%s/%s: %s", p.Name, modeName(pm.mode), cs.Detail), cs)
			} else {
				c.Class("server-side:renewal-with-a-foreign-certificate-answered-but-without-effect", 1)
			}
		}
		ch.Close()
	}
}

func sortStrings(s []string) {
	for i := 1; i < len(s); i++ {
		for j := i; j > 0 && s[j] < s[j-1]; j-- {
			s[j], s[j-1] = s[j-1], s[j]
		}
	}
}

// c09ClientSide: the real client on a secured channel to the scripted server; the server answers a Read with a hostile
// chunk that carries a marked value, then (if the connection survives) nothing. The client must not return the marked value.
func c09ClientSide(c *fw.Ctx, idx int64, pm polMode, r *rand.Rand) {
	p := refpeer.PolicyByURI(pm.uri)
	sk, ck := keys.Get("b", 2048), keys.Get("a", 2048)
	// enumerate variant names once with a throw-away context
	var names []string
	{
		dummy := &refpeer.Channel{IsServer: true, ID: 7}
		dummy.Tokens = []*refpeer.Token{{ID: 1, ClientNonce: make([]byte, p.NonceLen), ServerNonce: make([]byte, p.NonceLen)}}
		sym := refpeer.NewSymCtx(p, pm.mode, dummy.Tokens[0].ClientNonce, dummy.Tokens[0].ServerNonce, false, 7, 1)
		v, _ := sym.Seal("MSG", 'F', 5, 9, make([]byte, 80), 0)
		for k := range c09Hostile(r, v, dummy, p, pm.mode, "MSG", 5, 9, make([]byte, 80), c.Quick()) {
			names = append(names, k)
		}
		sortStrings(names)
	}
	for vi, name := range names {
		marker := fmt.Sprintf("FORGED-%d-%d", idx, vi)
		var mu sync.Mutex
		var sentHex string
		srv, err := refpeer.NewServer(refpeer.ServerOpts{Policy: p, Mode: pm.mode, Key: sk.Key, Cert: sk.Cert})
		if err != nil {
			c.Inconclusive("listen: " + err.Error())
			return
		}
		srv.Handler = func(sc *refpeer.SrvConn, m *refpeer.Msg) {
			if srv.Default(sc, m) {
				return
			}
			req, ok := m.Service.(*ua.ReadRequest)
			if !ok {
				sc.Fault(m, ua.StatusBadServiceUnsupported)
				return
			}
			resp := &ua.ReadResponse{ResponseHeader: refpeer.RespHeader(req, ua.StatusOK), Results: []*ua.DataValue{{EncodingMask: ua.DataValueValue, Value: ua.MustVariant(marker)}}}
			body, _ := refpeer.EncodeBody(resp)
			seq := sc.TakeSeq()
			valid, _ := sc.SealChunk(nil, "MSG", 'F', seq, m.ReqID, body)
			h := c09Hostile(r, valid, sc.Channel, p, pm.mode, "MSG", seq, m.ReqID, body, c.Quick())[name]
			if h == nil {
				return
			}
			mu.Lock()
			sentHex = hexTrunc(h)
			mu.Unlock()
			sc.WriteRaw(h)
		}
		ep := srv.Endpoints()[0]
		cl, err := opcua.NewClient(srv.Endpoint(), opcua.PrivateKey(ck.Key), opcua.Certificate(ck.Cert), opcua.SecurityFromEndpoint(ep, ua.UserTokenTypeAnonymous),
			opcua.AutoReconnect(false), opcua.RequestTimeout(800*time.Millisecond))
		if err == nil {
			ctx, cancel := context.WithTimeout(context.Background(), 20*time.Second)
			err = cl.Connect(ctx)
			cancel()
		}
		if err != nil {
			c.Inconclusive("client connect to the scripted server: " + classOf(err.Error()))
			srv.Close()
			continue
		}
		cs := c09E2ECase{Side: "client", Policy: p.Name, Mode: pm.mode, Mutation: name}
		c.Journal(idx, cs)
		ctx, cancel := context.WithTimeout(context.Background(), 5*time.Second)
		res, rerr := cl.Read(ctx, &ua.ReadRequest{NodesToRead: []*ua.ReadValueID{{NodeID: ua.NewStringNodeID(1, "x"), AttributeID: ua.AttributeIDValue}}})
		cancel()
		c.Eval(1)
		c.Class("client-side:"+classOf(name), 1)
		c.Nontrivial("cli|" + p.Name + fmt.Sprint(pm.mode) + "|" + name)
		if rerr == nil && res != nil && len(res.Results) == 1 && res.Results[0].Value != nil && res.Results[0].Value.Value() == marker {
			mu.Lock()
			cs.Hex = sentHex
			mu.Unlock()
			cs.Detail = "Read returned " + marker
			c.Violation("c09:e2e-client-delivered-hostile-chunk:"+name, fmt.Sprintf("%s/%s: Read returned the value carried by a chunk the server never produced (%s)", p.Name, modeName(pm.mode), name), cs)
		}
		cctx, ccancel := context.WithTimeout(context.Background(), 2*time.Second)
		cl.Close(cctx)
		ccancel()
		srv.Close()
	}
}

func c09E2E(c *fw.Ctx) {
	pms := allPolModes()
	idx := int64(1_000_000)
	for _, pm := range pms {
		if pm.mode == refpeer.ModeNone {
			continue
		}
		for _, side := range []string{"server", "client", "client-open"} {
			i := idx
			idx++
			if int(i%int64(c.NBatch)) != c.Batch || i < c.Resume {
				continue
			}
			r := c.Rng("c09e2e", i)
			switch side {
			case "server":
				c09ServerSide(c, i, pm, r)
			case "client":
				c09ClientSide(c, i, pm, r)
			default:
				c09ClientOpen(c, i, pm, r)
			}
			c.Done(i)
		}
	}
	_ = hex.EncodeToString
}
