package props

import (
	"context"
	"encoding/json"
	"fmt"
	"io"
	"math/rand"
	"strings"
	"sync"
	"time"

	"github.com/gopcua/opcua"
	"github.com/gopcua/opcua/ua"
	"github.com/gopcua/opcua/uacp"
	"github.com/gopcua/opcua/uasc"

	"verifharness/fw"
	"verifharness/keys"
	"verifharness/refpeer"
)

// C10: a replayed secured chunk is never delivered twice. The independent client holds a secured session on the real
// server, writes unique values and re-sends verbatim copies of chunks it sent earlier; the node value is inspected
// in-process. Towards the real client the scripted server re-sends copies of earlier response chunks.

type c10Case struct {
	Index  int64    `json:"index"`
	Side   string   `json:"receiver"`
	Policy string   `json:"policy"`
	Mode   int      `json:"mode"`
	Seed   int64    `json:"seed"`
	Steps  []string `json:"history,omitempty"`
	Detail string   `json:"detail,omitempty"`
}

func c10ServerSide(c *fw.Ctx, cs c10Case) {
	r := rand.New(rand.NewSource(cs.Seed))
	p := refpeer.PolicyByURI(cs.Policy)
	rs, err := startRealServer(srvCfg{Sec: []secPair{{cs.Policy, cs.Mode}}, KeyBits: 2048, Vars: 1})
	if err != nil {
		c.Inconclusive("server start: " + err.Error())
		return
	}
	defer rs.Srv.Close()
	addr := strings.TrimPrefix(rs.Endpoint, "opc.tcp://")
	sk, ck := keys.Get("b", 2048), keys.Get("a", 2048)
	node := rs.Vars[0]
	cur := func() int64 {
		if dv := node.Value(); dv != nil && dv.Value != nil {
			v, _ := dv.Value.Value().(int64)
			return v
		}
		return -1
	}
	// variants: the client's numbering starts shortly before the end of its range and wraps to 0 during the history
	// (a chunk numbered 0 is as replayable as any other, and so is one from before the wrap); a token renewal right
	// before a replay (the recorded chunk then belongs to the previous, still valid token)
	wrapVariant, renewVariant := r.Intn(3) == 0, r.Intn(3) == 0
	copts := refpeer.ClientOpts{}
	if wrapVariant {
		copts.FirstSeq = 0xffffffff - 1024 - uint32(4+r.Intn(8))
		cs.Steps = append(cs.Steps, fmt.Sprintf("the client's sequence numbers start after %d (they wrap to 0 a few chunks later)", copts.FirstSeq))
		c.Class("server-side:variant-wrap", 1)
	}
	ch, tok, err := refpeer.OpenSecureSession(addr, rs.Endpoint, p, cs.Mode, ck.Key, ck.Cert, sk.Cert, copts)
	if err != nil {
		c.Inconclusive("secured session: " + classOf(err.Error()))
		return
	}
	defer ch.Close()
	type sent struct {
		raw   []byte
		val   int64
		reqID uint32
	}
	var history []sent
	responses := map[uint32]int{}
	reqID := uint32(5000)
	fresh := func() bool {
		reqID++
		val := cs.Index*1_000_000 + int64(reqID)
		req := &ua.WriteRequest{NodesToWrite: []*ua.WriteValue{{NodeID: node.ID(), AttributeID: ua.AttributeIDValue, Value: &ua.DataValue{EncodingMask: 1, Value: ua.MustVariant(val)}}}}
		req.SetHeader(&ua.RequestHeader{AuthenticationToken: tok, Timestamp: time.Now(), RequestHandle: reqID, TimeoutHint: 10000, AdditionalHeader: ua.NewExtensionObject(nil)})
		body, _ := refpeer.EncodeBody(req)
		raw, err := ch.SealChunk(nil, "MSG", 'F', ch.TakeSeq(), reqID, body)
		if err != nil || ch.WriteRaw(raw) != nil {
			return false
		}
		v, err := ch.Await(reqID, 3*time.Second)
		if err != nil {
			return false
		}
		responses[reqID]++
		if wr, ok := v.(*ua.WriteResponse); !ok || len(wr.Results) != 1 || wr.Results[0] != ua.StatusOK || cur() != val {
			return false
		}
		history = append(history, sent{raw, val, reqID})
		cs.Steps = append(cs.Steps, fmt.Sprintf("write %d (request %d, sequence number %d)", val, reqID, ch.SendSeq))
		return true
	}
	n := 3 + r.Intn(6)
	replays := 0
	for i := 0; i < n; i++ {
		if !fresh() {
			if replays > 0 {
				// the server gave up the channel after the replay: a legitimate reaction
				c.Class("server-side:channel-unusable-after-replay", 1)
				break
			}
			c.Inconclusive("fresh write not acknowledged")
			return
		}
		if len(history) >= 2 && r.Intn(2) == 0 {
			// re-send a verbatim copy of an earlier chunk (not the latest, so that an effect is visible)
			old := history[r.Intn(len(history)-1)]
			last := history[len(history)-1]
			if wrapVariant && r.Intn(2) == 0 {
				old = last // the chunk just sent (its effect cannot be told from the original's, a second answer can)
			}
			if renewVariant && r.Intn(2) == 0 {
				ch.Conn.SetReadDeadline(time.Now().Add(5 * time.Second))
				if _, err := ch.Open(true, 600000); err != nil {
					c.Inconclusive("renewal: " + classOf(err.Error()))
					return
				}
				cs.Steps = append(cs.Steps, fmt.Sprintf("token renewed (OPN sequence number %d, %d tokens)", ch.SendSeq, len(ch.Tokens)))
				c.Class("server-side:variant-renewal-before-replay", 1)
			}
			cs.Steps = append(cs.Steps, fmt.Sprintf("replay of the chunk that wrote %d (request %d)", old.val, old.reqID))
			c.Journal(cs.Index, cs)
			if ch.WriteRaw(old.raw) != nil {
				break
			}
			replays++
			if r.Intn(3) == 0 {
				// ... followed by the copies of the chunks that came after it, in their original order
				for _, h := range history {
					if h.reqID > old.reqID && h.reqID < last.reqID {
						ch.WriteRaw(h.raw)
						old = h
					}
				}
				cs.Steps = append(cs.Steps, fmt.Sprintf("... and of its successors up to the chunk that wrote %d", old.val))
			}
			v, err := ch.Await(old.reqID, 800*time.Millisecond)
			c.Eval(1)
			if got := cur(); got == old.val && old.reqID != last.reqID {
				cs.Detail = fmt.Sprintf("after the replay the value is %d again, the last fresh write was %d", got, last.val)
				c.Violation("c10:server-executed-replayed-chunk:"+modeName(cs.Mode), fmt.Sprintf("%s/%s: a verbatim copy of an earlier Write chunk was executed a second time: %s", p.Name, modeName(cs.Mode), cs.Detail), cs)
				return
			}
			if _, ok := v.(*ua.WriteResponse); ok && err == nil {
				cs.Detail = fmt.Sprintf("request %d was answered a second time", old.reqID)
				c.Violation("c10:server-answered-replayed-chunk:"+modeName(cs.Mode), fmt.Sprintf("%s/%s: %s", p.Name, modeName(cs.Mode), cs.Detail), cs)
				return
			}
			if err != nil && !strings.Contains(err.Error(), "timeout") {
				// the server dropped the connection: a legitimate reaction, the session is gone
				c.Class("server-side:connection-dropped-after-replay", 1)
				break
			}
			c.Class("server-side:replay-ignored", 1)
		}
	}
	if replays > 0 {
		c.Nontrivial(fmt.Sprintf("srv/%s/%d/%d", p.Name, cs.Mode, cs.Seed))
	}
}

// c10ClientSide: the scripted server answers Reads and then re-sends copies of earlier response chunks, also while a
// later request with the same content is pending; each call must get the response sealed for it, exactly once.
func c10ClientSide(c *fw.Ctx, cs c10Case) {
	r := rand.New(rand.NewSource(cs.Seed))
	p := refpeer.PolicyByURI(cs.Policy)
	sk, ck := keys.Get("b", 2048), keys.Get("a", 2048)
	srv, err := refpeer.NewServer(refpeer.ServerOpts{Policy: p, Mode: cs.Mode, Key: sk.Key, Cert: sk.Cert})
	if err != nil {
		c.Inconclusive("listen: " + err.Error())
		return
	}
	defer srv.Close()
	var mu sync.Mutex
	var old [][]byte
	serial := 0
	replays := 0
	srv.Handler = func(sc *refpeer.SrvConn, m *refpeer.Msg) {
		if srv.Default(sc, m) {
			return
		}
		req, ok := m.Service.(*ua.ReadRequest)
		if !ok {
			sc.Fault(m, ua.StatusBadServiceUnsupported)
			return
		}
		mu.Lock()
		serial++
		marker := fmt.Sprintf("answer-%d", serial)
		// before answering, replay earlier response chunks: the pending request must not be completed by them
		if len(old) > 0 && r.Intn(2) == 0 {
			sc.WriteRaw(old[r.Intn(len(old))])
			replays++
		}
		mu.Unlock()
		resp := &ua.ReadResponse{ResponseHeader: refpeer.RespHeader(req, ua.StatusOK), Results: []*ua.DataValue{{EncodingMask: ua.DataValueValue, Value: ua.MustVariant(marker)}}}
		body, _ := refpeer.EncodeBody(resp)
		raw, err := sc.SealChunk(nil, "MSG", 'F', sc.TakeSeq(), m.ReqID, body)
		if err != nil {
			return
		}
		sc.WriteRaw(raw)
		mu.Lock()
		old = append(old, raw)
		mu.Unlock()
	}
	ep := srv.Endpoints()[0]
	cl, err := opcua.NewClient(srv.Endpoint(), opcua.PrivateKey(ck.Key), opcua.Certificate(ck.Cert), opcua.SecurityFromEndpoint(ep, ua.UserTokenTypeAnonymous),
		opcua.AutoReconnect(false), opcua.RequestTimeout(2*time.Second))
	if err == nil {
		ctx, cancel := context.WithTimeout(context.Background(), 20*time.Second)
		err = cl.Connect(ctx)
		cancel()
	}
	if err != nil {
		c.Inconclusive("client connect: " + classOf(err.Error()))
		return
	}
	defer func() {
		ctx, cancel := context.WithTimeout(context.Background(), 2*time.Second)
		cl.Close(ctx)
		cancel()
	}()
	seen := map[string]int{}
	for i := 0; i < 12; i++ {
		ctx, cancel := context.WithTimeout(context.Background(), 4*time.Second)
		res, err := cl.Read(ctx, &ua.ReadRequest{NodesToRead: []*ua.ReadValueID{{NodeID: ua.NewStringNodeID(1, "x"), AttributeID: ua.AttributeIDValue}}})
		cancel()
		c.Eval(1)
		if err != nil {
			c.Class("client-side:call-failed-after-replay", 1)
			break // the client may legitimately give up the channel after a replayed chunk
		}
		if len(res.Results) == 1 && res.Results[0].Value != nil {
			if s, ok := res.Results[0].Value.Value().(string); ok {
				seen[s]++
				want := fmt.Sprintf("answer-%d", i+1)
				if s != want {
					cs.Detail = fmt.Sprintf("call %d returned %q, the response sealed for it carries %q", i+1, s, want)
					c.Violation("c10:client-delivered-replayed-chunk:"+modeName(cs.Mode), fmt.Sprintf("%s/%s: %s", p.Name, modeName(cs.Mode), cs.Detail), cs)
					return
				}
			}
		}
	}
	for s, n := range seen {
		if n > 1 {
			cs.Detail = fmt.Sprintf("response %q was returned to %d calls", s, n)
			c.Violation("c10:client-delivered-response-twice:"+modeName(cs.Mode), cs.Detail, cs)
		}
	}
	mu.Lock()
	if replays > 0 {
		c.Nontrivial(fmt.Sprintf("cli/%s/%d/%d", p.Name, cs.Mode, cs.Seed))
		c.Class("client-side:replays-sent", int64(replays))
	}
	mu.Unlock()
}

// c10BareChannel: a bare server-kind channel whose application keeps calling Receive after an error. The reference
// client sends requests, then verbatim copies of earlier chunks in runs (ascending order, so that a receiver which
// forgets where it was after a rejection accepts the second copy), and a copy of its OpenSecureChannel chunk.
func c10BareChannel(c *fw.Ctx, cs c10Case) {
	r := rand.New(rand.NewSource(cs.Seed))
	p := refpeer.PolicyByURI(cs.Policy)
	bs, err := newBareServer(nil)
	if err != nil {
		c.Inconclusive("listen: " + err.Error())
		return
	}
	defer bs.l.Close()
	sk, ck := keys.Get("b", 2048), keys.Get("a", 2048)
	cfg := &uasc.Config{SecurityPolicyURI: ua.SecurityPolicyURINone, SecurityMode: ua.MessageSecurityModeNone, Lifetime: 3600000, Certificate: sk.Cert, LocalKey: sk.Key}
	type accRes struct {
		sc   *uasc.SecureChannel
		conn *uacp.Conn
		err  error
	}
	acc := make(chan accRes, 1)
	go func() {
		sc, conn, err := bs.accept(cfg, 91, 1, 5)
		acc <- accRes{sc, conn, err}
	}()
	ch, _, err := refpeer.Dial(strings.TrimPrefix(bs.ep, "opc.tcp://"), refpeer.ClientOpts{Sec: refpeer.Security{Policy: p, Mode: cs.Mode, LocalKey: ck.Key, LocalCert: ck.Cert, RemoteCert: sk.Cert}})
	a := <-acc
	if err != nil || a.err != nil {
		c.Inconclusive(fmt.Sprintf("set-up: %v / %v", err, a.err))
		return
	}
	defer ch.Close()
	defer a.conn.Close()
	var opnChunk []byte
	ch.Raw = func(dir string, frame []byte) {
		if dir == "out" && len(frame) > 3 && string(frame[:3]) == "OPN" && opnChunk == nil {
			opnChunk = append([]byte{}, frame...)
		}
	}
	var mu sync.Mutex
	delivered := map[string]int{}
	errs := 0
	ctx, cancel := context.WithCancel(context.Background())
	defer cancel()
	go func() {
		for {
			msg := a.sc.Receive(ctx)
			if ctx.Err() != nil || msg.Err == io.EOF {
				return
			}
			if msg.Err != nil {
				mu.Lock()
				errs++
				mu.Unlock()
				if _, ok := msg.Err.(ua.StatusCode); !ok {
					return
				}
				continue // the application goes on receiving after a rejected chunk
			}
			if wr, ok := msg.Request().(*ua.WriteRequest); ok && len(wr.NodesToWrite) == 1 {
				mu.Lock()
				delivered[wr.NodesToWrite[0].NodeID.StringID()]++
				mu.Unlock()
			}
		}
	}()
	ch.Conn.SetReadDeadline(time.Now().Add(10 * time.Second))
	if _, err := ch.Open(false, 3600000); err != nil {
		c.Inconclusive("open: " + classOf(err.Error()))
		return
	}
	opnsBefore := 0
	for _, o := range ch.Log {
		if o.MsgType == "OPN" {
			opnsBefore++
		}
	}
	var raws [][]byte
	fresh := func() {
		n := len(raws)
		req := &ua.WriteRequest{NodesToWrite: []*ua.WriteValue{{NodeID: ua.NewStringNodeID(1, fmt.Sprintf("w%d", n)), AttributeID: ua.AttributeIDValue, Value: &ua.DataValue{EncodingMask: 1, Value: ua.MustVariant(int64(n))}}}}
		req.SetHeader(&ua.RequestHeader{AuthenticationToken: ua.NewTwoByteNodeID(0), Timestamp: time.Now(), RequestHandle: uint32(n), AdditionalHeader: ua.NewExtensionObject(nil)})
		body, _ := refpeer.EncodeBody(req)
		raw, _ := ch.SealChunk(nil, "MSG", 'F', ch.TakeSeq(), uint32(100+n), body)
		ch.WriteRaw(raw)
		raws = append(raws, raw)
		cs.Steps = append(cs.Steps, fmt.Sprintf("w%d", n))
	}
	for k := 0; k < 5; k++ {
		fresh()
	}
	for round := 0; round < 3; round++ {
		lo := r.Intn(len(raws) - 1)
		hi := lo + 2 + r.Intn(len(raws)-lo-1)
		if hi > len(raws) {
			hi = len(raws)
		}
		cs.Steps = append(cs.Steps, fmt.Sprintf("copies of w%d..w%d back to back", lo, hi-1))
		for k := lo; k < hi; k++ {
			ch.WriteRaw(raws[k])
		}
		fresh()
	}
	if opnChunk != nil {
		cs.Steps = append(cs.Steps, "copy of the OpenSecureChannel chunk")
		ch.WriteRaw(opnChunk)
	}
	c.Journal(cs.Index, cs)
	// has a second OpenSecureChannel response been sent?
	ch.Conn.SetReadDeadline(time.Now().Add(400 * time.Millisecond))
	for {
		if _, err := ch.ReadMsg(); err != nil {
			break
		}
	}
	time.Sleep(50 * time.Millisecond)
	c.Eval(int64(len(raws)))
	c.Nontrivial(fmt.Sprintf("bare/%s/%d/%d", p.Name, cs.Mode, cs.Seed))
	opnsAfter := 0
	for _, o := range ch.Log {
		if o.MsgType == "OPN" {
			opnsAfter++
		}
	}
	mu.Lock()
	defer mu.Unlock()
	c.Class("bare-channel:rejections-observed", int64(errs))
	for n, k := range delivered {
		if k > 1 {
			cs.Detail = fmt.Sprintf("request %s was delivered %d times by Receive", n, k)
			c.Violation("c10:bare-channel-delivered-replayed-chunk:"+modeName(cs.Mode), fmt.Sprintf("%s/%s: %s (history: %v)", p.Name, modeName(cs.Mode), cs.Detail, cs.Steps), cs)
			return
		}
	}
	if opnsAfter > opnsBefore {
		cs.Detail = fmt.Sprintf("the copy of the OpenSecureChannel request was answered again (%d OPN responses, %d before the replay)", opnsAfter, opnsBefore)
		c.Violation("c10:replayed-open-secure-channel-request-handled:"+modeName(cs.Mode), fmt.Sprintf("%s/%s: %s", p.Name, modeName(cs.Mode), cs.Detail), cs)
	}
}

func c10Run(c *fw.Ctx) error {
	n := int64(c.Pick(60, 4000))
	pols := refpeer.Policies
	for i := int64(0); i < n; i++ {
		if int(i%int64(c.NBatch)) != c.Batch || i < c.Resume {
			continue
		}
		r := c.Rng("c10", i)
		pol := pols[2] // Basic256Sha256 most of the time in the quick tier; all policies in thorough
		if !c.Quick() || i%5 == 0 {
			pol = pols[r.Intn(len(pols))]
		}
		cs := c10Case{Index: i, Side: []string{"server", "bare-channel", "client"}[i%3], Policy: pol.URI, Mode: 2 + r.Intn(2), Seed: r.Int63()}
		c.Journal(i, cs)
		switch cs.Side {
		case "server":
			c10ServerSide(c, cs)
		case "bare-channel":
			c10BareChannel(c, cs)
		default:
			c10ClientSide(c, cs)
		}
		c.Class("receiver:"+cs.Side, 1)
		c.Done(i)
	}
	return nil
}

func init() {
	fw.Register("C10", fw.Spec{
		Plan: func(tier string) fw.Plan {
			p := fw.Plan{Batches: 8, TimeoutS: 900, MinNontrivial: 20, Level: "exploration",
				Rule:        "histories on established Sign / SignAndEncrypt channels: (server) the independent client writes 3-8 unique values to a node of the real server and, at random positions, re-sends a verbatim copy of an earlier Write chunk; oracle: the node value (inspected in-process) never becomes a replayed value again and no request id is answered twice; a dropped connection after a replay is accepted; (bare channel) a server-kind channel whose application keeps calling Receive after rejections gets runs of copies in ascending order and a copy of the OpenSecureChannel chunk; oracle: no request delivered twice, no second OpenSecureChannel response; (client) the scripted server answers 12 Reads with distinct markers and re-sends copies of earlier response chunks before answering; oracle: every call returns the marker sealed for it, none twice; distinct = histories that contained a replay",
				Assumptions: []string{"the replayed chunk is byte-identical to one the peer accepted before (same sequence number, same token)"}}
			if tier == "thorough" {
				p.Batches, p.TimeoutS, p.MinNontrivial = 16, 3000, 1500
			}
			return p
		},
		Run: c10Run,
		Replay: func(c *fw.Ctx, raw json.RawMessage) error {
			var cs c10Case
			if err := json.Unmarshal(raw, &cs); err != nil {
				return err
			}
			cs.Steps, cs.Detail = nil, ""
			switch cs.Side {
			case "server":
				c10ServerSide(c, cs)
			case "bare-channel":
				c10BareChannel(c, cs)
			default:
				c10ClientSide(c, cs)
			}
			return nil
		},
	})
}
