package props

import (
	"context"
	"crypto/ecdsa"
	"crypto/elliptic"
	"crypto/rand"
	"crypto/x509"
	"crypto/x509/pkix"
	"encoding/json"
	"fmt"
	"math/big"
	"os"
	"os/exec"
	"strings"
	"sync/atomic"
	"time"

	"github.com/gopcua/opcua"
	"github.com/gopcua/opcua/ua"

	"verifharness/fw"
	"verifharness/keys"
	"verifharness/refpeer"
	"verifharness/sut"
)

// C22: in Sign / SignAndEncrypt, Connect succeeds only if the server's session signature over
// clientCert||clientNonce verifies with the server certificate; otherwise an error, not connected, no panic.
// The client runs in its own child process (role "c22-client"): a panic inside gopcua is an observation.

type c22Case struct {
	Policy  string `json:"policy"`
	Mode    int    `json:"mode"`
	Variant string `json:"signature_variant"`
	Bits    int    `json:"key_bits"`
	Index   int64  `json:"index"`
	// Second: the same client object first connects against a valid signature and is closed; the variant is what
	// the server answers to the second CreateSession of that client
	Second bool `json:"second_connect_of_the_same_client,omitempty"`
}

var c22Variants = []string{"valid", "bitflip", "empty", "null", "other-key", "other-data", "truncated", "extended", "garbage-cert", "ecdsa-cert", "empty-cert", "other-cert",
	"bitflip-without-algorithm", "other-key-without-algorithm", "other-key-with-another-algorithm", "no-signature-field"}

func ecdsaCert() []byte {
	k, _ := ecdsa.GenerateKey(elliptic.P256(), rand.Reader)
	t := x509.Certificate{SerialNumber: big.NewInt(1), Subject: pkix.Name{CommonName: "ecdsa"}, NotBefore: time.Now().Add(-time.Hour), NotAfter: time.Now().Add(time.Hour)}
	der, _ := x509.CreateCertificate(rand.Reader, &t, &t, &k.PublicKey, k)
	return der
}

// c22Client is the child: connects once and prints the outcome as JSON.
func c22Client(arg string) int {
	var a struct {
		Endpoint string
		Policy   string
		Mode     int
		Bits     int
		SrvCert  string // key name of the server certificate the client is configured with
		Second   bool
	}
	if err := json.Unmarshal([]byte(arg), &a); err != nil {
		fmt.Fprintln(os.Stderr, err)
		return 3
	}
	ck := keys.Get("a", a.Bits)
	sk := keys.Get("b", a.Bits)
	ep := &ua.EndpointDescription{EndpointURL: a.Endpoint, SecurityPolicyURI: a.Policy, SecurityMode: ua.MessageSecurityMode(a.Mode), ServerCertificate: sk.Cert,
		UserIdentityTokens: []*ua.UserTokenPolicy{{PolicyID: "Anonymous", TokenType: ua.UserTokenTypeAnonymous}}}
	cl, err := opcua.NewClient(a.Endpoint, opcua.PrivateKey(ck.Key), opcua.Certificate(ck.Cert),
		opcua.SecurityFromEndpoint(ep, ua.UserTokenTypeAnonymous), opcua.AutoReconnect(false), opcua.RequestTimeout(3*time.Second))
	out := map[string]interface{}{}
	if err != nil {
		out["newclient_error"] = err.Error()
	} else {
		ctx, cancel := context.WithTimeout(context.Background(), 20*time.Second)
		err = cl.Connect(ctx)
		cancel()
		if a.Second {
			out["first_connect_ok"] = err == nil
			if err == nil {
				cctx, ccancel := context.WithTimeout(context.Background(), 5*time.Second)
				cl.Close(cctx)
				ccancel()
				ctx, cancel = context.WithTimeout(context.Background(), 20*time.Second)
				err = cl.Connect(ctx)
				cancel()
			}
		}
		out["connect_error"] = ""
		if err != nil {
			out["connect_error"] = err.Error()
		}
		out["connect_ok"] = err == nil
		out["state"] = cl.State().String()
		if err == nil {
			// a connected client must be able to talk
			_, rerr := cl.NamespaceArray(context.Background())
			out["read_ok"] = rerr == nil
		}
		cl.Close(context.Background())
	}
	b, _ := json.Marshal(out)
	fmt.Println("C22RESULT " + string(b))
	return 0
}

func c22One(c *fw.Ctx, cs c22Case) {
	p := refpeer.PolicyByURI(cs.Policy)
	sk := keys.Get("b", cs.Bits)
	other := keys.Get("a", cs.Bits) // some other key of the same size
	srv, err := refpeer.NewServer(refpeer.ServerOpts{Policy: p, Mode: cs.Mode, Key: sk.Key, Cert: sk.Cert})
	if err != nil {
		c.Inconclusive("listen: " + err.Error())
		return
	}
	defer srv.Close()
	var nCreate int32
	srv.SessionSig = func(valid, clientCert, clientNonce []byte) []byte {
		if cs.Second && atomic.AddInt32(&nCreate, 1) == 1 {
			return valid
		}
		switch cs.Variant {
		case "bitflip", "bitflip-without-algorithm":
			b := append([]byte{}, valid...)
			b[len(b)/2] ^= 0x10
			return b
		case "empty":
			return []byte{}
		case "null":
			return nil
		case "other-key", "other-key-without-algorithm", "other-key-with-another-algorithm":
			s, _ := p.AsymSign(other.Key, append(append([]byte{}, clientCert...), clientNonce...))
			return s
		case "other-data":
			s, _ := p.AsymSign(sk.Key, append(append([]byte{}, clientNonce...), clientCert...))
			return s
		case "truncated":
			return valid[:len(valid)-1]
		case "extended":
			return append(append([]byte{}, valid...), 0)
		}
		return valid
	}
	// the algorithm field of the signature is under the server's control as well
	// (for the second-connect cases it applies to both CreateSession answers; the first stays valid otherwise)
	if !cs.Second {
		empty, otherAlg := "", "http://www.w3.org/2000/09/xmldsig#rsa-sha1"
		if p.AsymSigURI == otherAlg {
			otherAlg = "http://www.w3.org/2001/04/xmldsig-more#rsa-sha256"
		}
		switch cs.Variant {
		case "bitflip-without-algorithm", "other-key-without-algorithm":
			srv.SessionSigAlg = &empty
		case "other-key-with-another-algorithm":
			srv.SessionSigAlg = &otherAlg
		case "no-signature-field":
			srv.SessionSigNil = true
		}
	}
	switch cs.Variant {
	case "garbage-cert":
		srv.ServerCertOverride = []byte{0x30, 0x82, 0x01, 0x00, 1, 2, 3, 4, 5}
	case "ecdsa-cert":
		srv.ServerCertOverride = ecdsaCert()
	case "empty-cert":
		srv.ServerCertOverride = []byte{}
	case "other-cert":
		srv.ServerCertOverride = other.Cert // a valid signature, but by a key that is not the one of the returned certificate
	}
	activated := false
	srv.Handler = func(sc *refpeer.SrvConn, m *refpeer.Msg) {
		if _, ok := m.Service.(*ua.ActivateSessionRequest); ok && (!cs.Second || atomic.LoadInt32(&nCreate) > 1) {
			activated = true
		}
		if !srv.Default(sc, m) {
			sc.Fault(m, ua.StatusBadServiceUnsupported)
		}
	}
	arg, _ := json.Marshal(map[string]interface{}{"Endpoint": srv.Endpoint(), "Policy": cs.Policy, "Mode": cs.Mode, "Bits": cs.Bits, "Second": cs.Second})
	out, stderr, rc, timedOut := sut.RunChild("c22-client", string(arg), 60*time.Second)
	c.Eval(1)
	c.Class("variant:"+cs.Variant, 1)
	c.Class("policy:"+p.Name, 1)
	c.Nontrivial(fmt.Sprintf("%s/%d/%s/%d/%v", p.Name, cs.Mode, cs.Variant, cs.Bits, cs.Second))
	if cs.Second {
		c.Class("second-connect-of-the-same-client", 1)
	}
	if timedOut {
		c.Inconclusive("client child did not finish within the watchdog")
		return
	}
	var res map[string]interface{}
	for _, line := range strings.Split(out, "\n") {
		if strings.HasPrefix(line, "C22RESULT ") {
			json.Unmarshal([]byte(line[10:]), &res)
		}
	}
	if res == nil {
		key, msg := fw.CrashKey(stderr)
		c.Violation("c22:client-"+key, fmt.Sprintf("the client process died (rc=%d) while connecting: %s", rc, msg), cs)
		return
	}
	ok, _ := res["connect_ok"].(bool)
	wantOK := cs.Variant == "valid"
	switch {
	case wantOK && !ok:
		c.Violation("c22:valid-signature-rejected:"+p.Name, fmt.Sprintf("Connect failed although the server signature is valid: %v", res["connect_error"]), cs)
	case !wantOK && ok:
		c.Violation("c22:connected-without-proof:"+cs.Variant, fmt.Sprintf("Connect succeeded (state %v) although the server signature is %s", res["state"], cs.Variant), cs)
	case !wantOK && activated:
		c.Violation("c22:activated-without-proof:"+cs.Variant, "the client went on to ActivateSession although the server signature is "+cs.Variant, cs)
	case !wantOK && res["state"] == "Connected":
		c.Violation("c22:state-connected-after-error:"+cs.Variant, "Connect returned an error but the client reports Connected", cs)
	}
}

func c22Run(c *fw.Ctx) error {
	var cases []c22Case
	for _, p := range refpeer.Policies {
		for _, mode := range []int{2, 3} {
			for _, v := range c22Variants {
				cases = append(cases, c22Case{Policy: p.URI, Mode: mode, Variant: v, Bits: 2048})
			}
		}
	}
	// the same client object connecting a second time: what it learnt in the first session must not replace the proof
	for _, p := range refpeer.Policies {
		for _, mode := range []int{2, 3} {
			for _, v := range []string{"valid", "bitflip", "empty", "other-key", "other-data"} {
				if c.Quick() && (mode == 2) != (v == "bitflip" || v == "valid") {
					continue
				}
				cases = append(cases, c22Case{Policy: p.URI, Mode: mode, Variant: v, Bits: 2048, Second: true})
			}
		}
	}
	reps := c.Pick(1, 6)
	idx := int64(0)
	for rep := 0; rep < reps; rep++ {
		for _, cs := range cases {
			i := idx
			idx++
			if int(i%int64(c.NBatch)) != c.Batch || i < c.Resume {
				continue
			}
			if c.Quick() && cs.Mode == 2 && int(i)%2 == 0 && cs.Variant != "valid" && !cs.Second {
				continue
			}
			cs.Index = i
			if rep > 0 { // thorough: other key sizes allowed by the policy
				sizes := allowedSizes(refpeer.PolicyByURI(cs.Policy))
				cs.Bits = sizes[rep%len(sizes)]
			}
			c.Journal(i, cs)
			c22One(c, cs)
			if i%17 == 0 {
				c.Sample(cs)
			}
			c.Done(i)
		}
	}
	return nil
}

func init() {
	sut.Register("c22-client", c22Client)
	_ = exec.Command
	fw.Register("C22", fw.Spec{
		Plan: func(tier string) fw.Plan {
			p := fw.Plan{Batches: 16, TimeoutS: 600, MinNontrivial: 40, Level: "exploration",
				Rule:        "gopcua client (own child process per connect) against the scripted refpeer server over real secured channels: 5 policies x {Sign, SignAndEncrypt} x server-signature variants {valid, bit-flipped, empty, null, made with another key, made over other data, truncated, extended, garbage / ECDSA / empty / foreign server certificate in the response, bad signatures with an empty or another algorithm URI, no signature field at all}; plus the same variants answered to the second CreateSession of a client object that connected successfully before and was closed; oracle: Connect succeeds iff the variant is 'valid', no ActivateSession is sent without proof, state is not Connected after an error, the child does not die; distinct = (policy, mode, variant, key size)",
				Assumptions: []string{"the server certificate configured at the client is the scripted server's"}}
			if tier == "thorough" {
				p.TimeoutS, p.MinNontrivial = 3000, 200
			}
			return p
		},
		Run: c22Run,
		Replay: func(c *fw.Ctx, raw json.RawMessage) error {
			var cs c22Case
			if err := json.Unmarshal(raw, &cs); err != nil {
				return err
			}
			c22One(c, cs)
			return nil
		},
	})
}
