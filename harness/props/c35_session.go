package props

import (
	"encoding/json"
	"fmt"
	"reflect"
	"sort"
	"strings"
	"time"

	"github.com/gopcua/opcua/ua"

	"verifharness/fw"
	"verifharness/gen"
	"verifharness/keys"
	"verifharness/refpeer"
)

// C35: services other than discovery and session set-up require an activated session.
// The real server runs in the worker process (so that its tables can be inspected); the independent scripted
// client sends every registered request type with generated bodies under five kinds of bad tokens.

var c35Exempt = map[string]bool{
	"FindServersRequest": true, "FindServersOnNetworkRequest": true, "GetEndpointsRequest": true, "RegisterServerRequest": true,
	"RegisterServer2Request": true, "CreateSessionRequest": true, "ActivateSessionRequest": true, "CloseSessionRequest": true,
	"OpenSecureChannelRequest": true, "CloseSecureChannelRequest": true, "CancelRequest": true,
}

func requestTypes(reg *gen.Registry) []gen.NamedType {
	var out []gen.NamedType
	for _, s := range reg.Services {
		n := s.Type.Elem().Name()
		if strings.HasSuffix(n, "Request") && reflect.PtrTo(s.Type.Elem()).Implements(reflect.TypeOf((*ua.Request)(nil)).Elem()) {
			out = append(out, s)
		}
	}
	return out
}

type c35Case struct {
	Type   string `json:"request_type"`
	Token  string `json:"token_state"`
	Index  int64  `json:"index"`
	Status string `json:"status,omitempty"`
}

func sessionError(st ua.StatusCode) bool {
	switch st {
	case ua.StatusBadSessionIDInvalid, ua.StatusBadSessionClosed, ua.StatusBadSessionNotActivated, ua.StatusBadSecurityChecksFailed,
		ua.StatusBadIdentityTokenInvalid, ua.StatusBadUserAccessDenied:
		return true
	}
	return false
}

type c35Snapshot struct {
	vals  []int64
	subs  int
	items int
}

func (rs *realServer) snapshot() c35Snapshot {
	var s c35Snapshot
	for _, v := range rs.Vars {
		x := int64(-1)
		if dv := v.Value(); dv != nil && dv.Value != nil {
			if i, ok := dv.Value.Value().(int64); ok {
				x = i
			}
		}
		s.vals = append(s.vals, x)
	}
	rs.Srv.SubscriptionService.Mu.Lock()
	s.subs = len(rs.Srv.SubscriptionService.Subs)
	rs.Srv.SubscriptionService.Mu.Unlock()
	rs.Srv.MonitoredItemService.Mu.Lock()
	s.items = len(rs.Srv.MonitoredItemService.Items)
	rs.Srv.MonitoredItemService.Mu.Unlock()
	return s
}

func (a c35Snapshot) diff(b c35Snapshot) string {
	for i := range a.vals {
		if a.vals[i] != b.vals[i] {
			return fmt.Sprintf("value of v%d changed %d -> %d", i, a.vals[i], b.vals[i])
		}
	}
	if a.subs != b.subs {
		return fmt.Sprintf("number of subscriptions changed %d -> %d", a.subs, b.subs)
	}
	if a.items != b.items {
		return fmt.Sprintf("number of monitored items changed %d -> %d", a.items, b.items)
	}
	return ""
}

// aimAtServer rewrites generated requests so that, were they executed, they would have a visible effect.
func aimAtServer(req ua.Request, rs *realServer, unique int64) {
	switch r := req.(type) {
	case *ua.WriteRequest:
		r.NodesToWrite = []*ua.WriteValue{{NodeID: rs.Vars[0].ID(), AttributeID: ua.AttributeIDValue,
			Value: &ua.DataValue{EncodingMask: ua.DataValueValue, Value: ua.MustVariant(unique)}}}
	case *ua.ReadRequest:
		r.NodesToRead = []*ua.ReadValueID{{NodeID: rs.Vars[1].ID(), AttributeID: ua.AttributeIDValue, DataEncoding: &ua.QualifiedName{}}}
	case *ua.CreateSubscriptionRequest:
		r.RequestedPublishingInterval, r.RequestedLifetimeCount, r.RequestedMaxKeepAliveCount, r.PublishingEnabled = 100, 100, 10, true
	}
}

// lookalikes derives never-issued tokens from a live one.
func lookalikes(live *ua.NodeID) map[string]*ua.NodeID {
	out := map[string]*ua.NodeID{}
	ns := live.Namespace()
	switch live.Type() {
	case ua.NodeIDTypeTwoByte, ua.NodeIDTypeFourByte, ua.NodeIDTypeNumeric:
		id := live.IntID()
		out["live-number-in-namespace+1"] = ua.NewNumericNodeID(ns+1, id)
		out["live-number-in-namespace-300"] = ua.NewNumericNodeID(300, id)
		out["live-number-as-string-id"] = ua.NewStringNodeID(ns, fmt.Sprint(id))
		out["live-number+1"] = ua.NewNumericNodeID(ns, id+1)
		out["live-number+2^16"] = ua.NewNumericNodeID(ns, id+65536)
	case ua.NodeIDTypeString:
		out["live-string-in-namespace+1"] = ua.NewStringNodeID(ns+1, live.StringID())
		out["live-string-as-opaque-id"] = ua.NewByteStringNodeID(ns, []byte(live.StringID()))
		out["live-string-prefix"] = ua.NewStringNodeID(ns, live.StringID()[:len(live.StringID())/2])
		out["live-string-upper-case"] = ua.NewStringNodeID(ns, strings.ToUpper(live.StringID()))
	case ua.NodeIDTypeGUID:
		out["live-guid-in-namespace+1"] = ua.NewGUIDNodeID(ns+1, live.StringID())
		out["live-guid-as-string-id"] = ua.NewStringNodeID(ns, live.StringID())
		out["live-guid-as-opaque-id"] = ua.NewByteStringNodeID(ns, []byte(live.StringID()))
	case ua.NodeIDTypeByteString:
		out["live-opaque-in-namespace+1"] = ua.NewByteStringNodeID(ns+1, []byte(live.StringID()))
		out["live-opaque-as-string-id"] = ua.NewStringNodeID(ns, live.StringID())
	}
	return out
}

func c35Run(c *fw.Ctx) error {
	reg := gen.LoadRegistry()
	types := requestTypes(reg)
	rs, err := startRealServer(srvCfg{Vars: 3, Sec: []secPair{{"None", 1}, {"Basic256Sha256", 2}}})
	if err != nil {
		return err
	}
	defer rs.Srv.Close()
	addr := strings.TrimPrefix(rs.Endpoint, "opc.tcp://")

	// token states
	mk := func() (*refpeer.Channel, error) {
		ch, _, err := refpeer.Dial(addr, refpeer.ClientOpts{Hello: refpeer.Hello{URL: rs.Endpoint}, Sec: refpeer.Security{Mode: refpeer.ModeNone}})
		if err != nil {
			return nil, err
		}
		_, err = ch.Open(false, 3600000)
		return ch, err
	}
	ch, err := mk()
	if err != nil {
		return fmt.Errorf("scripted client cannot open a channel: %v", err)
	}
	defer func() { ch.Close() }()
	// a valid session on another channel serves as control and to create a closed / not-activated token
	good, goodTok, err := refpeer.OpenSession(addr, rs.Endpoint)
	if err != nil {
		return fmt.Errorf("control session: %v", err)
	}
	defer good.Close()
	closedCh, closedTok, err := refpeer.OpenSession(addr, rs.Endpoint)
	if err != nil {
		return fmt.Errorf("session to close: %v", err)
	}
	closedCh.Request(&ua.CloseSessionRequest{DeleteSubscriptions: true}, closedTok, 5*time.Second)
	closedCh.Close()
	cs, err := good.CreateSession(rs.Endpoint, nil)
	if err != nil {
		return fmt.Errorf("CreateSession for the not-activated token: %v", err)
	}
	// a second server in the same process: its live session tokens are foreign to the server under test
	other, err := startRealServer(srvCfg{Vars: 1})
	if err != nil {
		return fmt.Errorf("second server: %v", err)
	}
	defer other.Srv.Close()
	otherCh, otherTok, err := refpeer.OpenSession(strings.TrimPrefix(other.Endpoint, "opc.tcp://"), other.Endpoint)
	if err != nil {
		return fmt.Errorf("session on the second server: %v", err)
	}
	defer otherCh.Close()
	tokens := map[string]*ua.NodeID{
		"null":          ua.NewTwoByteNodeID(0),
		"unknown":       ua.NewNumericNodeID(0, 0x7ffffff1),
		"closed":        closedTok,
		"not-activated": cs.AuthenticationToken,
		"other-server":  otherTok,
		"made-up-guid":  ua.NewGUIDNodeID(1, "12345678-1234-1234-1234-123456789abc"),
	}
	tokNames := []string{"null", "unknown", "closed", "not-activated", "other-server", "made-up-guid"}
	// a session whose activation was refused: created over a Sign channel, ActivateSession with a client signature
	// over the wrong data
	func() {
		pol := refpeer.PolicyByURI(refpeer.URIBasic256Sha256)
		sk, ck := keys.Get("b", 2048), keys.Get("a", 2048)
		sch, _, err := refpeer.Dial(addr, refpeer.ClientOpts{Hello: refpeer.Hello{URL: rs.Endpoint}, Sec: refpeer.Security{Policy: pol, Mode: 2, LocalKey: ck.Key, LocalCert: ck.Cert, RemoteCert: sk.Cert}})
		if err != nil {
			return
		}
		defer sch.Close()
		if _, err := sch.Open(false, 3600000); err != nil {
			return
		}
		scs, err := sch.CreateSession(rs.Endpoint, ck.Cert)
		if err != nil {
			return
		}
		bad, _ := pol.AsymSign(ck.Key, append(append([]byte{}, scs.ServerNonce...), scs.ServerCertificate...))
		v, err := sch.ActivateSession(scs.AuthenticationToken, "anonymous_none", &ua.SignatureData{Algorithm: pol.AsymSigURI, Signature: bad})
		if _, ok := v.(*ua.ActivateSessionResponse); ok && err == nil {
			c.Class("activation-with-an-invalid-client-signature-was-accepted", 1)
			return
		}
		tokens["activation-refused"] = scs.AuthenticationToken
		tokNames = append(tokNames, "activation-refused")
	}()
	sort.Strings(tokNames[6:])
	// tokens that were never issued but resemble the live token of the valid session: same identifier in another
	// namespace, the same identifier under another encoding, neighbours of a numeric identifier
	for name, t := range lookalikes(goodTok) {
		tokens[name] = t
		tokNames = append(tokNames, name)
	}
	sort.Strings(tokNames[6:])

	// control: with the valid session a write has its effect (otherwise the experiment observes nothing)
	wr := &ua.WriteRequest{}
	aimAtServer(wr, rs, 424242)
	if v, err := good.Request(wr, goodTok, 5*time.Second); err != nil || refpeer.StatusOf(v) != ua.StatusOK || rs.snapshot().vals[0] != 424242 {
		return fmt.Errorf("control write with a valid session has no effect: %v %v", v, err)
	}
	c.Class("control:valid-session-write-effective", 1)

	reps := int64(c.Pick(4, 300))
	idx := int64(0)
	for ti, t := range types {
		name := t.Type.Elem().Name()
		switch name {
		case "CloseSessionRequest", "ActivateSessionRequest", "CreateSessionRequest", "CloseSecureChannelRequest", "OpenSecureChannelRequest":
			// session and channel management is exempt by the property, and sending it would change the token states
			// under test (CloseSession deletes the not-activated and foreign sessions, ActivateSession activates them)
			continue
		}
		for _, tn := range tokNames {
			for k := int64(0); k < reps; k++ {
				if strings.HasPrefix(tn, "live-") && name != "WriteRequest" && name != "ReadRequest" && name != "CreateSubscriptionRequest" && name != "BrowseRequest" && (c.Quick() || k > 0) {
					continue
				}
				i := idx
				idx++
				if int(i%int64(c.NBatch)) != c.Batch || i < c.Resume {
					continue
				}
				r := c.Rng("c35", i)
				g := gen.New(r, reg)
				g.MaxDepth = 1
				var req ua.Request
				if pn := fw.Catch(func() { req = g.Value(t.Type).Interface().(ua.Request) }); pn != nil {
					continue
				}
				if k%2 == 0 {
					aimAtServer(req, rs, 1_000_000+i)
				}
				cse := c35Case{Type: name, Token: tn, Index: i}
				c.Journal(i, cse)
				before := rs.snapshot()
				v, err := ch.Request(req, tokens[tn], 3*time.Second)
				c.Eval(1)
				c.Class("token:"+tn, 1)
				c.Nontrivial(fmt.Sprintf("%s/%s/%d", name, tn, k))
				if err != nil {
					// no answer at all (connection closed or timeout): not an answer with content; reopen and go on
					c.Class("outcome:no-answer", 1)
					if name == "PublishRequest" && strings.Contains(err.Error(), "timeout") {
						// the connection is still there and the request is simply kept: the server has queued a publish
						// request for a token that names no activated session
						cse.Status = "no answer within 3 s, connection open"
						c.Violation("c35:publish-request-kept-without-session:"+tn, fmt.Sprintf("PublishRequest with a %s token got no session error: it stays unanswered on an open connection (queued)", tn), cse)
					}
					ch.Close()
					if ch, err = mk(); err != nil {
						return fmt.Errorf("server no longer accepts channels after %s/%s: %v", name, tn, err)
					}
				} else {
					st := refpeer.StatusOf(v)
					cse.Status = st.Error()
					switch {
					case c35Exempt[name]:
						c.Class("outcome:exempt-type", 1)
					case sessionError(st):
						c.Class("outcome:session-error", 1)
						c.Class("session-error:"+tn+":"+fmt.Sprintf("%#x", uint32(st)), 1)
					case st == ua.StatusBadServiceUnsupported:
						c.Class("outcome:service-unsupported", 1)
					default:
						c.Violation("c35:answered-without-session:"+name+":"+tn, fmt.Sprintf("%s with a %s token was answered with %T / %v", name, tn, v, st), cse)
					}
				}
				time.Sleep(0)
				if d := before.diff(rs.snapshot()); d != "" && !c35Exempt[name] {
					c.Violation("c35:effect-without-session:"+name+":"+tn, fmt.Sprintf("%s with a %s token had an effect: %s", name, tn, d), cse)
				}
				if ti%9 == 0 && k == 0 && tn == "null" {
					c.Sample(cse)
				}
				c.Done(i)
			}
		}
	}
	c.Extra("request_types", len(types))
	return nil
}

func init() {
	fw.Register("C35", fw.Spec{
		Plan: func(tier string) fw.Plan {
			p := fw.Plan{Batches: 4, TimeoutS: 900, MinNontrivial: 200, Level: "exploration",
				Rule:        "every request type registered in the tree under test x token state {null, unknown, closed, created-not-activated, created with a refused activation (invalid client signature on a Sign channel), live token of a second server in the same process, made-up GUID, never-issued look-alikes of a live token: same identifier in another namespace / under another id encoding / neighbouring numbers} x generated bodies (half of them aimed at a visible effect: write a unique value, create a subscription) sent by the independent scripted client over a bare secure channel to the real server; oracle: the answer is a session error (or BadServiceUnsupported) and values / subscription table / monitored item table (inspected in-process) are unchanged; a write under a valid session is the control; distinct = (type, token state, body index)",
				Assumptions: []string{"FindServers*, GetEndpoints, RegisterServer*, Create/Activate/CloseSession, Open/CloseSecureChannel and Cancel are the exempt discovery / session services"}}
			if tier == "thorough" {
				p.Batches, p.TimeoutS, p.MinNontrivial = 16, 3000, 20000
			}
			return p
		},
		Run: c35Run,
		Replay: func(c *fw.Ctx, raw json.RawMessage) error {
			return fmt.Errorf("re-run the check with the same seed: a case depends on the server state built by the run")
		},
	})
}
