package props

import (
	"context"
	"encoding/json"
	"fmt"
	"strings"
	"sync"
	"time"

	"github.com/gopcua/opcua/ua"
	"github.com/gopcua/opcua/uacp"
	"github.com/gopcua/opcua/uapolicy"
	"github.com/gopcua/opcua/uasc"

	"verifharness/fw"
	"verifharness/keys"
	"verifharness/refpeer"
)

// C17: chunks secured with an expired token are rejected. The independent peer keeps the keys of a superseded token
// and, once that token's lifetime plus 25 % (plus a margin) has passed, sends a well-formed chunk with a fresh
// sequence number sealed with them. Lateness of the harness only makes the token more expired.

type c17Case struct {
	Index      int64  `json:"index"`
	Side       string `json:"receiver"`
	Mode       int    `json:"mode"`
	LifetimeMS uint32 `json:"lifetime_ms"`
	MarginMS   int    `json:"margin_after_expiry_ms"`
	OldLast    bool   `json:"last_chunk_before_expiry_under_the_old_token,omitempty"`
	Detail     string `json:"detail,omitempty"`
}

func c17Client(c *fw.Ctx, cs c17Case) {
	sk, ck := keys.Get("b", 2048), keys.Get("a", 2048)
	p := refpeer.PolicyByURI(refpeer.URIBasic256Sha256)
	so := refpeer.ServerOpts{Lifetime: cs.LifetimeMS, Policy: p, Mode: cs.Mode, Key: sk.Key, Cert: sk.Cert}
	cfg := &uasc.Config{SecurityPolicyURI: refpeer.URIBasic256Sha256, SecurityMode: ua.MessageSecurityMode(cs.Mode), Lifetime: 3600000, RequestTimeout: 1500 * time.Millisecond,
		Certificate: ck.Cert, LocalKey: ck.Key, RemoteCertificate: sk.Cert, Thumbprint: uapolicy.Thumbprint(sk.Cert)}
	srv, err := refpeer.NewServer(so)
	if err != nil {
		c.Inconclusive("listen: " + err.Error())
		return
	}
	defer srv.Close()
	L := time.Duration(cs.LifetimeMS) * time.Millisecond
	var mu sync.Mutex
	var first *refpeer.Token // the first token of the connection and when it was issued
	var firstAt time.Time
	mode := "normal"
	srv.OnOpen = func(sc *refpeer.SrvConn, m *refpeer.Msg, renew bool) bool {
		go func() { // after AnswerOpen has run, remember the first token
			time.Sleep(20 * time.Millisecond)
			mu.Lock()
			if first == nil && len(sc.Tokens) > 0 {
				first, firstAt = sc.Tokens[0], sc.Tokens[0].IssuedAt
			}
			mu.Unlock()
		}()
		return true
	}
	srv.Handler = func(sc *refpeer.SrvConn, m *refpeer.Msg) {
		req, ok := m.Service.(*ua.ReadRequest)
		if !ok {
			return
		}
		mu.Lock()
		md, old := mode, first
		mu.Unlock()
		mk := func(marker string) []byte {
			b, _ := refpeer.EncodeBody(&ua.ReadResponse{ResponseHeader: refpeer.RespHeader(req, ua.StatusOK), Results: []*ua.DataValue{{EncodingMask: ua.DataValueValue, Value: ua.MustVariant(marker)}}})
			return b
		}
		if md == "old-token" && old != nil && len(sc.Tokens) > 1 {
			raw, err := sc.SealChunk(old, "MSG", 'F', sc.TakeSeq(), m.ReqID, mk("SEALED-WITH-EXPIRED-TOKEN"))
			if err == nil {
				sc.WriteRaw(raw)
			}
			return
		}
		raw, _ := sc.SealChunk(nil, "MSG", 'F', sc.TakeSeq(), m.ReqID, mk("fresh"))
		sc.WriteRaw(raw)
	}
	ctx, cancel := context.WithTimeout(context.Background(), 60*time.Second)
	defer cancel()
	conn, err := uacp.Dial(ctx, srv.Endpoint())
	if err != nil {
		c.Inconclusive("dial: " + err.Error())
		return
	}
	defer conn.Close()
	sc, err := uasc.NewSecureChannel(srv.Endpoint(), conn, cfg, make(chan error, 256))
	if err == nil {
		err = sc.Open(ctx)
	}
	if err != nil {
		c.Inconclusive("open: " + classOf(err.Error()))
		return
	}
	defer sc.Close()
	read := func() (string, error) {
		var got string
		err := sc.SendRequest(ctx, &ua.ReadRequest{NodesToRead: []*ua.ReadValueID{{NodeID: ua.NewStringNodeID(1, "x"), AttributeID: ua.AttributeIDValue, DataEncoding: &ua.QualifiedName{}}}}, nil, func(v ua.Response) error {
			if rr, ok := v.(*ua.ReadResponse); ok && len(rr.Results) == 1 && rr.Results[0].Value != nil {
				got, _ = rr.Results[0].Value.Value().(string)
			}
			return nil
		})
		return got, err
	}
	if got, err := read(); err != nil || got != "fresh" {
		c.Inconclusive(fmt.Sprintf("control read failed: %v %q", err, got))
		return
	}
	// wait until the first token has been replaced and is expired for the receiver: issue + 1.25 L + margin
	time.Sleep(50 * time.Millisecond)
	mu.Lock()
	at := firstAt
	mu.Unlock()
	if at.IsZero() {
		c.Inconclusive("first token not recorded")
		return
	}
	if cs.OldLast {
		// right after the renewal (at 0.75 L) the server answers one read under the old token, which is valid then;
		// nothing under the new token follows before the expiry
		time.Sleep(time.Until(at.Add(L*3/4 + L/8)))
		mu.Lock()
		mode = "old-token"
		mu.Unlock()
		if got, err := read(); err == nil && got == "SEALED-WITH-EXPIRED-TOKEN" {
			c.Class("client:previous-token-accepted-while-valid", 1)
		}
	}
	time.Sleep(time.Until(at.Add(L + L/4 + time.Duration(cs.MarginMS)*time.Millisecond)))
	mu.Lock()
	mode = "old-token"
	mu.Unlock()
	got, rerr := read()
	c.Eval(1)
	c.Class(fmt.Sprintf("client:tokens-issued-before-injection:%d", len(sc.VerifTokens())), 1)
	if rerr == nil && got == "SEALED-WITH-EXPIRED-TOKEN" {
		cs.Detail = fmt.Sprintf("a response sealed with the keys of the first token (lifetime %v, replaced, injected %v after its issue = 1.25 x lifetime + %d ms) was delivered to the caller; tokens the channel still tries: %d",
			L, time.Since(at).Round(time.Millisecond), cs.MarginMS, len(sc.VerifTokens()))
		c.Violation("c17:client-accepted-chunk-under-expired-token", cs.Detail, cs)
		return
	}
	c.Class("client:expired-token-chunk-not-delivered", 1)
}

func c17Server(c *fw.Ctx, cs c17Case) {
	p := refpeer.PolicyByURI(refpeer.URIBasic256Sha256)
	rs, err := startRealServer(srvCfg{Sec: []secPair{{"Basic256Sha256", cs.Mode}}, KeyBits: 2048, Vars: 1})
	if err != nil {
		c.Inconclusive("server start: " + err.Error())
		return
	}
	defer rs.Srv.Close()
	addr := strings.TrimPrefix(rs.Endpoint, "opc.tcp://")
	sk, ck := keys.Get("b", 2048), keys.Get("a", 2048)
	L := time.Duration(cs.LifetimeMS) * time.Millisecond
	ch, tok, err := refpeer.OpenSecureSession(addr, rs.Endpoint, p, cs.Mode, ck.Key, ck.Cert, sk.Cert, refpeer.ClientOpts{Lifetime: cs.LifetimeMS})
	if err != nil {
		c.Inconclusive("session: " + classOf(err.Error()))
		return
	}
	defer ch.Close()
	old := ch.Tokens[0]
	node := rs.Vars[0]
	cur := func() int64 {
		if dv := node.Value(); dv != nil && dv.Value != nil {
			v, _ := dv.Value.Value().(int64)
			return v
		}
		return -1
	}
	write := func(t *refpeer.Token, val int64, reqID uint32) {
		req := &ua.WriteRequest{NodesToWrite: []*ua.WriteValue{{NodeID: node.ID(), AttributeID: ua.AttributeIDValue, Value: &ua.DataValue{EncodingMask: 1, Value: ua.MustVariant(val)}}}}
		req.SetHeader(&ua.RequestHeader{AuthenticationToken: tok, Timestamp: time.Now(), RequestHandle: reqID, TimeoutHint: 10000, AdditionalHeader: ua.NewExtensionObject(nil)})
		body, _ := refpeer.EncodeBody(req)
		raw, err := ch.SealChunk(t, "MSG", 'F', ch.TakeSeq(), reqID, body)
		if err == nil {
			ch.WriteRaw(raw)
		}
		ch.Await(reqID, 700*time.Millisecond)
	}
	// one renewal after half of the lifetime; the new token lives long, so the channel stays up on it while the first
	// token, which is the one the server has to remember for a while, runs out
	time.Sleep(time.Until(old.IssuedAt.Add(L / 2)))
	ch.Conn.SetReadDeadline(time.Now().Add(5 * time.Second))
	if _, err := ch.Open(true, 60000); err != nil {
		c.Inconclusive("renewal: " + classOf(err.Error()))
		return
	}
	base := cs.Index * 1000
	if cs.OldLast {
		// the last chunk the server sees before the expiry is one under the old token (still valid then)
		write(nil, base+3, 7003)
		if cur() != base+3 {
			c.Inconclusive("control write under the new token had no effect")
			return
		}
		write(old, base+1, 7001)
		if cur() == base+1 {
			c.Class("server:previous-token-accepted-while-valid", 1)
		}
	} else {
		write(old, base+1, 7001) // still inside its lifetime: not asserted here (C16 does), recorded
		if cur() == base+1 {
			c.Class("server:previous-token-accepted-while-valid", 1)
		}
		write(nil, base+3, 7003)
		if cur() != base+3 {
			c.Inconclusive("control write under the new token had no effect")
			return
		}
	}
	time.Sleep(time.Until(old.IssuedAt.Add(L + L/4 + time.Duration(cs.MarginMS)*time.Millisecond)))
	write(old, base+2, 7002)
	c.Eval(1)
	if cur() == base+2 {
		cs.Detail = fmt.Sprintf("a Write sealed with the keys of the first token (lifetime %v, replaced, sent %v after its issue = 1.25 x lifetime + %d ms) was executed", L, time.Since(old.IssuedAt).Round(time.Millisecond), cs.MarginMS)
		c.Violation("c17:server-accepted-chunk-under-expired-token", cs.Detail, cs)
		return
	}
	c.Class("server:expired-token-chunk-not-executed", 1)
}

func c17Run(c *fw.Ctx) error {
	n := int64(c.Pick(8, 200))
	for i := int64(0); i < n; i++ {
		if int(i%int64(c.NBatch)) != c.Batch || i < c.Resume {
			continue
		}
		cs := c17Case{Index: i, Side: []string{"client", "server"}[i%2], Mode: 2 + int(i/2)%2, LifetimeMS: []uint32{1000, 2000}[int(i/4)%2], MarginMS: []int{500, 2000}[int(i/8)%2], OldLast: (int(i/2)+int(i/4))%2 == 1}
		c.Journal(i, cs)
		if cs.Side == "client" {
			c17Client(c, cs)
		} else {
			c17Server(c, cs)
		}
		c.Nontrivial(fmt.Sprintf("%s/%d/%d/%d/%v/%d", cs.Side, cs.Mode, cs.LifetimeMS, cs.MarginMS, cs.OldLast, i))
		c.Class("receiver:"+cs.Side, 1)
		c.Sample(cs)
		c.Done(i)
	}
	return nil
}

func init() {
	fw.Register("C17", fw.Spec{
		Plan: func(tier string) fw.Plan {
			p := fw.Plan{Batches: 8, TimeoutS: 600, MinNontrivial: 6, Level: "exploration",
				Rule:        "histories with renewals on Basic256Sha256 Sign / SignAndEncrypt channels, lifetimes 1 s and 2 s: (client) the scripted server keeps the keys of the first token and, 1.25 x lifetime + {0.5, 2} s after it issued that token (the client has renewed meanwhile), answers a pending Read with a chunk sealed with them, fresh sequence number, right request id, marked value; oracle: the call does not return the marked value; (server) the independent client renews, keeps renewing, and 1.25 x lifetime + margin after the first token was issued sends a Write sealed with its keys; oracle: the node value (in-process) does not change; a control read/write under the current token precedes every injection; in half of the histories the last chunk the receiver gets before the expiry is one under the old token while it is still valid; distinct = injections",
				Assumptions: []string{"the harness can only be late, which makes the token more expired; expiry is counted from the issue time stamped by the independent peer"}}
			if tier == "thorough" {
				p.Batches, p.TimeoutS, p.MinNontrivial = 16, 3000, 150
			}
			return p
		},
		Run: c17Run,
		Replay: func(c *fw.Ctx, raw json.RawMessage) error {
			var cs c17Case
			if err := json.Unmarshal(raw, &cs); err != nil {
				return err
			}
			cs.Detail = ""
			if cs.Side == "client" {
				c17Client(c, cs)
			} else {
				c17Server(c, cs)
			}
			return nil
		},
	})
}
