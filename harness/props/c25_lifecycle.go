package props

import (
	"context"
	"encoding/json"
	"fmt"
	"math/rand"
	"os"
	"runtime"
	"strings"
	"sync"
	"time"

	"github.com/gopcua/opcua"
	"github.com/gopcua/opcua/ua"

	"verifharness/fw"
	"verifharness/netfault"
	"verifharness/sut"
)

// C25: connection state follows the documented lifecycle under faults. The real client talks to the real server
// (child process, so that this process holds client goroutines only) through a fault-injecting TCP proxy.

type c25Case struct {
	Index   int64    `json:"index"`
	Seed    int64    `json:"seed"`
	Auto    bool     `json:"auto_reconnect"`
	Faults  []string `json:"faults"`
	CloseAt string   `json:"close_at"` // steady | during-outage | right-after-fault | forced-during-dial
	States  []string `json:"reported_states,omitempty"`
	Detail  string   `json:"detail,omitempty"`
}

var c25Allowed = map[string]bool{
	"Closed>Connecting": true, "Connecting>Connected": true, "Connecting>Closed": true, "Connecting>Connecting": true,
	"Connected>Disconnected": true, "Connected>Closed": true, "Disconnected>Reconnecting": true, "Disconnected>Closed": true,
	"Reconnecting>Reconnecting": true, "Reconnecting>Connected": true, "Reconnecting>Closed": true, "Closed>Closed": true,
	"Connected>Connected": true, "Disconnected>Disconnected": true,
}

// clientGoroutines returns the goroutines of this process that execute gopcua code.
func clientGoroutines() (int, string) {
	buf := make([]byte, 8<<20)
	d := repoGoroutinesPlain(string(buf[:runtime.Stack(buf, true)]), 1<<20)
	n := 0
	for _, g := range strings.Split(d, "\n\n") {
		if strings.Contains(g, "goroutine ") {
			n++
		}
	}
	return n, d
}

func c25One(c *fw.Ctx, cs c25Case) {
	r := rand.New(rand.NewSource(cs.Seed))
	var child *sut.Child
	startSrv := func() (string, error) {
		ch, ep, _, err := startServerChild(srvCfg{Vars: 1})
		if err != nil {
			return "", err
		}
		child = ch
		return strings.TrimPrefix(strings.Replace(ep, "localhost", "127.0.0.1", 1), "opc.tcp://"), nil
	}
	addr, err := startSrv()
	if err != nil {
		c.Inconclusive("server start: " + classOf(err.Error()))
		return
	}
	defer func() {
		if child != nil {
			child.Kill()
		}
	}()
	px, err := netfault.New(addr)
	if err != nil {
		c.Inconclusive("proxy: " + err.Error())
		return
	}
	defer px.Close()
	base, _ := clientGoroutines()
	var mu sync.Mutex
	var states []string
	closedReturned := false
	var afterClose []string
	bg := context.Background()
	var cl *opcua.Client
	newClient := func() error {
		mu.Lock()
		states, afterClose, closedReturned = nil, nil, false
		mu.Unlock()
		var err error
		cl, err = opcua.NewClient(px.Endpoint(), opcua.SecurityMode(ua.MessageSecurityModeNone), opcua.AutoReconnect(cs.Auto), opcua.ReconnectInterval(20*time.Millisecond), opcua.RequestTimeout(800*time.Millisecond), opcua.DialTimeout(800*time.Millisecond),
			opcua.StateChangedFunc(func(s opcua.ConnState) {
				mu.Lock()
				states = append(states, s.String())
				if closedReturned {
					afterClose = append(afterClose, s.String())
				}
				mu.Unlock()
				if os.Getenv("C25_DEBUG") != "" {
					buf := make([]byte, 1<<16)
					fmt.Fprintf(os.Stderr, "STATE %v at %v\n%s\n", s, time.Now().Format("15:04:05.000"), repoGoroutinesPlain(string(buf[:runtime.Stack(buf, false)]), 3000))
				}
			}))
		return err
	}
	if err := newClient(); err != nil {
		c.Inconclusive("client: " + err.Error())
		return
	}
	read := func() error {
		x, cancel := context.WithTimeout(bg, 1500*time.Millisecond)
		defer cancel()
		resp, err := cl.Read(x, &ua.ReadRequest{NodesToRead: []*ua.ReadValueID{{NodeID: ua.NewNumericNodeID(0, 2258), AttributeID: ua.AttributeIDValue}}})
		if err != nil {
			return err
		}
		if len(resp.Results) != 1 || resp.Results[0].Status != ua.StatusOK {
			return fmt.Errorf("read result %v", resp.Results)
		}
		return nil
	}
	// a fault may already hit the first connect
	connectFaulted := false
	for _, f := range cs.Faults {
		if strings.HasPrefix(f, "connect-cut:") {
			var n int64
			fmt.Sscanf(f, "connect-cut:%d", &n)
			px.CutNextAfter(n, r.Intn(2) == 0)
			connectFaulted = true
		}
	}
	finish := func(when string) bool {
		// Close, then: Closed reported and kept, no further connection attempts, no client goroutines
		x, cancel := context.WithTimeout(bg, 3*time.Second)
		cdone := make(chan struct{})
		go func() { cl.Close(x); close(cdone) }()
		ok := fw.WaitBeats(cdone, 10000)
		cancel()
		if !ok {
			cs.Detail = "Close has not returned after 10000 heartbeats\n" + blockedDumpN(12000)
			c.Violation("c25:close-does-not-return:"+when, cs.Detail, cs)
			return false
		}
		mu.Lock()
		closedReturned = true
		mu.Unlock()
		px.SetOutage(false)
		// quiescence: goroutines gone and attempts stable for 300 heartbeats in a row, within 6000
		quiet := make(chan struct{})
		stop := make(chan struct{})
		var lastDump string
		var lastN int
		go func() {
			stableSince := fw.Heartbeats()
			at := px.NumAttempts()
			for {
				n, d := clientGoroutines()
				a := px.NumAttempts()
				lastN, lastDump = n-base, d
				if n > base || a != at || cl.State() != opcua.Closed || px.Live() > 0 {
					stableSince, at = fw.Heartbeats(), a
				} else if fw.Heartbeats()-stableSince > 300 {
					close(quiet)
					return
				}
				select {
				case <-stop:
					return
				case <-time.After(5 * time.Millisecond):
				}
			}
		}()
		at0 := px.NumAttempts()
		ok = fw.WaitBeats(quiet, 6000)
		close(stop)
		mu.Lock()
		cs.States = append([]string{}, states...)
		late := append([]string{}, afterClose...)
		mu.Unlock()
		c.Class("close:"+when, 1)
		if !ok {
			switch {
			case cl.State() != opcua.Closed:
				cs.Detail = fmt.Sprintf("6000 heartbeats after Close returned State() is %v (reported states %v)", cl.State(), cs.States)
				c.Violation("c25:not-closed-after-close:"+when, cs.Detail, cs)
			case lastN <= 0 && px.Live() > 0:
				cs.Detail = fmt.Sprintf("6000 heartbeats after Close returned %d connection(s) of the client are still open at the proxy", px.Live())
				c.Violation("c25:connections-left-after-close:"+when, cs.Detail, cs)
			case lastN > 0:
				cs.Detail = fmt.Sprintf("6000 heartbeats after Close returned %d client goroutine(s) are still running:\n%s", lastN, tailStr(lastDump, 6000))
				c.Violation("c25:goroutines-left-after-close:"+fw.TopRepoFrame(lastDump), cs.Detail, cs)
			default:
				cs.Detail = fmt.Sprintf("connection attempts keep arriving after Close returned (%d then, %d now)", at0, px.NumAttempts())
				c.Violation("c25:connects-after-close:"+when, cs.Detail, cs)
			}
			return false
		}
		for _, s := range late {
			if s != "Closed" {
				cs.Detail = fmt.Sprintf("after Close had returned the client reported %v (all reported states %v)", late, cs.States)
				c.Violation("c25:state-reported-after-close:"+s, cs.Detail, cs)
				return false
			}
		}
		for i := 1; i < len(cs.States); i++ {
			if t := cs.States[i-1] + ">" + cs.States[i]; !c25Allowed[t] {
				cs.Detail = fmt.Sprintf("transition %s in %v", t, cs.States)
				c.Violation("c25:undocumented-transition:"+t, cs.Detail, cs)
				return false
			}
		}
		if len(cs.States) == 0 || cs.States[len(cs.States)-1] != "Closed" {
			cs.Detail = fmt.Sprintf("last reported state is not Closed: %v", cs.States)
			c.Violation("c25:last-reported-state-not-closed", cs.Detail, cs)
			return false
		}
		c.Eval(int64(len(cs.States)))
		c.Class("lifecycle-ok", 1)
		return true
	}
	connected := false
	for try := 0; try < 4 && !connected; try++ {
		x, cancel := context.WithTimeout(bg, 5*time.Second)
		err = cl.Connect(x)
		cancel()
		if err == nil {
			connected = true
			break
		}
		if !connectFaulted {
			break
		}
		// Connect is meant to be called once per client: the failed client is closed, judged like any other closed
		// client, and the application goes on with a new one
		c.Class("connect-failed-by-fault", 1)
		if !finish("after-failed-connect") {
			return
		}
		if err := newClient(); err != nil {
			c.Inconclusive("client: " + err.Error())
			return
		}
	}
	if !connected {
		c.Inconclusive("connect: " + classOf(fmt.Sprint(err)))
		return
	}
	if err := read(); err != nil {
		c.Inconclusive("first read: " + classOf(err.Error()))
		return
	}
	inOutage := false
	for fi, f := range cs.Faults {
		switch {
		case strings.HasPrefix(f, "connect-cut:"):
			continue
		case f == "drop-fin":
			px.DropAll(false)
		case f == "drop-rst":
			px.DropAll(true)
		case strings.HasPrefix(f, "outage:"):
			var ms int
			fmt.Sscanf(f, "outage:%d", &ms)
			px.SetOutage(true)
			px.DropAll(true)
			inOutage = true
			if cs.CloseAt == "during-outage" && fi == len(cs.Faults)-1 {
				time.Sleep(time.Duration(r.Intn(ms+1)) * time.Millisecond)
				finish("during-outage")
				return
			}
			time.Sleep(time.Duration(ms) * time.Millisecond)
			px.SetOutage(false)
			inOutage = false
		case f == "restart":
			child.Kill()
			child = nil
			time.Sleep(time.Duration(r.Intn(60)) * time.Millisecond)
			a, err := startSrv()
			if err != nil {
				c.Inconclusive("server restart: " + classOf(err.Error()))
				return
			}
			px.SetUpstream(a)
			px.DropAll(false)
		case strings.HasPrefix(f, "hole-reconnect:"):
			// the next connection forwards n bytes and then goes silent without being closed (a hung peer): the
			// attempt times out, a later one succeeds
			var n int64
			fmt.Sscanf(f, "hole-reconnect:%d", &n)
			px.HoleNextAfter(n)
			px.DropAll(false)
			time.Sleep(time.Duration(900+r.Intn(600)) * time.Millisecond)
		case strings.HasPrefix(f, "cut-reconnect:"):
			var n int64
			fmt.Sscanf(f, "cut-reconnect:%d", &n)
			px.CutNextAfter(n, r.Intn(2) == 0)
			px.DropAll(false)
		}
		_ = inOutage
		if cs.CloseAt == "right-after-fault" && fi == len(cs.Faults)-1 {
			time.Sleep(time.Duration(r.Intn(30000)) * time.Microsecond)
			finish("right-after-fault")
			return
		}
		if cs.CloseAt == "forced-during-dial" && fi == len(cs.Faults)-1 && cs.Auto {
			// forced race: the reconnect attempt has opened its secure channel but not stored it yet when Close runs
			parked, release := make(chan struct{}), make(chan struct{})
			var once sync.Once
			opcua.VerifSetHook(func(point string) {
				if point == "cl.dial.opened" {
					once.Do(func() {
						close(parked)
						<-release
					})
				}
			})
			px.SetOutage(false)
			px.DropAll(false) // one more drop in case the previous fault has been repaired already
			if !fw.WaitBeats(parked, 10000) {
				opcua.VerifSetHook(nil)
				close(release)
				c.Class("forced-race-not-reached", 1)
				finish("right-after-fault")
				return
			}
			go func() {
				// Close runs to its end while the attempt is held, then the attempt goes on
				for i := 0; i < 2000 && cl.State() != opcua.Closed; i++ {
					time.Sleep(time.Millisecond)
				}
				time.Sleep(3 * time.Millisecond)
				close(release)
			}()
			c.Class("forced-race:close-while-reconnect-attempt-holds-an-open-channel", 1)
			finish("forced-during-dial")
			opcua.VerifSetHook(nil)
			return
		}
		time.Sleep(time.Duration(r.Intn(150)) * time.Millisecond)
	}
	// the faults have stopped and the server is reachable
	if cs.Auto {
		back := make(chan struct{})
		stop := make(chan struct{})
		var lastErr error
		go func() {
			for {
				if cl.State() == opcua.Connected {
					if lastErr = read(); lastErr == nil {
						close(back)
						return
					}
				}
				select {
				case <-stop:
					return
				case <-time.After(10 * time.Millisecond):
				}
			}
		}()
		ok := fw.WaitBeats(back, 20000)
		close(stop)
		if !ok {
			mu.Lock()
			cs.States = append([]string{}, states...)
			mu.Unlock()
			cs.Detail = fmt.Sprintf("20000 heartbeats after the last fault, the server reachable: State() %v, last read error %v, reported states %v\n%s", cl.State(), lastErr, cs.States, blockedDumpN(8000))
			c.Violation("c25:no-working-connection-after-faults:"+cl.State().String(), cs.Detail, cs)
			x, cancel := context.WithTimeout(bg, 2*time.Second)
			cl.Close(x)
			cancel()
			return
		}
		c.Class("back-to-connected-with-working-requests", 1)
	}
	finish("steady")
}

func c25Run(c *fw.Ctx) error {
	n := int64(c.Pick(112, 3000))
	kinds := []string{"drop-fin", "drop-rst", "outage:%d", "restart", "cut-reconnect:%d", "connect-cut:%d", "hole-reconnect:%d"}
	// byte positions inside the (re)connect sequence: HEL/ACK, OpenSecureChannel, CreateSession or ActivateSession,
	// the namespace read, later traffic
	windows := [][2]int{{1, 90}, {90, 360}, {360, 660}, {660, 950}, {950, 1500}}
	for i := int64(0); i < n; i++ {
		if int(i%int64(c.NBatch)) != c.Batch || i < c.Resume {
			continue
		}
		r := c.Rng("c25", i)
		k := int(i / int64(c.NBatch))
		cs := c25Case{Index: i, Seed: r.Int63(), Auto: k%4 != 3, CloseAt: []string{"steady", "during-outage", "right-after-fault"}[k%3]}
		if k%8 == 5 {
			cs.Auto, cs.CloseAt = true, "forced-during-dial"
		}
		nf := 1 + r.Intn(3)
		for f := 0; f < nf; f++ {
			kind := kinds[(k+f*5)%len(kinds)]
			switch {
			case strings.HasPrefix(kind, "outage"):
				kind = fmt.Sprintf(kind, 30+r.Intn(400))
			case strings.Contains(kind, "%d"):
				// HEL 60, ACK 28, OPN ~130 each way, CreateSession ~400, ...: cuts inside each step of the connect
				w := windows[r.Intn(len(windows))]
				kind = fmt.Sprintf(kind, w[0]+r.Intn(w[1]-w[0]))
			}
			cs.Faults = append(cs.Faults, kind)
		}
		if cs.CloseAt == "during-outage" {
			cs.Faults = append(cs.Faults, fmt.Sprintf("outage:%d", 50+r.Intn(300)))
		}
		c.Journal(i, cs)
		c25One(c, cs)
		c.Nontrivial(fmt.Sprintf("%d", cs.Seed))
		if i%9 == 0 {
			c.Sample(cs)
		}
		c.Done(i)
	}
	return nil
}

func init() {
	fw.Register("C25", fw.Spec{
		Plan: func(tier string) fw.Plan {
			p := fw.Plan{Batches: 8, TimeoutS: 1500, MinNontrivial: 100, Level: "exploration",
				Rule:        "the real client through a fault proxy to the real server in a child process; 1-4 faults per history: connections closed (FIN) or reset, outages of 30-430 ms during which connects are refused, server restarts on a new process (all sessions lost), the next (re)connection cut after 1-1500 forwarded bytes (inside HEL/ACK, OPN, CreateSession, ActivateSession, namespace read, chosen per window) or going silent at that point without being closed, the same cut on the first connect; 3 of 4 histories with auto-reconnect; Close in steady state, during an outage, 0-30 ms after the last fault, or (forced race, hook cl.dial.opened) while a reconnect attempt has opened its secure channel but not stored it yet; oracle: every reported transition is in the documented set, with auto-reconnect the client is Connected with a working Read within 20000 heartbeats of the last fault, Close returns, afterwards State() and every later report are Closed, the last report is Closed, the proxy sees no further connection attempt, holds no open connection of the client, and no goroutine executing client code is left (300 quiet heartbeats in a row within 6000); distinct = fault histories",
				Assumptions: []string{"documented lifecycle read from connstate.go: Closed -> Connecting -> Connected -> Disconnected -> Reconnecting -> Connected, Closed from anywhere, repeated reports of a state allowed; the state after a failed first Connect is recorded, not judged"}}
			if tier == "thorough" {
				p.Batches, p.TimeoutS, p.MinNontrivial = 16, 3400, 2500
			}
			return p
		},
		Run: c25Run,
		Replay: func(c *fw.Ctx, raw json.RawMessage) error {
			var cs c25Case
			if err := json.Unmarshal(raw, &cs); err != nil {
				return err
			}
			cs.Detail, cs.States = "", nil
			c25One(c, cs)
			return nil
		},
	})
}
