package props

import (
	"context"
	"fmt"
	"time"

	"github.com/gopcua/opcua"
	"github.com/gopcua/opcua/id"
	"github.com/gopcua/opcua/server"
	"github.com/gopcua/opcua/server/attrs"
	"github.com/gopcua/opcua/ua"

	"verifharness/fw"
)

// C31: access levels are enforced for value reads and writes (real server in-process, real client over the wire,
// node values inspected in-process after every write).

type c31Level struct {
	Kind string `json:"kind"` // absent, byte, uint32, string
	Val  uint8  `json:"val"`
}

func (l c31Level) dv() *ua.DataValue {
	switch l.Kind {
	case "byte":
		return server.DataValueFromValue(byte(l.Val))
	case "uint32":
		return server.DataValueFromValue(uint32(l.Val))
	case "int32":
		return server.DataValueFromValue(int32(l.Val))
	case "string":
		return server.DataValueFromValue(fmt.Sprint(l.Val))
	}
	return nil
}

// lacks reports whether the level is present as an integer without the flag (the attribute is a Byte; a level stored
// with another integer type still lacks the flag by value).
func (l c31Level) lacks(flag uint8) bool {
	return (l.Kind == "byte" || l.Kind == "uint32" || l.Kind == "int32") && l.Val&flag == 0
}

type c31Node struct {
	Name string   `json:"name"`
	NC   string   `json:"node_class_attribute"`
	AL   c31Level `json:"access_level"`
	UAL  c31Level `json:"user_access_level"`
	cur  int64
	node *server.Node
}

type c31Op struct {
	Op    string   `json:"op"`
	Node  c31Node  `json:"node"`
	Value int64    `json:"value,omitempty"`
	Step  int      `json:"step"`
	Hist  []string `json:"recent_ops,omitempty"`
}

var c31Levels = []c31Level{{"absent", 0}, {"byte", 0}, {"byte", 1}, {"byte", 2}, {"byte", 3}, {"byte", 0xfc}, {"uint32", 3}, {"string", 3}, {"uint32", 0}, {"uint32", 1}, {"int32", 2}}

// node classes the value-carrying nodes are declared with: the levels apply to every node that has a value
var c31Classes = []string{"variable-uint32", "absent", "variable-int32", "variabletype", "object"}

func c31RunOne(c *fw.Ctx, run int64) {
	r := c.Rng("c31", run)
	rs, err := startRealServer(srvCfg{})
	if err != nil {
		c.Inconclusive("server start: " + err.Error())
		return
	}
	defer rs.Srv.Close()
	var nodes []*c31Node
	for i, al := range c31Levels {
		for j, ual := range c31Levels {
			n := &c31Node{Name: fmt.Sprintf("n%d_%d", i, j), AL: al, UAL: ual, cur: int64(1000*i + j), NC: c31Classes[(i*3+j+int(run))%len(c31Classes)]}
			at := map[ua.AttributeID]*ua.DataValue{
				ua.AttributeIDBrowseName: server.DataValueFromValue(attrs.BrowseName(n.Name)),
			}
			switch n.NC {
			case "variable-uint32":
				at[ua.AttributeIDNodeClass] = server.DataValueFromValue(uint32(ua.NodeClassVariable))
			case "variable-int32":
				at[ua.AttributeIDNodeClass] = server.DataValueFromValue(int32(ua.NodeClassVariable))
			case "variabletype":
				at[ua.AttributeIDNodeClass] = server.DataValueFromValue(uint32(ua.NodeClassVariableType))
			case "object":
				at[ua.AttributeIDNodeClass] = server.DataValueFromValue(uint32(ua.NodeClassObject))
			}
			if d := al.dv(); d != nil {
				at[ua.AttributeIDAccessLevel] = d
			}
			if d := ual.dv(); d != nil {
				at[ua.AttributeIDUserAccessLevel] = d
			}
			init := n.cur
			n.node = server.NewNode(ua.NewStringNodeID(rs.NS.ID(), n.Name), at, nil, func() *ua.DataValue { return server.DataValueFromValue(init) })
			rs.NS.AddNode(n.node)
			rs.NS.Objects().AddRef(n.node, id.HasComponent, true)
			nodes = append(nodes, n)
		}
	}
	ctx, cancel := context.WithTimeout(context.Background(), 120*time.Second)
	defer cancel()
	cl, err := opcua.NewClient(rs.Endpoint, opcua.SecurityMode(ua.MessageSecurityModeNone), opcua.AutoReconnect(false), opcua.RequestTimeout(5*time.Second))
	if err == nil {
		err = cl.Connect(ctx)
	}
	if err != nil {
		c.Inconclusive("connect: " + err.Error())
		return
	}
	defer cl.Close(context.Background())

	inproc := func(n *c31Node) (int64, bool) {
		dv := n.node.Value()
		if dv == nil || dv.Value == nil {
			return 0, false
		}
		v, ok := dv.Value.Value().(int64)
		return v, ok
	}
	var hist []string
	steps := c.Pick(700, 6000)
	next := int64(run*1_000_000 + 1)
	for step := 0; step < steps; step++ {
		n := nodes[r.Intn(len(nodes))]
		op := c31Op{Node: *n, Step: step}
		switch x := r.Intn(10); {
		case x < 4: // read
			op.Op = "read"
			c.Journal(run*100000+int64(step), op)
			res, err := cl.Read(ctx, &ua.ReadRequest{NodesToRead: []*ua.ReadValueID{{NodeID: n.node.ID(), AttributeID: ua.AttributeIDValue}}})
			c.Eval(1)
			if err != nil || len(res.Results) != 1 {
				c.Inconclusive(fmt.Sprintf("read failed: %v", err))
				continue
			}
			dv := res.Results[0]
			hasValue := dv.Has(ua.DataValueValue) && dv.Value != nil && dv.Value.Type() != ua.TypeIDNull
			denied := n.AL.lacks(1) || n.UAL.lacks(1)
			c.Class(fmt.Sprintf("read:must-deny=%v", denied), 1)
			if denied && hasValue {
				op.Hist = hist
				c.Violation("c31:value-read-without-CurrentRead", fmt.Sprintf("read of %s (node class attribute %s, AL=%v UAL=%v) returned value %v", n.Name, n.NC, n.AL, n.UAL, dv.Value.Value()), op)
			}
			if !denied && n.AL.Kind != "uint32" && n.AL.Kind != "string" && n.UAL.Kind != "uint32" && n.UAL.Kind != "string" {
				if !hasValue || dv.Value.Value() != n.cur {
					c.Class("control:permitted-read-wrong", 1)
				} else {
					c.Class("control:permitted-read-ok", 1)
				}
			}
		case x < 9: // write
			op.Op, op.Value = "write", next
			next++
			if r.Intn(5) == 0 {
				// writing the value the node already has is a write like any other
				op.Op, op.Value = "write-of-the-current-value", n.cur
				next--
			}
			c.Journal(run*100000+int64(step), op)
			res, err := cl.Write(ctx, &ua.WriteRequest{NodesToWrite: []*ua.WriteValue{{NodeID: n.node.ID(), AttributeID: ua.AttributeIDValue,
				Value: &ua.DataValue{EncodingMask: ua.DataValueValue, Value: ua.MustVariant(op.Value)}}}})
			c.Eval(1)
			if err != nil || len(res.Results) != 1 {
				c.Inconclusive(fmt.Sprintf("write failed: %v", err))
				continue
			}
			denied := n.AL.lacks(2) || n.UAL.lacks(2)
			c.Class(fmt.Sprintf("write:must-deny=%v", denied), 1)
			now, _ := inproc(n)
			if denied {
				if res.Results[0] == ua.StatusOK {
					op.Hist = hist
					c.Violation("c31:write-accepted-without-CurrentWrite", fmt.Sprintf("write to %s (node class attribute %s, AL=%v UAL=%v) answered Good", n.Name, n.NC, n.AL, n.UAL), op)
				}
				if now != n.cur {
					op.Hist = hist
					c.Violation("c31:value-changed-by-denied-write", fmt.Sprintf("value of %s is %d after a write that must be refused (was %d)", n.Name, now, n.cur), op)
					n.cur = now
				}
			} else if res.Results[0] == ua.StatusOK {
				if now == op.Value {
					c.Class("control:permitted-write-ok", 1)
				}
				n.cur = now
			} else {
				n.cur = now
			}
		default: // rewrite an access level at run time (in-process, no request in flight)
			op.Op = "relevel"
			nl := c31Levels[r.Intn(len(c31Levels))]
			which := ua.AttributeIDAccessLevel
			if r.Intn(2) == 0 {
				which = ua.AttributeIDUserAccessLevel
			}
			if nl.Kind == "absent" {
				continue // attributes cannot be removed through the API
			}
			n.node.SetAttribute(which, nl.dv())
			if which == ua.AttributeIDAccessLevel {
				n.AL = nl
			} else {
				n.UAL = nl
			}
		}
		hist = append(hist, fmt.Sprintf("%s %s %d", op.Op, n.Name, op.Value))
		if len(hist) > 8 {
			hist = hist[1:]
		}
		c.Nontrivial(fmt.Sprintf("%d/%s/%s/%s/%v/%v", run, op.Op, n.Name, n.NC, n.AL, n.UAL))
	}
	c.Done(run)
}

func c31Run(c *fw.Ctx) error {
	runs := int64(c.Pick(4, 48))
	for i := int64(0); i < runs; i++ {
		if int(i%int64(c.NBatch)) != c.Batch || i < c.Resume {
			continue
		}
		c31RunOne(c, i)
	}
	c.Sample(map[string]interface{}{"grid": "8x8 nodes: AccessLevel x UserAccessLevel in {absent, Byte 0,1,2,3,0xfc, UInt32 3, String '3'}", "ops": "random Read / Write(unique Int64) / run-time level rewrite"})
	return nil
}

func init() {
	fw.Register("C31", fw.Spec{
		Plan: func(tier string) fw.Plan {
			p := fw.Plan{Batches: 4, TimeoutS: 600, MinNontrivial: 500, Level: "exploration",
				Rule:        "real server (in the worker process) with an 8x8 grid of variable nodes: AccessLevel x UserAccessLevel in {absent, Byte 0/1/2/3/0xfc, wrong-typed UInt32, wrong-typed String}; a real client issues seed-determined sequences of value Reads and Writes of unique Int64 values, interleaved with run-time rewrites of the level attributes; oracle (model): a read must not return a value if a level is present as Byte without CurrentRead, a write must not answer Good and must leave the value (inspected in-process via Node.Value) unchanged if a level lacks CurrentWrite; permitted operations are controls; distinct = distinct (run, op, node, levels)",
				Assumptions: []string{"only the deny direction is asserted (what the property states); wrong-typed level attributes are recorded but not asserted either way"}}
			if tier == "thorough" {
				p.Batches, p.TimeoutS, p.MinNontrivial = 16, 2400, 50000
			}
			return p
		},
		Run: c31Run,
	})
}
