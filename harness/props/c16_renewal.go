package props

import (
	"context"
	"encoding/json"
	"fmt"
	"math/rand"
	"strings"
	"sync"
	"sync/atomic"
	"time"

	"github.com/gopcua/opcua/ua"
	"github.com/gopcua/opcua/uacp"
	"github.com/gopcua/opcua/uapolicy"
	"github.com/gopcua/opcua/uasc"

	"verifharness/fw"
	"verifharness/keys"
	"verifharness/refpeer"
)

// C16: token renewal keeps the channel usable. (client) a real client-kind channel against the scripted server with
// short revised lifetimes: one renewal per token, not before half of the lifetime, before it expires, and requests
// issued all the time complete. (server) the real server while the independent client renews under concurrent
// reads and publish responses, also with requests that were sent under the old token right behind the renewal.

type c16Case struct {
	Index      int64  `json:"index"`
	Side       string `json:"gopcua_side"`
	Mode       int    `json:"mode"`
	LifetimeMS uint32 `json:"revised_lifetime_ms"`
	Callers    int    `json:"concurrent_callers"`
	Seed       int64  `json:"seed"`
	PrevToken  bool   `json:"requests_under_previous_token_after_renewal,omitempty"`
	Detail     string `json:"detail,omitempty"`
}

type c16Issue struct {
	at    time.Time // stamped before the OPN response is sent: measured gaps are >= true gaps
	renew bool
}

func c16Client(c *fw.Ctx, cs c16Case) {
	r := rand.New(rand.NewSource(cs.Seed))
	sk, ck := keys.Get("b", 2048), keys.Get("a", 2048)
	so := refpeer.ServerOpts{Lifetime: cs.LifetimeMS}
	cfg := &uasc.Config{SecurityPolicyURI: ua.SecurityPolicyURINone, SecurityMode: ua.MessageSecurityModeNone, Lifetime: 3600000, RequestTimeout: 3 * time.Second}
	if cs.Mode != refpeer.ModeNone {
		so.Policy, so.Mode, so.Key, so.Cert = refpeer.PolicyByURI(refpeer.URIBasic256Sha256), cs.Mode, sk.Key, sk.Cert
		cfg.SecurityPolicyURI, cfg.SecurityMode = refpeer.URIBasic256Sha256, ua.MessageSecurityMode(cs.Mode)
		cfg.Certificate, cfg.LocalKey, cfg.RemoteCertificate, cfg.Thumbprint = ck.Cert, ck.Key, sk.Cert, uapolicy.Thumbprint(sk.Cert)
	}
	srv, err := refpeer.NewServer(so)
	if err != nil {
		c.Inconclusive("listen: " + err.Error())
		return
	}
	defer srv.Close()
	var mu sync.Mutex
	var issues []c16Issue
	var heldSlow []func() // answers to the long-outstanding requests ("slow-…"), released by the next renewal
	// like a conforming server the peer gives up a connection on which a sequence number is not the previous one
	// plus one (both callbacks run on the connection's reader goroutine)
	type seqState struct {
		idx  int
		last uint32
		have bool
		dead bool
	}
	seqs := map[*refpeer.SrvConn]*seqState{}
	var seqMu sync.Mutex
	var seqBreak string
	inOrder := func(sc *refpeer.SrvConn) bool {
		seqMu.Lock()
		defer seqMu.Unlock()
		st := seqs[sc]
		if st == nil {
			st = &seqState{}
			seqs[sc] = st
		}
		for ; st.idx < len(sc.Log); st.idx++ {
			o := sc.Log[st.idx]
			if st.have && o.Seq != st.last+1 && !(st.last >= 0xffffffff-1024 && o.Seq < 1024) && !st.dead {
				st.dead = true
				seqBreak = fmt.Sprintf("%s%c chunk of request %d carries sequence number %d after %d", o.MsgType, o.ChunkType, o.ReqID, o.Seq, st.last)
				sc.Conn.Close()
			}
			st.last, st.have = o.Seq, true
		}
		return !st.dead
	}
	srv.OnOpen = func(sc *refpeer.SrvConn, m *refpeer.Msg, renew bool) bool {
		if !inOrder(sc) {
			return false
		}
		mu.Lock()
		issues = append(issues, c16Issue{time.Now(), renew})
		slow := heldSlow
		heldSlow = nil
		mu.Unlock()
		if renew && len(slow) > 0 {
			// requests that have been outstanding since before this renewal are answered right after it
			go func() {
				time.Sleep(5 * time.Millisecond)
				for _, f := range slow {
					f()
				}
			}()
		} else if len(slow) > 0 {
			mu.Lock()
			heldSlow = append(slow, heldSlow...)
			mu.Unlock()
		}
		return true
	}
	srv.Handler = func(sc *refpeer.SrvConn, m *refpeer.Msg) {
		if !inOrder(sc) {
			return
		}
		if req, ok := m.Service.(*ua.ReadRequest); ok {
			reply := func() {
				sc.Reply(m, &ua.ReadResponse{ResponseHeader: refpeer.RespHeader(req, ua.StatusOK), Results: []*ua.DataValue{{EncodingMask: ua.DataValueValue, Value: ua.MustVariant(nonceOf(req))}}})
			}
			if strings.HasPrefix(nonceOf(req), "slow-") {
				mu.Lock()
				heldSlow = append(heldSlow, reply)
				mu.Unlock()
				return
			}
			reply()
		}
	}
	hs := &hookStats{hits: map[string]int64{}}
	hr := rand.New(rand.NewSource(r.Int63()))
	uasc.VerifSetHook(func(point string) {
		hs.mu.Lock()
		hs.hits[point]++
		var d time.Duration
		if (point == "sc.send.afterInstance" || point == "sc.renew.afterWait" || point == "sc.send.beforeAdd") && hr.Intn(6) == 0 {
			d = time.Duration(hr.Intn(3000)) * time.Microsecond
		}
		hs.mu.Unlock()
		if d > 0 {
			time.Sleep(d)
		}
	})
	defer func() { uasc.VerifSetHook(nil); hs.flush(c) }()
	ctx, cancel := context.WithTimeout(context.Background(), 60*time.Second)
	defer cancel()
	conn, err := uacp.Dial(ctx, srv.Endpoint())
	if err != nil {
		c.Inconclusive("dial: " + err.Error())
		return
	}
	defer conn.Close()
	errch := make(chan error, 256)
	sc, err := uasc.NewSecureChannel(srv.Endpoint(), conn, cfg, errch)
	if err == nil {
		err = sc.Open(ctx)
	}
	if err != nil {
		c.Inconclusive("open: " + classOf(err.Error()))
		return
	}
	defer sc.Close()
	L := time.Duration(cs.LifetimeMS) * time.Millisecond
	// run for about three lifetimes with callers issuing requests all the time
	runFor := 3*L + 400*time.Millisecond
	if runFor > 9*time.Second {
		runFor = 9 * time.Second
	}
	stop := time.Now().Add(runFor)
	var wg sync.WaitGroup
	var okN, failN, slowN, cancelledN int64
	var firstErr atomic.Value
	for g := 0; g < cs.Callers; g++ {
		g := g
		wg.Add(1)
		go func() {
			defer wg.Done()
			for k := 0; time.Now().Before(stop); k++ {
				nonce := fmt.Sprintf("r-%d-%d", g, k)
				var got string
				err := sc.SendRequest(ctx, &ua.ReadRequest{NodesToRead: []*ua.ReadValueID{{NodeID: ua.NewStringNodeID(1, nonce), AttributeID: ua.AttributeIDValue, DataEncoding: &ua.QualifiedName{}}}}, nil, func(v ua.Response) error {
					if rr, ok := v.(*ua.ReadResponse); ok && len(rr.Results) == 1 && rr.Results[0].Value != nil {
						got, _ = rr.Results[0].Value.Value().(string)
					}
					return nil
				})
				if err != nil || got != nonce {
					atomic.AddInt64(&failN, 1)
					firstErr.CompareAndSwap(nil, fmt.Sprintf("request %s: %v (got %q)", nonce, err, got))
				} else {
					atomic.AddInt64(&okN, 1)
				}
				time.Sleep(time.Duration(200+g*37) * time.Microsecond)
			}
		}()
	}
	// one caller whose requests never get as far as the wire: its contexts have ended before it calls
	wg.Add(1)
	go func() {
		defer wg.Done()
		for k := 0; time.Now().Before(stop); k++ {
			x, xc := context.WithCancel(ctx)
			xc()
			sc.SendRequest(x, &ua.ReadRequest{NodesToRead: []*ua.ReadValueID{{NodeID: ua.NewStringNodeID(1, "cancelled"), AttributeID: ua.AttributeIDValue, DataEncoding: &ua.QualifiedName{}}}}, nil, func(ua.Response) error { return nil })
			atomic.AddInt64(&cancelledN, 1)
			time.Sleep(time.Duration(5+k%7) * time.Millisecond)
		}
	}()
	// one caller whose request stays outstanding across a renewal, like the Publish request of an idle subscription
	wg.Add(1)
	go func() {
		defer wg.Done()
		for k := 0; time.Now().Before(stop.Add(-L)); k++ {
			nonce := fmt.Sprintf("slow-%d", k)
			var got string
			err := sc.SendRequestWithTimeout(ctx, &ua.ReadRequest{NodesToRead: []*ua.ReadValueID{{NodeID: ua.NewStringNodeID(1, nonce), AttributeID: ua.AttributeIDValue, DataEncoding: &ua.QualifiedName{}}}}, nil, 8*time.Second, func(v ua.Response) error {
				if rr, ok := v.(*ua.ReadResponse); ok && len(rr.Results) == 1 && rr.Results[0].Value != nil {
					got, _ = rr.Results[0].Value.Value().(string)
				}
				return nil
			})
			if err != nil || got != nonce {
				atomic.AddInt64(&failN, 1)
				firstErr.CompareAndSwap(nil, fmt.Sprintf("request %s, outstanding across a renewal (timeout 8 s): %v (got %q)", nonce, err, got))
				return
			}
			atomic.AddInt64(&okN, 1)
			atomic.AddInt64(&slowN, 1)
		}
	}()
	// every caller comes back: requests have timeouts of 3 s (8 s for the long one), nothing may wait for good
	allDone := make(chan struct{})
	go func() { wg.Wait(); close(allDone) }()
	if !fw.WaitBeats(allDone, int64(runFor/time.Millisecond)+30000) {
		cs.Detail = fmt.Sprintf("callers are still inside SendRequest %d heartbeats after the workload ended (tokens of %d ms, %d renewals seen by the peer)\n%s", int64(runFor/time.Millisecond)+30000, cs.LifetimeMS, func() int { mu.Lock(); defer mu.Unlock(); return len(issues) - 1 }(), blockedDumpN(8000))
		c.Violation("c16:requests-blocked-for-good", cs.Detail, cs)
		return
	}
	c.Class("client:requests-outstanding-across-a-renewal", atomic.LoadInt64(&slowN))
	c.Class("client:requests-cancelled-before-sending", atomic.LoadInt64(&cancelledN))
	mu.Lock()
	iss := append([]c16Issue{}, issues...)
	mu.Unlock()
	c.Eval(okN + failN)
	c.AddExtra("sum_requests_around_renewals", okN+failN)
	c.Class("client:renewals-observed", int64(len(iss)-1))
	c.Class(fmt.Sprintf("client:lifetime-%dms", cs.LifetimeMS), 1)
	if failN > 0 {
		cs.Detail = fmt.Sprintf("%d of %d requests issued while tokens of %d ms were renewed failed, first: %v", failN, okN+failN, cs.LifetimeMS, firstErr.Load())
		seqMu.Lock()
		if seqBreak != "" {
			cs.Detail += "; the peer had given up the connection: " + seqBreak
		}
		seqMu.Unlock()
		c.Violation("c16:client-request-failed-around-renewal", cs.Detail, cs)
		return
	}
	// per token: gap between its issue and the next renewal request
	for i := 1; i < len(iss); i++ {
		gap := iss[i].at.Sub(iss[i-1].at)
		c.Max("min_renewal_gap_as_percent_of_lifetime(100-x)", 100-100*float64(gap)/float64(L), nil)
		if !iss[i].renew {
			cs.Detail = fmt.Sprintf("OpenSecureChannel request %d is not a renewal: the channel was torn down and opened again", i)
			c.Violation("c16:client-channel-reopened", cs.Detail, cs)
			return
		}
		// the issue stamp is taken before the response leaves, the renew stamp on receipt: measured gap >= true gap,
		// so "too early" cannot be caused by load
		if gap < L/2 {
			cs.Detail = fmt.Sprintf("token %d (lifetime %v) was renewed %v after it was issued, that is after %.0f%% of its lifetime", i, L, gap.Round(time.Millisecond), 100*float64(gap)/float64(L))
			c.Violation("c16:client-renews-before-half-of-the-lifetime", cs.Detail, cs)
			return
		}
		if gap > L {
			// late could be load: not asserted on one observation
			c.Class("client:renewal-after-expiry-observed", 1)
		}
	}
	if len(iss) < 2 && runFor > L+L/2 {
		cs.Detail = fmt.Sprintf("no renewal was requested within %v although the token lives %v", runFor, L)
		c.Class("client:no-renewal-observed", 1)
		c.Inconclusive("no renewal observed within 1.5 lifetimes (late renewals are not asserted on a single run)")
	}
}

func c16Server(c *fw.Ctx, cs c16Case) {
	r := rand.New(rand.NewSource(cs.Seed))
	pol := "None"
	var p *refpeer.Policy
	if cs.Mode != refpeer.ModeNone {
		pol = "Basic256Sha256"
		p = refpeer.PolicyByURI(refpeer.URIBasic256Sha256)
	}
	rs, err := startRealServer(srvCfg{Sec: []secPair{{pol, cs.Mode}}, KeyBits: 2048, Vars: 2})
	if err != nil {
		c.Inconclusive("server start: " + err.Error())
		return
	}
	defer rs.Srv.Close()
	addr := strings.TrimPrefix(rs.Endpoint, "opc.tcp://")
	sk, ck := keys.Get("b", 2048), keys.Get("a", 2048)
	hs := &hookStats{hits: map[string]int64{}}
	hr := rand.New(rand.NewSource(r.Int63()))
	uasc.VerifSetHook(func(point string) {
		hs.mu.Lock()
		hs.hits[point]++
		var d time.Duration
		if point == "sc.srvopn.algoSwapped" {
			d = time.Duration(hr.Intn(5000)) * time.Microsecond
		}
		hs.mu.Unlock()
		if d > 0 {
			time.Sleep(d)
		}
	})
	defer func() { uasc.VerifSetHook(nil); hs.flush(c) }()
	ch, tok, err := refpeer.OpenSecureSession(addr, rs.Endpoint, p, cs.Mode, ck.Key, ck.Cert, sk.Cert, refpeer.ClientOpts{})
	if err != nil {
		c.Inconclusive("session: " + classOf(err.Error()))
		return
	}
	defer ch.Close()
	// a subscription publishing every few milliseconds, fed by an in-process writer
	if v, _ := ch.Request(&ua.CreateSubscriptionRequest{RequestedPublishingInterval: 3, RequestedLifetimeCount: 10000, RequestedMaxKeepAliveCount: 1, PublishingEnabled: true}, tok, 5*time.Second); v != nil {
		if cr, ok := v.(*ua.CreateSubscriptionResponse); ok {
			ch.Request(&ua.CreateMonitoredItemsRequest{SubscriptionID: cr.SubscriptionID, ItemsToCreate: []*ua.MonitoredItemCreateRequest{{ItemToMonitor: &ua.ReadValueID{NodeID: rs.Vars[0].ID(), AttributeID: ua.AttributeIDValue, DataEncoding: &ua.QualifiedName{}},
				MonitoringMode: ua.MonitoringModeReporting, RequestedParameters: &ua.MonitoringParameters{ClientHandle: 1, SamplingInterval: 1, QueueSize: 1, Filter: ua.NewExtensionObject(nil)}}}}, tok, 5*time.Second)
		}
	}
	stop := make(chan struct{})
	var wwg sync.WaitGroup
	wwg.Add(1)
	go func() {
		defer wwg.Done()
		for n := int64(1); ; n++ {
			select {
			case <-stop:
				return
			case <-time.After(time.Millisecond):
			}
			rs.Vars[0].SetAttribute(ua.AttributeIDValue, &ua.DataValue{EncodingMask: ua.DataValueValue, Value: ua.MustVariant(n)})
			rs.Srv.ChangeNotification(rs.Vars[0].ID())
		}
	}()
	defer func() { close(stop); wwg.Wait() }()
	sent := map[uint32]string{}
	answered := map[uint32]bool{}
	pipelinedOld := 0
	read := func(o refpeer.SendOpts, what string) {
		id, err := ch.SendRequest(&ua.ReadRequest{NodesToRead: []*ua.ReadValueID{{NodeID: rs.Vars[1].ID(), AttributeID: ua.AttributeIDValue, DataEncoding: &ua.QualifiedName{}}}}, tok, o)
		if err == nil {
			sent[id] = what
		}
	}
	drain := func(d time.Duration) error {
		ch.Conn.SetReadDeadline(time.Now().Add(d))
		for {
			m, err := ch.ReadMsg()
			if err != nil {
				if ne, ok := err.(interface{ Timeout() bool }); ok && ne.Timeout() {
					return nil
				}
				return err
			}
			if _, ok := m.Service.(*ua.ReadResponse); ok {
				answered[m.ReqID] = true
			}
			if f, ok := m.Service.(*ua.ServiceFault); ok && sent[m.ReqID] != "" {
				return fmt.Errorf("request %d (%s) answered with a fault: %v", m.ReqID, sent[m.ReqID], f.ResponseHeader.ServiceResult)
			}
		}
	}
	renewals := 0
	variant := ""
	if cs.PrevToken {
		variant = ":with-requests-under-the-previous-token"
	}
	for round := 0; round < 5; round++ {
		for k := 0; k < 3; k++ {
			ch.SendRequest(&ua.PublishRequest{SubscriptionAcknowledgements: []*ua.SubscriptionAcknowledgement{}}, tok, refpeer.SendOpts{})
		}
		for k := 0; k < cs.Callers; k++ {
			read(refpeer.SendOpts{}, "before the renewal")
		}
		old := ch.Tokens[len(ch.Tokens)-1]
		// the renewal; requests sent right behind it still carry the old token, which stays valid until it expires
		ch.Conn.SetReadDeadline(time.Now().Add(40 * time.Second)) // a watchdog, not a verdict on speed
		if _, err := ch.Open(true, uint32(cs.LifetimeMS)); err != nil {
			cs.Detail = fmt.Sprintf("renewal %d failed: %v", round, err)
			c.Violation("c16:server-renewal-failed"+variant, cs.Detail, cs)
			return
		}
		renewals++
		if cs.PrevToken && round%2 == 1 {
			for k := 0; k < 2; k++ {
				read(refpeer.SendOpts{Token: old}, "sent under the previous token right after the renewal")
				pipelinedOld++
			}
		}
		for k := 0; k < cs.Callers; k++ {
			read(refpeer.SendOpts{}, "after the renewal")
		}
		if err := drain(150 * time.Millisecond); err != nil {
			cs.Detail = fmt.Sprintf("after renewal %d the connection failed: %v", round, err)
			c.Violation("c16:server-channel-torn-down-around-renewal"+variant, cs.Detail, cs)
			return
		}
	}
	// everything sent gets its answer: wait in heartbeats, not in wall-clock time (a loaded machine is slow, not wrong)
	for b0 := fw.Heartbeats(); fw.Heartbeats()-b0 < 15000; {
		if err := drain(300 * time.Millisecond); err != nil {
			break
		}
		missing := false
		for id := range sent {
			if !answered[id] {
				missing = true
				break
			}
		}
		if !missing {
			break
		}
		for _, o := range ch.Log {
			if o.MsgType == "MSG" && o.ChunkType == 'F' {
				answered[o.ReqID] = true
			}
		}
	}
	c.Eval(int64(len(sent)))
	c.AddExtra("sum_requests_around_renewals", int64(len(sent)))
	c.Class("server:renewals", int64(renewals))
	c.Class("server:requests-under-previous-token", int64(pipelinedOld))
	for _, o := range ch.Log { // responses that arrived while the renewal was waiting for its own answer count as well
		if o.MsgType == "MSG" && o.ChunkType == 'F' {
			answered[o.ReqID] = true
		}
	}
	for id, what := range sent {
		if !answered[id] {
			cs.Detail = fmt.Sprintf("request %d (%s) was never answered; %d of %d requests answered", id, what, len(answered), len(sent))
			key := "c16:server-request-lost-around-renewal" + variant
			if strings.Contains(what, "previous token") {
				key = "c16:server-rejects-previous-token-after-renewal"
			}
			c.Violation(key, cs.Detail, cs)
			return
		}
	}
}

func c16Run(c *fw.Ctx) error {
	n := int64(c.Pick(24, 800))
	lifetimes := []uint32{500, 1000, 1200, 1400, 2000, 3000, 5000}
	for i := int64(0); i < n; i++ {
		if int(i%int64(c.NBatch)) != c.Batch || i < c.Resume {
			continue
		}
		r := c.Rng("c16", i)
		cs := c16Case{Index: i, Side: []string{"client", "client", "server"}[(i/int64(c.NBatch))%3], Mode: 1 + r.Intn(3), LifetimeMS: lifetimes[int(i)%len(lifetimes)], Callers: []int{1, 2, 4, 8, 16}[r.Intn(5)], Seed: r.Int63(), PrevToken: r.Intn(2) == 0}
		if c.Quick() && cs.LifetimeMS > 3000 {
			cs.LifetimeMS = 1400
		}
		c.Journal(i, cs)
		if cs.Side == "client" {
			c16Client(c, cs)
		} else {
			c16Server(c, cs)
		}
		c.Nontrivial(fmt.Sprintf("%s/%d/%d/%d", cs.Side, cs.Mode, cs.LifetimeMS, cs.Seed))
		c.Class("side:"+cs.Side, 1)
		if i%7 == 0 {
			c.Sample(cs)
		}
		c.Done(i)
	}
	return nil
}

func init() {
	fw.Register("C16", fw.Spec{
		Plan: func(tier string) fw.Plan {
			p := fw.Plan{Batches: 8, TimeoutS: 900, MinNontrivial: 20, Level: "exploration",
				Rule:        "(client) a real client-kind channel against the scripted server that revises the lifetime to 0.5 / 1 / 1.2 / 1.4 / 2 / 3 / 5 s (None, Sign, SignAndEncrypt), 1-16 callers issuing requests for three lifetimes, hook delays at sc.send.beforeAdd / afterInstance / sc.renew.afterWait; the server stamps the issue of a token before its response leaves and the renewal request on receipt, so the measured gap is never smaller than the true one; oracle: every request succeeds with its own answer, every further OpenSecureChannel is a renewal, none arrives before half of the lifetime (late renewals are counted, not asserted); (server) the real server with a 3 ms subscription while the independent client renews 5 times under concurrent reads, half of the renewals followed by reads sealed with the previous token; the server's reader is delayed at sc.srvopn.algoSwapped; oracle: every renewal and every request is answered, nothing faults, the connection survives; distinct = (side, mode, lifetime, seed)",
				Assumptions: []string{"'before it expires' is only counted (a late renewal on a loaded machine is not a verdict)"}}
			if tier == "thorough" {
				p.Batches, p.TimeoutS, p.MinNontrivial = 16, 3400, 600
			}
			return p
		},
		Run: c16Run,
		Replay: func(c *fw.Ctx, raw json.RawMessage) error {
			var cs c16Case
			if err := json.Unmarshal(raw, &cs); err != nil {
				return err
			}
			cs.Detail = ""
			if cs.Side == "client" {
				c16Client(c, cs)
			} else {
				c16Server(c, cs)
			}
			return nil
		},
	})
}
