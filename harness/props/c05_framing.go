package props

import (
	"bytes"
	"context"
	"encoding/binary"
	"encoding/hex"
	"encoding/json"
	"errors"
	"fmt"
	"math/rand"
	"net"
	"runtime"
	"time"

	"github.com/gopcua/opcua/uacp"

	"verifharness/fw"
	"verifharness/refpeer"
)

// C05: UACP framing delivers exactly the frames sent under any segmentation. The receiver is a real uacp.Conn
// (obtained by Dial+Handshake against a raw listener, or by Listen/Accept with a raw dialler) on loopback TCP;
// the sender is a raw socket that writes a generated frame list cut into segments.

type c05Case struct {
	Index   int64  `json:"index"`
	Role    string `json:"receiver_role"` // "dialled" or "accepted"
	Buf     uint32 `json:"receive_buffer"`
	SendBuf uint32 `json:"send_buffer_of_the_receiver,omitempty"` // 0 = same as the receive buffer
	Seg     string `json:"segmentation"`
	Frames  int    `json:"frames"`
	Bad     string `json:"malformed_tail,omitempty"`
	Seed    int64  `json:"seed"`
	Detail  string `json:"detail,omitempty"`
	FrameNo int    `json:"frame_no,omitempty"`
}

type c05Frame struct {
	raw     []byte
	errCode uint32 // for ERR frames
	reason  string
	isErr   bool
}

func c05MakeFrame(r *rand.Rand, buf uint32, small bool) c05Frame {
	types := []string{"MSGF", "MSGC", "MSGA", "OPNF", "CLOF", "HELF", "ACKF", "RHEF", "XYZQ", "MSG\x00", "\x00\x00\x00\x00", "msgf"}
	var size uint32
	switch k := r.Intn(10); {
	case k == 0:
		size = 8
	case k == 1:
		size = 9
	case k == 2 && !small:
		size = buf
	case k == 3 && !small:
		size = buf - 1
	case k < 7 || small:
		size = 8 + uint32(r.Intn(200))
	default:
		size = 8 + uint32(r.Intn(int(buf)-8))
	}
	b := make([]byte, size)
	r.Read(b[8:])
	copy(b, types[r.Intn(len(types))])
	binary.LittleEndian.PutUint32(b[4:], size)
	return c05Frame{raw: b}
}

func c05ErrFrame(r *rand.Rand) c05Frame {
	code := []uint32{0x80010000, 0x807d0000, 0, 0xffffffff, r.Uint32()}[r.Intn(5)]
	reason := []string{"", "x", "Bad_TcpMessageTooLarge", "nöt äscii", string(make([]byte, 100))}[r.Intn(5)]
	return c05Frame{raw: refpeer.MakeFrame("ERRF", refpeer.ErrBody(code, reason)), isErr: true, errCode: code, reason: reason}
}

// segments cuts the stream according to the pattern.
func c05Segments(r *rand.Rand, pattern string, stream []byte, frames []c05Frame) [][]byte {
	var cuts []int
	switch pattern {
	case "coalesced":
	case "byte-at-a-time":
		for i := 1; i < len(stream); i++ {
			cuts = append(cuts, i)
		}
	case "per-frame":
		off := 0
		for _, f := range frames {
			off += len(f.raw)
			cuts = append(cuts, off)
		}
	case "header-splits": // every frame's header is cut at a position 1..7, and the body somewhere
		off := 0
		for _, f := range frames {
			cuts = append(cuts, off+1+r.Intn(7))
			if len(f.raw) > 9 {
				cuts = append(cuts, off+8+1+r.Intn(len(f.raw)-9))
			}
			off += len(f.raw)
		}
	case "header-plus-next": // a segment ends exactly after a header, or carries the tail of one frame and the head of the next
		off := 0
		for _, f := range frames {
			cuts = append(cuts, off+8)
			if len(f.raw) > 12 {
				cuts = append(cuts, off+len(f.raw)-3)
			}
			off += len(f.raw)
		}
	default: // random
		n := 1 + r.Intn(40)
		for i := 0; i < n && len(stream) > 1; i++ {
			cuts = append(cuts, 1+r.Intn(len(stream)-1))
		}
	}
	seen := map[int]bool{}
	var sorted []int
	for _, c := range cuts {
		if c > 0 && c < len(stream) && !seen[c] {
			seen[c] = true
			sorted = append(sorted, c)
		}
	}
	for i := 1; i < len(sorted); i++ {
		for j := i; j > 0 && sorted[j] < sorted[j-1]; j-- {
			sorted[j], sorted[j-1] = sorted[j-1], sorted[j]
		}
	}
	var out [][]byte
	prev := 0
	for _, c := range sorted {
		out = append(out, stream[prev:c])
		prev = c
	}
	return append(out, stream[prev:])
}

// c05Pair returns the real uacp.Conn under test and the raw socket of the other side.
func c05Pair(role string, buf, sendBuf uint32) (*uacp.Conn, *net.TCPConn, error) {
	// buf: what the connection under test may receive; sendBuf: what it may send (the other direction)
	if sendBuf == 0 {
		sendBuf = buf
	}
	ctx, cancel := context.WithTimeout(context.Background(), 10*time.Second)
	defer cancel()
	if role == "dialled" {
		l, err := net.Listen("tcp", "127.0.0.1:0")
		if err != nil {
			return nil, nil, err
		}
		defer l.Close()
		type acc struct {
			c   net.Conn
			err error
		}
		ch := make(chan acc, 1)
		go func() {
			c, err := l.Accept()
			if err == nil {
				if _, err = refpeer.ReadFrame(c, 0); err == nil { // HEL
					a := refpeer.Ack{RecvBuf: sendBuf, SendBuf: buf, MaxMsg: 0, MaxChunks: 0}
					_, err = c.Write(refpeer.MakeFrame("ACKF", a.Encode()))
				}
			}
			ch <- acc{c, err}
		}()
		d := &uacp.Dialer{ClientACK: &uacp.Acknowledge{ReceiveBufSize: buf, SendBufSize: sendBuf}}
		conn, err := d.Dial(ctx, "opc.tcp://"+l.Addr().String())
		a := <-ch
		if err != nil || a.err != nil {
			if conn != nil {
				conn.Close()
			}
			if a.c != nil {
				a.c.Close()
			}
			return nil, nil, fmt.Errorf("dial: %v / %v", err, a.err)
		}
		return conn, a.c.(*net.TCPConn), nil
	}
	port := freePort()
	ep := fmt.Sprintf("opc.tcp://127.0.0.1:%d", port)
	l, err := uacp.Listen(ctx, ep, &uacp.Acknowledge{ReceiveBufSize: buf, SendBufSize: sendBuf, MaxChunkCount: 0, MaxMessageSize: 0})
	if err != nil {
		return nil, nil, err
	}
	defer l.Close()
	type acc struct {
		c   *uacp.Conn
		err error
	}
	ch := make(chan acc, 1)
	go func() {
		c, err := l.Accept(ctx)
		ch <- acc{c, err}
	}()
	raw, err := net.DialTimeout("tcp", fmt.Sprintf("127.0.0.1:%d", port), 5*time.Second)
	if err != nil {
		return nil, nil, err
	}
	h := refpeer.Hello{RecvBuf: sendBuf, SendBuf: buf, URL: ep}
	if _, err := raw.Write(refpeer.MakeFrame("HELF", h.Encode())); err != nil {
		raw.Close()
		return nil, nil, err
	}
	if _, err := refpeer.ReadFrame(raw, 0); err != nil { // ACK
		raw.Close()
		return nil, nil, err
	}
	a := <-ch
	if a.err != nil {
		raw.Close()
		return nil, nil, a.err
	}
	return a.c, raw.(*net.TCPConn), nil
}

type c05Got struct {
	frame []byte
	err   error
}

func c05One(c *fw.Ctx, cs c05Case) {
	r := rand.New(rand.NewSource(cs.Seed))
	c.Journal(cs.Index, cs)
	conn, raw, err := c05Pair(cs.Role, cs.Buf, cs.SendBuf)
	if err != nil {
		c.Inconclusive("connection set-up: " + classOf(err.Error()))
		return
	}
	defer conn.Close()
	defer raw.Close()
	raw.SetNoDelay(true)

	small := cs.Seg == "byte-at-a-time"
	var frames []c05Frame
	var stream []byte
	for i := 0; i < cs.Frames; i++ {
		f := c05MakeFrame(r, cs.Buf, small)
		if r.Intn(12) == 0 {
			f = c05ErrFrame(r)
		}
		frames = append(frames, f)
		stream = append(stream, f.raw...)
	}
	// malformed tail: a header no receiver may accept
	var badHdr []byte
	if cs.Bad != "" {
		size := uint32(0)
		switch cs.Bad {
		case "size<8":
			size = uint32(r.Intn(8))
		case "size=buf+1":
			size = cs.Buf + 1
		case "size=2^32-1":
			size = 0xffffffff
		case "size=2^31":
			size = 1 << 31
		}
		badHdr = append([]byte("MSGF"), 0, 0, 0, 0)
		binary.LittleEndian.PutUint32(badHdr[4:], size)
		stream = append(stream, badHdr...)
		stream = append(stream, make([]byte, 64)...) // something follows, it must not be delivered as a frame of the claimed size
	}
	segs := c05Segments(r, cs.Seg, stream, frames)
	if len(segs) > 1 {
		c.Class("streams-with-a-split-header-or-body", 1)
	}

	got := make(chan c05Got, len(frames)+4)
	done := make(chan struct{})
	go func() {
		defer close(done)
		for i := 0; i < len(frames)+2; i++ {
			var b []byte
			var err error
			if pn := fw.Catch(func() { b, err = conn.Receive() }); pn != nil {
				got <- c05Got{err: fmt.Errorf("PANIC %s: %s", pn.Frame, pn.Msg)}
				return
			}
			var ue *uacp.Error
			if err != nil && !errors.As(err, &ue) {
				got <- c05Got{err: err}
				return
			}
			got <- c05Got{frame: append([]byte{}, b...), err: err}
		}
	}()
	gaveUp := false
	for _, s := range segs {
		select {
		case <-done: // the receiver has given up: nobody reads any more
			gaveUp = true
		default:
		}
		if gaveUp {
			break
		}
		raw.SetWriteDeadline(time.Now().Add(3 * time.Second))
		if _, err := raw.Write(s); err != nil {
			break
		}
		if cs.Seg != "coalesced" && cs.Seg != "byte-at-a-time" || r.Intn(64) == 0 {
			runtime.Gosched()
			if r.Intn(8) == 0 {
				time.Sleep(time.Duration(r.Intn(300)) * time.Microsecond)
			}
		}
	}
	raw.CloseWrite()
	finished := fw.WaitBeats(done, 8000)
	c.Eval(int64(len(frames)))
	c.Nontrivial(fmt.Sprintf("%s/%d/%s/%d/%s/%d", cs.Role, cs.Buf, cs.Seg, cs.Frames, cs.Bad, cs.Seed))
	c.Class("segmentation:"+cs.Seg, 1)
	c.Class("role:"+cs.Role, 1)
	if !finished {
		cs.Detail = "Receive still blocked 8000 heartbeats after the writer closed its side"
		c.Violation("c05:receive-does-not-return-after-close", cs.Detail, cs)
		return
	}
	close(got)
	i := 0
	terminal := false
	for g := range got {
		if g.err != nil {
			var ue *uacp.Error
			if errors.As(g.err, &ue) {
				// an ERR frame surfaces as *uacp.Error with the sent code and reason
				if i >= len(frames) || !frames[i].isErr {
					cs.FrameNo, cs.Detail = i, fmt.Sprintf("got *uacp.Error %#x %q where the peer sent no ERR frame", ue.ErrorCode, ue.Reason)
					c.Violation("c05:spurious-error-frame", cs.Detail, cs)
					return
				}
				if ue.ErrorCode != frames[i].errCode || ue.Reason != frames[i].reason {
					cs.FrameNo, cs.Detail = i, fmt.Sprintf("ERR frame sent with %#x %q, surfaced as %#x %q", frames[i].errCode, frames[i].reason, ue.ErrorCode, ue.Reason)
					c.Violation("c05:error-frame-content-differs", cs.Detail, cs)
					return
				}
				c.Class("err-frames-surfaced", 1)
				i++
				continue
			}
			if len(g.err.Error()) > 5 && g.err.Error()[:5] == "PANIC" {
				cs.FrameNo, cs.Detail = i, g.err.Error()
				c.Violation("c05:receive-panicked", cs.Detail, cs)
				return
			}
			// a non-frame error ends the stream: legitimate only after all well-formed frames
			terminal = true
			if i < len(frames) {
				cs.FrameNo, cs.Detail = i, fmt.Sprintf("Receive failed with %q after %d of %d well-formed frames", g.err, i, len(frames))
				c.Violation("c05:well-formed-frame-not-delivered", cs.Detail, cs)
				return
			}
			break
		}
		if i >= len(frames) {
			cs.FrameNo, cs.Detail = i, fmt.Sprintf("a frame of %d bytes was delivered after the %d frames sent (malformed tail: %q): %s", len(g.frame), len(frames), cs.Bad, hexTrunc(g.frame))
			c.Violation("c05:frame-delivered-that-was-not-sent", cs.Detail, cs)
			return
		}
		if frames[i].isErr {
			cs.FrameNo, cs.Detail = i, "an ERR frame was delivered as data instead of *uacp.Error"
			c.Violation("c05:error-frame-delivered-as-data", cs.Detail, cs)
			return
		}
		if !bytes.Equal(g.frame, frames[i].raw) {
			cs.FrameNo = i
			cs.Detail = fmt.Sprintf("frame %d differs: sent %d bytes %s..., received %d bytes %s... (first difference at %d)", i, len(frames[i].raw), hex.EncodeToString(frames[i].raw[:8]), len(g.frame),
				hexTrunc(g.frame), firstDiff(g.frame, frames[i].raw))
			c.Violation("c05:frame-differs", cs.Detail, cs)
			return
		}
		i++
	}
	if i < len(frames) {
		cs.FrameNo, cs.Detail = i, fmt.Sprintf("only %d of %d frames were delivered", i, len(frames))
		c.Violation("c05:frames-missing", cs.Detail, cs)
		return
	}
	if !terminal {
		cs.Detail = "no error after the end of the stream"
		c.Violation("c05:no-error-at-end-of-stream", cs.Detail, cs)
	}
	if cs.Bad != "" {
		c.Class("malformed-header-rejected:"+cs.Bad, 1)
	}
}

func c05Cases(c *fw.Ctx) []c05Case {
	var out []c05Case
	n := c.Pick(480, 30000)
	segs := []string{"coalesced", "byte-at-a-time", "per-frame", "header-splits", "header-plus-next", "random", "random"}
	bads := []string{"", "", "size<8", "size=buf+1", "size=2^32-1", "size=2^31"}
	for i := 0; i < n; i++ {
		r := c.Rng("c05", int64(i))
		cs := c05Case{Index: int64(i), Role: []string{"dialled", "accepted"}[i%2], Buf: []uint32{8192, 8192, 65535, 1 << 20}[r.Intn(4)],
			Seg: segs[(i/2)%len(segs)], Frames: 1 + r.Intn(12), Bad: bads[r.Intn(len(bads))], Seed: r.Int63()}
		if cs.Seg == "byte-at-a-time" {
			cs.Frames = 1 + r.Intn(4)
		}
		// half of the streams: the two directions of the connection under test have different buffer sizes (the bound
		// of a received frame is the receive buffer, whatever the send buffer is)
		if r2 := c.Rng("c05dir", int64(i)); r2.Intn(2) == 0 {
			cs.SendBuf = []uint32{8192, 16384, 65535, 1 << 20, 2 << 20}[r2.Intn(5)]
			if cs.SendBuf == cs.Buf {
				cs.SendBuf = cs.Buf + 8192
			}
		}
		out = append(out, cs)
	}
	return out
}

func c05Run(c *fw.Ctx) error {
	for _, cs := range c05Cases(c) {
		if int(cs.Index)%c.NBatch != c.Batch || cs.Index < c.Resume {
			continue
		}
		c05One(c, cs)
		if cs.Index%97 == 0 {
			c.Sample(cs)
		}
		c.Done(cs.Index)
	}
	return nil
}

func init() {
	fw.Register("C05", fw.Spec{
		Plan: func(tier string) fw.Plan {
			p := fw.Plan{Batches: 8, TimeoutS: 900, MinNontrivial: 300, Level: "exploration",
				Rule:        "streams of 1-12 frames (sizes 8, 9, small, random, buf-1, buf; known and unknown message and chunk types; ERR frames with generated code/reason) optionally followed by a malformed header (size 0-7, buf+1, 2^31, 2^32-1), written by a raw socket to a real uacp.Conn over loopback TCP (receiver obtained by Dial+Handshake and by Listen/Accept; receive buffers 8192, 65535, 2^20; in half of the streams the send buffer of the same connection is a different one, smaller or larger) with TCP_NODELAY under 6 segmentation patterns (coalesced, byte-at-a-time, per frame, every header cut at 1..7, segment ends exactly after a header / tail+head, random cuts) and yields between segments; oracle: delivered frames = sent frames byte for byte and in order, ERR frames surface as *uacp.Error with the sent code and reason, the malformed header and the end of the stream give an error, nothing is delivered after it, no panic, Receive returns after the writer closed (heartbeat clock); distinct = streams",
				Assumptions: []string{"which side's value ends up in which direction of the negotiation is the subject of C06; here both peers state the same pair of sizes"}}
			if tier == "thorough" {
				p.Batches, p.TimeoutS, p.MinNontrivial = 16, 3000, 20000
			}
			return p
		},
		Run: c05Run,
		Replay: func(c *fw.Ctx, raw json.RawMessage) error {
			var cs c05Case
			if err := json.Unmarshal(raw, &cs); err != nil {
				return err
			}
			cs.Detail = ""
			c05One(c, cs)
			return nil
		},
	})
}
