package props

import (
	"bytes"
	"crypto/rsa"
	"encoding/hex"
	"encoding/json"
	"fmt"
	"math/big"
	"math/rand"

	"github.com/gopcua/opcua/uapolicy"

	"verifharness/fw"
	"verifharness/keys"
	"verifharness/refpeer"
)

// ---------------- C14: symmetric keys per spec, direction-separated ----------------

type c14Case struct {
	Policy string `json:"policy"`
	A      string `json:"client_nonce_hex"`
	B      string `json:"server_nonce_hex"`
	Shape  string `json:"shape"`
}

func c14Nonces(r *rand.Rand, n int) (a, b []byte, shape string) {
	a, b = make([]byte, n), make([]byte, n)
	switch r.Intn(8) {
	case 0:
		shape = "zero/random"
		r.Read(b)
	case 1:
		shape = "ff/random"
		for i := range a {
			a[i] = 0xff
		}
		r.Read(b)
	case 2:
		shape = "common-prefix"
		r.Read(a)
		copy(b, a)
		b[n-1] ^= byte(1 + r.Intn(255))
	case 3:
		shape = "zero/ff"
		for i := range b {
			b[i] = 0xff
		}
	case 4:
		shape = "one-bit-apart"
		r.Read(a)
		copy(b, a)
		b[r.Intn(n)] ^= 1 << uint(r.Intn(8))
	default:
		shape = "random"
		r.Read(a)
		r.Read(b)
	}
	return
}

func c14Check(c *fw.Ctx, cs c14Case, r *rand.Rand) {
	p := refpeer.PolicyByURI(cs.Policy)
	a, _ := hex.DecodeString(cs.A)
	b, _ := hex.DecodeString(cs.B)
	c.Eval(1)
	c.Class("policy:"+p.Name, 1)
	c.Class("shape:"+cs.Shape, 1)
	c.Nontrivial(cs.Policy + cs.A + cs.B)
	var cli, srv *uapolicy.EncryptionAlgorithm
	var err1, err2 error
	if pn := fw.Catch(func() {
		cli, err1 = uapolicy.Symmetric(cs.Policy, a, b)
		srv, err2 = uapolicy.Symmetric(cs.Policy, b, a)
	}); pn != nil {
		c.Violation("symmetric-"+pn.Key(), "uapolicy.Symmetric panicked: "+pn.Msg, cs)
		return
	}
	if err1 != nil || err2 != nil {
		c.Violation("symmetric-error:"+p.Name, fmt.Sprintf("Symmetric failed: %v %v", err1, err2), cs)
		return
	}
	refCli, refSrv := p.DeriveKeys(a, b)
	msg := make([]byte, 1+r.Intn(200))
	r.Read(msg)
	plain := make([]byte, 16*(1+r.Intn(8)))
	r.Read(plain)

	type dir struct {
		name     string
		snd, rcv *uapolicy.EncryptionAlgorithm
		ref      refpeer.KeySet
	}
	for _, d := range []dir{{"client->server", cli, srv, refCli}, {"server->client", srv, cli, refSrv}} {
		var sig, ct, pt []byte
		var verr, serr, eerr, derr error
		if pn := fw.Catch(func() {
			sig, serr = d.snd.Signature(msg)
			ct, eerr = d.snd.Encrypt(plain)
			verr = d.rcv.VerifySignature(msg, sig)
			pt, derr = d.rcv.Decrypt(ct)
		}); pn != nil {
			c.Violation("symmetric-use-"+pn.Key(), "symmetric algorithm panicked: "+pn.Msg, cs)
			return
		}
		if serr != nil || eerr != nil {
			c.Violation("sign-or-encrypt-error:"+p.Name, fmt.Sprintf("%s: Signature err=%v Encrypt err=%v", d.name, serr, eerr), cs)
			continue
		}
		if want := p.SymSign(d.ref, msg); !bytes.Equal(sig, want) {
			c.Violation("signing-key-differs:"+p.Name+":"+d.name, fmt.Sprintf("%s: signature differs from HMAC with the Part 6 signing key", d.name), cs)
		}
		if want, _ := p.SymEncrypt(d.ref, plain); !bytes.Equal(ct, want) {
			c.Violation("encrypting-key-or-iv-differs:"+p.Name+":"+d.name, fmt.Sprintf("%s: ciphertext differs from AES-CBC with the Part 6 key and IV", d.name), cs)
		}
		if verr != nil {
			c.Violation("peer-verify-fails:"+p.Name+":"+d.name, fmt.Sprintf("%s: the peer does not verify the signature: %v", d.name, verr), cs)
		}
		if derr != nil || !bytes.Equal(pt, plain) {
			c.Violation("peer-decrypt-fails:"+p.Name+":"+d.name, fmt.Sprintf("%s: the peer does not decrypt to the plaintext (err=%v)", d.name, derr), cs)
		}
		// direction separation: the sender's own receive keys must not accept its output
		if !bytes.Equal(a, b) {
			var selfV error
			var selfP []byte
			fw.Catch(func() {
				selfV = d.snd.VerifySignature(msg, sig)
				selfP, _ = d.snd.Decrypt(ct)
			})
			if selfV == nil {
				c.Violation("reflection-verifies:"+p.Name+":"+d.name, fmt.Sprintf("%s: the sender verifies its own signature with its receive keys (reflected traffic accepted)", d.name), cs)
			}
			if bytes.Equal(selfP, plain) {
				c.Violation("reflection-decrypts:"+p.Name+":"+d.name, fmt.Sprintf("%s: the sender decrypts its own ciphertext with its receive keys", d.name), cs)
			}
		}
		// a tampered message must not verify
		m2 := append([]byte{}, msg...)
		m2[r.Intn(len(m2))] ^= 0x01
		if d.rcv.VerifySignature(m2, sig) == nil {
			c.Violation("tampered-verifies:"+p.Name, "a modified message verifies", cs)
		}
	}
}

func c14Run(c *fw.Ctx) error {
	n := int64(c.Pick(5000, 500000))
	for i := int64(0); i < n; i++ {
		if int(i%int64(c.NBatch)) != c.Batch || i < c.Resume {
			continue
		}
		r := c.Rng("c14", i)
		p := refpeer.Policies[int(i)%len(refpeer.Policies)]
		nl := p.NonceLen
		if r.Intn(10) == 0 {
			nl = []int{1, 16, 32, 64}[r.Intn(4)]
		}
		a, b, shape := c14Nonces(r, nl)
		cs := c14Case{Policy: p.URI, A: hex.EncodeToString(a), B: hex.EncodeToString(b), Shape: shape}
		c.Journal(i, cs)
		c14Check(c, cs, r)
		if i%1000 == 0 {
			c.Sample(cs)
		}
		c.Done(i)
	}
	return nil
}

// ---------------- C15: asymmetric crypto, all lengths, key limits ----------------

type c15Case struct {
	Policy string `json:"policy"`
	Local  int    `json:"local_bits"`
	Remote int    `json:"remote_bits"`
	Len    int    `json:"len,omitempty"`
	What   string `json:"what"`
}

func c15Pair(c *fw.Ctx, p *refpeer.Policy, lb, rb int, lengths []int, r *rand.Rand) {
	la, rbk := keys.Get("a", lb), keys.Get("b", rb)
	cs := c15Case{Policy: p.URI, Local: lb, Remote: rb, What: "construct"}
	c.Journal(int64(lb*10000+rb), cs)
	var alice, bob *uapolicy.EncryptionAlgorithm
	var e1, e2 error
	if pn := fw.Catch(func() {
		alice, e1 = uapolicy.Asymmetric(p.URI, la.Key, &rbk.Key.PublicKey)
		bob, e2 = uapolicy.Asymmetric(p.URI, rbk.Key, &la.Key.PublicKey)
	}); pn != nil {
		c.Violation("asymmetric-"+pn.Key(), "uapolicy.Asymmetric panicked: "+pn.Msg, cs)
		return
	}
	c.Eval(1)
	allowed := p.KeyAllowed(lb) && p.KeyAllowed(rb)
	c.Class(fmt.Sprintf("construct:allowed=%v", allowed), 1)
	c.Nontrivial(fmt.Sprintf("construct:%s:%d:%d", p.Name, lb, rb))
	if !allowed {
		if e1 == nil || e2 == nil {
			c.Violation(fmt.Sprintf("key-limit-not-enforced:%s", p.Name),
				fmt.Sprintf("Asymmetric(%s) accepted keys of %d/%d bits (allowed %d..%d): errs %v / %v", p.Name, lb, rb, p.MinKeyBits, p.MaxKeyBits, e1, e2), cs)
		}
		return
	}
	if e1 != nil || e2 != nil {
		c.Violation(fmt.Sprintf("allowed-key-rejected:%s", p.Name), fmt.Sprintf("Asymmetric(%s) rejected keys of %d/%d bits: %v %v", p.Name, lb, rb, e1, e2), cs)
		return
	}
	// encryption for every requested length
	for _, L := range lengths {
		cs := c15Case{Policy: p.URI, Local: lb, Remote: rb, Len: L, What: "encrypt"}
		x := make([]byte, L)
		r.Read(x)
		var ct, pt []byte
		var ee, de error
		if pn := fw.Catch(func() {
			ct, ee = alice.Encrypt(x)
			if ee == nil {
				pt, de = bob.Decrypt(ct)
			}
		}); pn != nil {
			c.Violation("encrypt-"+pn.Key(), "asymmetric Encrypt/Decrypt panicked: "+pn.Msg, cs)
			continue
		}
		c.Eval(1)
		c.Class("encrypt:"+p.Name, 1)
		c.Nontrivial(fmt.Sprintf("enc:%s:%d:%d:%d", p.Name, lb, rb, L))
		if ee != nil || de != nil || !bytes.Equal(pt, x) {
			c.Violation("encrypt-roundtrip:"+p.Name, fmt.Sprintf("Decrypt(Encrypt(x)) != x for len %d (errs %v / %v)", L, ee, de), cs)
			continue
		}
		if L > 0 {
			// differential: the reference decrypts gopcua's ciphertext and gopcua decrypts the reference's
			if rp, err := p.AsymDecrypt(rbk.Key, ct); err != nil || !bytes.Equal(rp, x) {
				c.Violation("encrypt-not-conforming:"+p.Name, fmt.Sprintf("the reference cannot decrypt gopcua's ciphertext for len %d: %v", L, err), cs)
			}
			if L%7 == 0 {
				rc, err := p.AsymEncrypt(&rbk.Key.PublicKey, x, 0)
				if err == nil {
					if gp, err := bob.Decrypt(rc); err != nil || !bytes.Equal(gp, x) {
						c.Violation("decrypt-not-conforming:"+p.Name, fmt.Sprintf("gopcua cannot decrypt the reference's ciphertext for len %d: %v", L, err), cs)
					}
				}
			}
			// a modified ciphertext must not decrypt to the plaintext
			if L%5 == 0 {
				bad := append([]byte{}, ct...)
				bad[r.Intn(len(bad))] ^= 0x40
				var bp []byte
				var be error
				fw.Catch(func() { bp, be = bob.Decrypt(bad) })
				if be == nil && bytes.Equal(bp, x) {
					c.Violation("tampered-ciphertext-accepted:"+p.Name, "a modified ciphertext decrypts to the original plaintext", cs)
				}
			}
		}
	}
	// signatures
	for k := 0; k < 12; k++ {
		cs := c15Case{Policy: p.URI, Local: lb, Remote: rb, Len: k, What: "sign"}
		msg := make([]byte, r.Intn(300))
		r.Read(msg)
		var sig []byte
		var se, ve error
		if pn := fw.Catch(func() {
			sig, se = alice.Signature(msg)
			if se == nil {
				ve = bob.VerifySignature(msg, sig)
			}
		}); pn != nil {
			c.Violation("sign-"+pn.Key(), "asymmetric Signature/Verify panicked: "+pn.Msg, cs)
			continue
		}
		c.Eval(1)
		c.Class("sign:"+p.Name, 1)
		if se != nil || ve != nil {
			c.Violation("sign-roundtrip:"+p.Name, fmt.Sprintf("signature does not verify at the peer: %v %v", se, ve), cs)
			continue
		}
		if len(sig) != la.Key.Size() || alice.SignatureLength() != la.Key.Size() || alice.RemoteSignatureLength() != rbk.Key.Size() {
			c.Violation("signature-length:"+p.Name, fmt.Sprintf("signature length %d, SignatureLength %d, RemoteSignatureLength %d for keys %d/%d bytes",
				len(sig), alice.SignatureLength(), alice.RemoteSignatureLength(), la.Key.Size(), rbk.Key.Size()), cs)
		}
		if err := p.AsymVerify(&la.Key.PublicKey, msg, sig); err != nil {
			c.Violation("signature-not-conforming:"+p.Name, "the reference does not verify gopcua's signature: "+err.Error(), cs)
		}
		if rs, err := p.AsymSign(la.Key, msg); err == nil {
			if err := bob.VerifySignature(msg, rs); err != nil {
				c.Violation("verify-not-conforming:"+p.Name, "gopcua does not verify the reference's signature: "+err.Error(), cs)
			}
		}
		m2 := append(append([]byte{}, msg...), 0)
		if len(msg) > 0 && k%2 == 0 {
			m2 = append([]byte{}, msg...)
			m2[r.Intn(len(m2))] ^= 0x80
		}
		if bob.VerifySignature(m2, sig) == nil {
			c.Violation("signature-verifies-other-bytes:"+p.Name, "a signature verifies for other bytes", cs)
		}
		s2 := append([]byte{}, sig...)
		s2[r.Intn(len(s2))] ^= 0x01
		if bob.VerifySignature(msg, s2) == nil {
			c.Violation("tampered-signature-verifies:"+p.Name, "a modified signature verifies", cs)
		}
		// wrong key: a verifier bound to another public key of the same size
		var other *rsa.PublicKey = &keys.Get("b", lb).Key.PublicKey
		if mallory, err := uapolicy.Asymmetric(p.URI, rbk.Key, other); err == nil {
			if mallory.VerifySignature(msg, sig) == nil {
				c.Violation("signature-verifies-wrong-key:"+p.Name, "a signature verifies under another key", cs)
			}
		}
	}
}

// c15OddSizes: keys whose length in bits is not a multiple of 8, just outside the limits (synthetic moduli; construction does not need the factors) must be refused like any other key outside.
func c15OddSizes(c *fw.Ctx) {
	for _, p := range refpeer.Policies {
		good := keys.Get("a", 2048)
		if !p.KeyAllowed(2048) {
			good = keys.Get("a", 1024)
		}
		// the library states its limits in bytes: a key of n bits needs ceil(n/8) bytes, so the first lengths that
		// are outside are min-8 and max+1 bits (min-7..min-1 bits still fill the minimal number of bytes)
		for _, bits := range []int{p.MinKeyBits - 15, p.MinKeyBits - 8, p.MaxKeyBits + 1, p.MaxKeyBits + 3, p.MaxKeyBits + 7, p.MaxKeyBits + 8} {
			n := new(big.Int).Lsh(big.NewInt(1), uint(bits-1))
			n.Add(n, big.NewInt(12345)) // bit length = bits, odd
			pub := &rsa.PublicKey{N: n, E: 65537}
			priv := &rsa.PrivateKey{PublicKey: *pub, D: big.NewInt(3), Primes: []*big.Int{big.NewInt(3), big.NewInt(5)}}
			cs := c15Case{Policy: p.URI, Local: 2048, Remote: bits, What: "construct-odd-size"}
			c.Journal(int64(900000+bits), cs)
			var e1, e2 error
			if pn := fw.Catch(func() {
				_, e1 = uapolicy.Asymmetric(p.URI, good.Key, pub)
				_, e2 = uapolicy.Asymmetric(p.URI, priv, &good.Key.PublicKey)
			}); pn != nil {
				c.Violation("asymmetric-"+pn.Key(), "uapolicy.Asymmetric panicked: "+pn.Msg, cs)
				continue
			}
			c.Eval(1)
			c.Nontrivial(fmt.Sprintf("construct-odd:%s:%d", p.Name, bits))
			if e1 == nil || e2 == nil {
				c.Violation(fmt.Sprintf("key-limit-not-enforced:%s", p.Name),
					fmt.Sprintf("Asymmetric(%s) accepted a key of %d bits as remote (err %v) or local (err %v) key; allowed are %d..%d bits", p.Name, bits, e1, e2, p.MinKeyBits, p.MaxKeyBits), cs)
			}
		}
	}
}

func c15Run(c *fw.Ctx) error {
	if c.Batch == 0 && c.Resume == 0 {
		c15OddSizes(c)
	}
	type combo struct {
		p      *refpeer.Policy
		lb, rb int
	}
	var combos []combo
	for _, p := range refpeer.Policies {
		for _, lb := range keys.Sizes {
			for _, rb := range keys.Sizes {
				combos = append(combos, combo{p, lb, rb})
			}
		}
	}
	for i, cb := range combos {
		if i%c.NBatch != c.Batch || int64(i) < c.Resume {
			continue
		}
		r := c.Rng("c15", int64(i))
		allowed := cb.p.KeyAllowed(cb.lb) && cb.p.KeyAllowed(cb.rb)
		var lengths []int
		if allowed {
			blk := cb.p.AsymPlainBlock(cb.rb / 8)
			max := 3*blk + 1
			full := !c.Quick() || (cb.lb == cb.rb && cb.lb == 2048)
			if full {
				for L := 0; L <= max; L++ {
					lengths = append(lengths, L)
				}
			} else { // quick: block boundaries only for the other key pairs
				for _, k := range []int{0, 1, 2, 3} {
					for _, d := range []int{-1, 0, 1} {
						if L := k*blk + d; L >= 0 && L <= max {
							lengths = append(lengths, L)
						}
					}
				}
			}
		}
		c15Pair(c, cb.p, cb.lb, cb.rb, lengths, r)
		if i%11 == 0 {
			c.Sample(map[string]interface{}{"policy": cb.p.Name, "local_bits": cb.lb, "remote_bits": cb.rb, "allowed": allowed, "plaintext_lengths": len(lengths)})
		}
		c.Done(int64(i))
	}
	return nil
}

func init() {
	fw.Register("C14", fw.Spec{
		Plan: func(tier string) fw.Plan {
			p := fw.Plan{Batches: 4, TimeoutS: 300, MinNontrivial: 2000, Level: "exploration",
				Rule:        "5 symmetric policies x seed-determined nonce pairs (random, all-zero, all-0xFF, common prefix, one bit apart; policy nonce length, 10% other lengths) through the public uapolicy.Symmetric; oracle = independent P_SHA derivation + HMAC + AES-CBC (refpeer) and the mirrored instance; distinct = distinct (policy, nonce pair)",
				Assumptions: []string{"Go's crypto/hmac, crypto/aes, crypto/sha* are shared with gopcua and trusted"}}
			if tier == "thorough" {
				p.Batches, p.TimeoutS, p.MinNontrivial = 16, 1200, 200000
			}
			return p
		},
		Run: c14Run,
		Replay: func(c *fw.Ctx, raw json.RawMessage) error {
			var cs c14Case
			if err := json.Unmarshal(raw, &cs); err != nil {
				return err
			}
			c14Check(c, cs, c.Rng("replay", 0))
			return nil
		},
	})
	fw.Register("C15", fw.Spec{
		Plan: func(tier string) fw.Plan {
			p := fw.Plan{Batches: 16, TimeoutS: 600, MinNontrivial: 1000, Level: "exploration",
				Rule:        "5 policies x local key size x remote key size from {512,1024,2048,3072,4096} (committed keys): construction must fail iff a key is outside the policy's limits; for allowed pairs every plaintext length 0..3 blocks+1 (quick: every length for the 2048/2048 pair, block boundaries +-1 for the others) is encrypted/decrypted and cross-checked against the reference RSA schemes; signatures verified, tampered, and checked under a wrong key; distinct = distinct (policy, key pair, length)",
				Assumptions: []string{"Go's crypto/rsa is shared with gopcua and trusted"}}
			if tier == "thorough" {
				p.TimeoutS, p.MinNontrivial = 3000, 20000
			}
			return p
		},
		Run: c15Run,
	})
}
