package props

import (
	"context"
	"encoding/json"
	"fmt"
	"sync"
	"time"

	"github.com/anishathalye/porcupine"
	"github.com/gopcua/opcua"
	"github.com/gopcua/opcua/id"
	"github.com/gopcua/opcua/server"
	"github.com/gopcua/opcua/server/attrs"
	"github.com/gopcua/opcua/ua"

	"verifharness/fw"
)

// C34: concurrent reads and writes of node values by several clients are linearizable (register per node).
// Histories are recorded at the client boundary with one monotonic clock and checked with porcupine.

type c34In struct {
	Node  string `json:"node"`
	Write bool   `json:"write"`
	Val   int64  `json:"val,omitempty"`
}

type c34Rec struct {
	Client int   `json:"client"`
	In     c34In `json:"in"`
	Out    int64 `json:"out"`
	Call   int64 `json:"call_ns"`
	Ret    int64 `json:"return_ns"`
	Open   bool  `json:"open,omitempty"` // write whose outcome is unknown (error / timeout): may take effect at any later time
}

var c34Model = porcupine.Model{
	Partition: func(h []porcupine.Operation) [][]porcupine.Operation {
		m := map[string][]porcupine.Operation{}
		var keys []string
		for _, op := range h {
			k := op.Input.(c34In).Node
			if _, ok := m[k]; !ok {
				keys = append(keys, k)
			}
			m[k] = append(m[k], op)
		}
		var out [][]porcupine.Operation
		for _, k := range keys {
			out = append(out, m[k])
		}
		return out
	},
	Init: func() interface{} { return int64(0) },
	Step: func(st, in, out interface{}) (bool, interface{}) {
		i := in.(c34In)
		if i.Write {
			return true, i.Val
		}
		return out.(int64) == st.(int64), st
	},
	DescribeOperation: func(in, out interface{}) string {
		i := in.(c34In)
		if i.Write {
			return fmt.Sprintf("write(%s,%d)", i.Node, i.Val)
		}
		return fmt.Sprintf("read(%s)=%d", i.Node, out.(int64))
	},
}

func c34Check(recs []c34Rec, timeout time.Duration) (porcupine.CheckResult, []porcupine.Operation) {
	var end int64
	for _, r := range recs {
		if r.Ret > end {
			end = r.Ret
		}
	}
	var ops []porcupine.Operation
	for _, r := range recs {
		ret := r.Ret
		if r.Open {
			ret = end + 1_000_000
		}
		ops = append(ops, porcupine.Operation{ClientId: r.Client, Input: r.In, Call: r.Call, Output: r.Out, Return: ret})
	}
	res, _ := porcupine.CheckOperationsVerbose(c34Model, ops, timeout)
	return res, ops
}

type c34Hist struct {
	Run     int64    `json:"run"`
	Kind    string   `json:"namespace_kind"`
	Clients int      `json:"clients"`
	Nodes   int      `json:"nodes"`
	Recs    []c34Rec `json:"history"`
}

func c34RunOne(c *fw.Ctx, run int64) {
	r := c.Rng("c34", run)
	nclients := 2 + r.Intn(7)
	nnodes := 1 + r.Intn(3)
	nops := 30 + r.Intn(31)
	kind := "node"
	if r.Intn(2) == 1 {
		kind = "map"
	}
	c.Journal(run, map[string]interface{}{"run": run, "clients": nclients, "nodes": nnodes, "ops_per_client": nops, "kind": kind})
	rs, err := startRealServer(srvCfg{})
	if err != nil {
		c.Inconclusive("server start: " + err.Error())
		return
	}
	defer rs.Srv.Close()
	var ids []*ua.NodeID
	u32 := map[string]bool{} // nodes whose values are UInt32 above 2^31 (the register keeps the type it was written with)
	if kind == "node" {
		for i := 0; i < nnodes; i++ {
			if (int(run)+i)%3 == 1 {
				n := rwVar(rs.NS, fmt.Sprintf("lin%d", i), uint32(0))
				ids = append(ids, n.ID())
				u32[n.ID().String()] = true
				continue
			}
			ids = append(ids, rwVar(rs.NS, fmt.Sprintf("lin%d", i), int64(0)).ID())
		}
		// a node the clients may read but not write: their writes are refused and must stay without effect
		ro := server.NewNode(ua.NewStringNodeID(rs.NS.ID(), "lin-readonly"), map[ua.AttributeID]*ua.DataValue{
			ua.AttributeIDAccessLevel:     server.DataValueFromValue(byte(ua.AccessLevelTypeCurrentRead)),
			ua.AttributeIDUserAccessLevel: server.DataValueFromValue(byte(ua.AccessLevelTypeCurrentRead)),
			ua.AttributeIDBrowseName:      server.DataValueFromValue(attrs.BrowseName("lin-readonly")),
			ua.AttributeIDNodeClass:       server.DataValueFromValue(uint32(ua.NodeClassVariable)),
		}, nil, func() *ua.DataValue { return server.DataValueFromValue(int64(0)) })
		rs.NS.AddNode(ro)
		rs.NS.Objects().AddRef(ro, id.HasComponent, true)
		ids = append(ids, ro.ID())
		nnodes++
	} else {
		mns := server.NewMapNamespace(rs.Srv, "verifmap")
		for i := 0; i < nnodes; i++ {
			k := fmt.Sprintf("lin%d", i)
			mns.Mu.Lock()
			mns.Data[k] = int64(0)
			mns.Mu.Unlock()
			ids = append(ids, ua.NewStringNodeID(mns.ID(), k))
		}
	}
	ctx, cancel := context.WithTimeout(context.Background(), 90*time.Second)
	defer cancel()
	var clients []*opcua.Client
	for i := 0; i < nclients; i++ {
		cl, err := opcua.NewClient(rs.Endpoint, opcua.SecurityMode(ua.MessageSecurityModeNone), opcua.AutoReconnect(false), opcua.RequestTimeout(10*time.Second))
		if err == nil {
			err = cl.Connect(ctx)
		}
		if err != nil {
			c.Inconclusive("connect: " + err.Error())
			return
		}
		defer cl.Close(context.Background())
		clients = append(clients, cl)
	}
	t0 := time.Now()
	var mu sync.Mutex
	var recs []c34Rec
	var wg sync.WaitGroup
	for ci, cl := range clients {
		ci, cl := ci, cl
		seed := r.Int63()
		wg.Add(1)
		go func() {
			defer wg.Done()
			rr := c.Rng(fmt.Sprintf("c34cl%d", ci), seed)
			for k := 0; k < nops; k++ {
				// one request carries 1-3 operations of the same kind on distinct nodes; they share call and return
				// time; now and then an entry for a node or namespace that does not exist sits between them
				write := rr.Intn(2) == 0
				nent := 1
				if rr.Intn(3) == 0 {
					nent = 1 + rr.Intn(len(ids))
				}
				perm := rr.Perm(len(ids))[:nent]
				bogusAt := -1
				if rr.Intn(4) == 0 {
					bogusAt = rr.Intn(nent + 1)
				}
				bogus := []*ua.NodeID{ua.NewStringNodeID(77, "nowhere"), ua.NewStringNodeID(ids[0].Namespace(), "no-such-node")}[rr.Intn(2)]
				var recsOf []c34Rec
				var wvals []*ua.WriteValue
				var rvals []*ua.ReadValueID
				var isReal []int // index into recsOf per request entry, -1 for the bogus one
				for e := 0; e <= nent; e++ {
					if e == bogusAt {
						if write {
							wvals = append(wvals, &ua.WriteValue{NodeID: bogus, AttributeID: ua.AttributeIDValue, Value: &ua.DataValue{EncodingMask: ua.DataValueValue, Value: ua.MustVariant(int64(-5))}})
						} else {
							rvals = append(rvals, &ua.ReadValueID{NodeID: bogus, AttributeID: ua.AttributeIDValue})
						}
						isReal = append(isReal, -1)
					}
					if e == nent {
						break
					}
					ni := perm[e]
					rec := c34Rec{Client: ci, In: c34In{Node: ids[ni].String(), Write: write}}
					if write {
						rec.In.Val = run*10_000_000 + int64(ci)*100_000 + int64(k)*10 + int64(e) + 1 // unique per history
						dv := &ua.DataValue{EncodingMask: ua.DataValueValue, Value: ua.MustVariant(rec.In.Val)}
						if u32[rec.In.Node] {
							v32 := uint32(0x80000000 | (rec.In.Val & 0x7fffffff))
							rec.In.Val = int64(v32)
							dv.Value = ua.MustVariant(v32)
						}
						// clients stamp their writes with their own, unsynchronised clocks
						if rr.Intn(2) == 0 {
							dv.EncodingMask |= ua.DataValueSourceTimestamp
							dv.SourceTimestamp = time.Unix(1_700_000_000+int64(rr.Intn(100000)), 0).UTC()
						}
						wvals = append(wvals, &ua.WriteValue{NodeID: ids[ni], AttributeID: ua.AttributeIDValue, Value: dv})
					} else {
						rvals = append(rvals, &ua.ReadValueID{NodeID: ids[ni], AttributeID: ua.AttributeIDValue})
					}
					isReal = append(isReal, len(recsOf))
					recsOf = append(recsOf, rec)
				}
				call := int64(time.Since(t0))
				var keep []c34Rec
				if write {
					res, err := cl.Write(ctx, &ua.WriteRequest{NodesToWrite: wvals})
					ret := int64(time.Since(t0))
					for ei, ri := range isReal {
						if ri < 0 {
							continue
						}
						rec := recsOf[ri]
						rec.Call, rec.Ret = call, ret
						if err != nil || res == nil || len(res.Results) != len(wvals) {
							rec.Open = true // unknown outcome: stays open to the end of the history
						} else if res.Results[ei] != ua.StatusOK {
							continue // refused: no effect claimed
						}
						keep = append(keep, rec)
					}
				} else {
					res, err := cl.Read(ctx, &ua.ReadRequest{NodesToRead: rvals})
					ret := int64(time.Since(t0))
					if err == nil && res != nil && len(res.Results) == len(rvals) {
						for ei, ri := range isReal {
							if ri < 0 || res.Results[ei].Value == nil {
								continue
							}
							rec := recsOf[ri]
							var v int64
							switch x := res.Results[ei].Value.Value().(type) {
							case int64:
								v = x
								if u32[rec.In.Node] {
									v = -2 // a value of another type than any write to this node had
								}
							case uint32:
								v = int64(x)
								if !u32[rec.In.Node] {
									v = -2
								}
							case nil:
								continue
							default:
								v = -2
							}
							rec.Call, rec.Ret, rec.Out = call, ret, v
							keep = append(keep, rec)
						}
					}
				}
				mu.Lock()
				recs = append(recs, keep...)
				mu.Unlock()
				if rr.Intn(4) == 0 {
					time.Sleep(time.Duration(rr.Intn(300)) * time.Microsecond)
				}
			}
		}()
	}
	wg.Wait()
	c.Eval(int64(len(recs)))
	res, _ := c34Check(recs, 60*time.Second)
	// how concurrent was the history: operations overlapping another client's operation
	overlaps := 0
	for i := range recs {
		for j := range recs {
			if i != j && recs[i].Client != recs[j].Client && recs[i].In.Node == recs[j].In.Node && recs[i].Call < recs[j].Ret && recs[j].Call < recs[i].Ret {
				overlaps++
				break
			}
		}
	}
	c.AddExtra("sum_operations", int64(len(recs)))
	c.AddExtra("sum_operations_overlapping_another_client", int64(overlaps))
	c.Class("history:"+kind+":"+string(res), 1)
	if overlaps > 0 {
		c.Nontrivial(fmt.Sprintf("hist:%d", run))
	}
	switch res {
	case porcupine.Illegal:
		c.Violation("c34:not-linearizable:"+kind+"-namespace", fmt.Sprintf("history of %d operations by %d clients over %d %s-namespace nodes is not linearizable", len(recs), nclients, nnodes, kind),
			c34Hist{Run: run, Kind: kind, Clients: nclients, Nodes: nnodes, Recs: recs})
	case porcupine.Unknown:
		c.Inconclusive("linearizability checker timed out")
	}
	c.Done(run)
}

func c34Run(c *fw.Ctx) error {
	runs := int64(c.Pick(40, 2000))
	for i := int64(0); i < runs; i++ {
		if int(i%int64(c.NBatch)) != c.Batch || i < c.Resume {
			continue
		}
		c34RunOne(c, i)
	}
	c.Sample(map[string]interface{}{"model": "register per node, initial value 0, unique written values; failed writes stay open to the end of the history; failed reads and refused writes are dropped"})
	return nil
}

func init() {
	fw.Register("C34", fw.Spec{
		Plan: func(tier string) fw.Plan {
			p := fw.Plan{Batches: 8, TimeoutS: 900, MinNontrivial: 20, Level: "exploration",
				Rule:        "histories: 2-8 real clients x 30-60 requests, each carrying 1-3 operations (Read / Write of a unique Int64, half of the writes with a source timestamp from an unsynchronised clock, a quarter of the requests with an entry for a node or namespace that does not exist in between) over 1-3 shared variable nodes of the real server (node namespace or map namespace), call and return stamped with one monotonic clock at the client API boundary; each history is checked by porcupine against a register-per-node model (partitioned by node, 60 s checker cap, timeout = inconclusive); distinct = histories in which operations of different clients on the same node overlapped in time",
				Assumptions: []string{"client and server share one process and clock; the register model's initial value is the node's initial value 0"}}
			if tier == "thorough" {
				p.Batches, p.TimeoutS, p.MinNontrivial = 16, 3400, 1000
			}
			return p
		},
		Run: c34Run,
		Replay: func(c *fw.Ctx, raw json.RawMessage) error {
			var h c34Hist
			if err := json.Unmarshal(raw, &h); err != nil {
				return err
			}
			res, _ := c34Check(h.Recs, 120*time.Second)
			c.Eval(int64(len(h.Recs)))
			if res == porcupine.Illegal {
				c.Violation("c34:not-linearizable:"+h.Kind+"-namespace", "the recorded history is not linearizable (offline re-check of the witness)", h)
			}
			return nil
		},
	})
}
