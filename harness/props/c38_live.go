package props

import (
	"context"
	"fmt"
	"io"
	"strings"
	"time"

	"github.com/gopcua/opcua/ua"
	"github.com/gopcua/opcua/uacp"
	"github.com/gopcua/opcua/uapolicy"
	"github.com/gopcua/opcua/uasc"

	"verifharness/fw"
	"verifharness/keys"
	"verifharness/refpeer"
)

// C38 on live channels. The arithmetic part (c38_maxbody.go) asks a fresh channel instance for its maximum; a channel
// that is really opened goes through a history (a client instance sizes itself for the asymmetric algorithm of the
// OPN exchange first and for the symmetric one afterwards; a server instance is sized when the request is handled).
// Here a real client channel / a real server channel sends a message of several chunks to the independent peer, which
// reports for every chunk its length on the wire and the body bytes it carried. The body of an intermediate chunk is
// "the maximum size the channel places into one chunk": the chunk must fit the negotiated size, and in SignAndEncrypt
// one more body byte must not (layout arithmetic of the observer).

type c38LiveCase struct {
	Side      string `json:"side"` // client-channel | server-channel
	Policy    string `json:"policy"`
	Mode      int    `json:"mode"`
	ChunkSize int    `json:"negotiated_chunk_size"`
	OtherBuf  int    `json:"buffer_of_the_other_direction"`
	Payload   int    `json:"payload"`
	Renewed   bool   `json:"after_a_renewal"`
	Detail    string `json:"detail,omitempty"`
	Chunks    string `json:"chunks_len_body,omitempty"`
}

func c38LiveJudge(c *fw.Ctx, cs c38LiveCase, obs []refpeer.Obs) {
	sig := 0
	if cs.Mode != refpeer.ModeNone {
		sig = refpeer.PolicyByURI(cs.Policy).SymSigLen
	}
	size := func(body int) int {
		switch cs.Mode {
		case refpeer.ModeSignAndEncrypt:
			return 16 + 16*((8+body+sig+1+15)/16)
		case refpeer.ModeSign:
			return 16 + 8 + body + sig
		}
		return 24 + body
	}
	var d []string
	for _, o := range obs {
		d = append(d, fmt.Sprintf("%c:%d/%d", o.ChunkType, o.Len, o.Body))
	}
	cs.Chunks = strings.Join(d, " ")
	c.Eval(1)
	c.Class(fmt.Sprintf("live:%s:mode=%d", cs.Side, cs.Mode), 1)
	c.Nontrivial(fmt.Sprintf("live/%s/%s/%d/%d/%v", cs.Side, cs.Policy, cs.Mode, cs.ChunkSize, cs.Renewed))
	if len(obs) < 2 {
		c.Class("live:message-in-one-chunk-not-judged", 1)
		return
	}
	inter := -1
	for i, o := range obs {
		if o.Len > cs.ChunkSize {
			cs.Detail = fmt.Sprintf("chunk %d of %d has %d bytes, the negotiated chunk size is %d", i+1, len(obs), o.Len, cs.ChunkSize)
			c.Violation(fmt.Sprintf("live:%s:max-body-does-not-fit:mode=%d", cs.Side, cs.Mode), cs.Detail, cs)
			return
		}
		if cs.Mode == refpeer.ModeSignAndEncrypt && (o.Len-16)%16 != 0 {
			cs.Detail = fmt.Sprintf("chunk %d: encrypted region of %d bytes is not a whole number of cipher blocks", i+1, o.Len-16)
			c.Violation("live:"+cs.Side+":not-whole-blocks", cs.Detail, cs)
			return
		}
		if i == len(obs)-1 {
			break
		}
		if inter >= 0 && o.Body != inter {
			cs.Detail = fmt.Sprintf("intermediate chunks carry %d and %d body bytes", inter, o.Body)
			c.Violation("live:"+cs.Side+":intermediate-chunks-differ", cs.Detail, cs)
			return
		}
		inter = o.Body
	}
	c.Max("live_chunk_fill_ratio", float64(obs[0].Len)/float64(cs.ChunkSize), cs)
	if cs.Mode == refpeer.ModeSignAndEncrypt && size(inter+1) <= cs.ChunkSize {
		cs.Detail = fmt.Sprintf("the channel places at most %d body bytes into a chunk (%d bytes on the wire), but %d body bytes give a chunk of %d <= %d", inter, obs[0].Len, inter+1, size(inter+1), cs.ChunkSize)
		c.Violation("live:"+cs.Side+":max-body-not-maximal", cs.Detail, cs)
	}
}

func c38LiveClient(c *fw.Ctx, cs c38LiveCase) {
	sk, ck := keys.Get("b", 2048), keys.Get("a", 2048)
	so := refpeer.ServerOpts{Ack: refpeer.Ack{RecvBuf: uint32(cs.ChunkSize), SendBuf: uint32(cs.OtherBuf)}}
	cfg := &uasc.Config{SecurityPolicyURI: ua.SecurityPolicyURINone, SecurityMode: ua.MessageSecurityModeNone, Lifetime: 3600000, RequestTimeout: 10 * time.Minute}
	if cs.Mode != refpeer.ModeNone {
		so.Policy, so.Mode, so.Key, so.Cert = refpeer.PolicyByURI(cs.Policy), cs.Mode, sk.Key, sk.Cert
		cfg.SecurityPolicyURI, cfg.SecurityMode = cs.Policy, ua.MessageSecurityMode(cs.Mode)
		cfg.Certificate, cfg.LocalKey, cfg.RemoteCertificate, cfg.Thumbprint = ck.Cert, ck.Key, sk.Cert, uapolicy.Thumbprint(sk.Cert)
	}
	srv, err := refpeer.NewServer(so)
	if err != nil {
		c.Inconclusive("listen: " + err.Error())
		return
	}
	defer srv.Close()
	seen := make(chan []refpeer.Obs, 4)
	srv.Handler = func(sc *refpeer.SrvConn, m *refpeer.Msg) {
		req, ok := m.Service.(*ua.WriteRequest)
		if !ok {
			return
		}
		seen <- append([]refpeer.Obs{}, m.Obs...)
		sc.Channel.SendService("MSG", m.ReqID, &ua.WriteResponse{ResponseHeader: refpeer.RespHeader(req, ua.StatusOK), Results: []ua.StatusCode{ua.StatusOK}}, refpeer.SendOpts{})
	}
	ctx, cancel := context.WithCancel(context.Background())
	defer cancel()
	d := &uacp.Dialer{ClientACK: &uacp.Acknowledge{ReceiveBufSize: uint32(cs.OtherBuf), SendBufSize: uint32(cs.ChunkSize + 4096)}}
	conn, err := d.Dial(ctx, srv.Endpoint())
	if err != nil {
		c.Inconclusive("dial: " + err.Error())
		return
	}
	defer conn.Close()
	sc, err := uasc.NewSecureChannel(srv.Endpoint(), conn, cfg, make(chan error, 64))
	if err == nil {
		err = sc.Open(ctx)
	}
	if err != nil {
		c.Inconclusive("open: " + classOf(err.Error()))
		return
	}
	defer sc.Close()
	if cs.Renewed {
		if err := sc.Renew(ctx); err != nil {
			c.Inconclusive("renew: " + classOf(err.Error()))
			return
		}
	}
	req := &ua.WriteRequest{NodesToWrite: []*ua.WriteValue{{NodeID: ua.NewNumericNodeID(1, 1), AttributeID: ua.AttributeIDValue, Value: &ua.DataValue{EncodingMask: ua.DataValueValue, Value: ua.MustVariant(make([]byte, cs.Payload))}}}}
	done := make(chan error, 1)
	go func() { done <- sc.SendRequest(ctx, req, nil, func(ua.Response) error { return nil }) }()
	var obs []refpeer.Obs
	beats := fw.Heartbeats()
	for obs == nil {
		select {
		case obs = <-seen:
		case err := <-done:
			if err != nil {
				c.Inconclusive("the request failed: " + classOf(err.Error()))
				return
			}
		case <-time.After(time.Millisecond):
			if fw.Heartbeats()-beats > 8000 {
				c.Inconclusive("the reference server did not see the request")
				return
			}
		}
	}
	c38LiveJudge(c, cs, obs)
}

func c38LiveServer(c *fw.Ctx, cs c38LiveCase) {
	// gopcua's send buffer is the negotiated size of the server->client direction when the client's receive buffer is larger
	bs, err := newBareServer(&uacp.Acknowledge{ReceiveBufSize: uint32(cs.OtherBuf), SendBufSize: uint32(cs.ChunkSize + 4096)})
	if err != nil {
		c.Inconclusive("listen: " + err.Error())
		return
	}
	defer bs.l.Close()
	sk, ck := keys.Get("b", 2048), keys.Get("a", 2048)
	cfg := &uasc.Config{SecurityPolicyURI: ua.SecurityPolicyURINone, SecurityMode: ua.MessageSecurityModeNone, Lifetime: 3600000, Certificate: sk.Cert, LocalKey: sk.Key}
	type accRes struct {
		sc   *uasc.SecureChannel
		conn *uacp.Conn
		err  error
	}
	acc := make(chan accRes, 1)
	go func() {
		sc, conn, err := bs.accept(cfg, 78, 1, 5)
		acc <- accRes{sc, conn, err}
	}()
	sec := refpeer.Security{Mode: refpeer.ModeNone}
	if cs.Mode != refpeer.ModeNone {
		sec = refpeer.Security{Policy: refpeer.PolicyByURI(cs.Policy), Mode: cs.Mode, LocalKey: ck.Key, LocalCert: ck.Cert, RemoteCert: sk.Cert}
	}
	// the client receives chunks of at most cs.ChunkSize and sends chunks of at most cs.OtherBuf
	ch, ack, err := refpeer.Dial(strings.TrimPrefix(bs.ep, "opc.tcp://"), refpeer.ClientOpts{Sec: sec, Hello: refpeer.Hello{RecvBuf: uint32(cs.ChunkSize), SendBuf: uint32(cs.OtherBuf)}})
	a := <-acc
	if err != nil || a.err != nil {
		c.Inconclusive(fmt.Sprintf("set-up: %v / %v", err, a.err))
		return
	}
	defer ch.Close()
	defer a.conn.Close()
	if int(ack.SendBuf) != cs.ChunkSize {
		c.Inconclusive(fmt.Sprintf("acknowledged send buffer %d, wanted %d", ack.SendBuf, cs.ChunkSize))
		return
	}
	ctx, cancel := context.WithCancel(context.Background())
	defer cancel()
	go func() {
		for {
			msg := a.sc.Receive(ctx)
			if msg.Err == io.EOF || ctx.Err() != nil {
				return
			}
			if msg.Err != nil {
				if _, ok := msg.Err.(ua.StatusCode); !ok {
					return
				}
				continue
			}
			if req, ok := msg.Request().(*ua.ReadRequest); ok {
				resp := &ua.ReadResponse{ResponseHeader: &ua.ResponseHeader{Timestamp: time.Now(), RequestHandle: req.RequestHeader.RequestHandle, ServiceDiagnostics: &ua.DiagnosticInfo{}, StringTable: []string{}, AdditionalHeader: ua.NewExtensionObject(nil)},
					Results: []*ua.DataValue{{EncodingMask: ua.DataValueValue, Value: ua.MustVariant(make([]byte, cs.Payload))}}}
				a.sc.SendResponseWithContext(ctx, msg.RequestID, resp)
			}
		}
	}()
	ch.Conn.SetReadDeadline(time.Now().Add(60 * time.Second))
	if _, err := ch.Open(false, 3600000); err != nil {
		c.Inconclusive("open: " + tailStr(err.Error(), 60))
		return
	}
	if cs.Renewed {
		if _, err := ch.Open(true, 3600000); err != nil {
			c.Inconclusive("renew: " + tailStr(err.Error(), 60))
			return
		}
	}
	ch.MyRecvBuf = 16 << 20 // sizes are judged, not enforced, by the observer
	reqID, err := ch.SendRequest(&ua.ReadRequest{NodesToRead: []*ua.ReadValueID{{NodeID: ua.NewNumericNodeID(1, 1), AttributeID: ua.AttributeIDValue, DataEncoding: &ua.QualifiedName{}}}}, nil, refpeer.SendOpts{})
	if err != nil {
		c.Inconclusive("reference client send: " + err.Error())
		return
	}
	ch.Conn.SetReadDeadline(time.Now().Add(120 * time.Second))
	for {
		m, err := ch.ReadMsg()
		if err != nil {
			c.Inconclusive("reference client read: " + classOf(err.Error()))
			return
		}
		if m.ReqID == reqID && m.Type == "MSG" {
			c38LiveJudge(c, cs, m.Obs)
			return
		}
	}
}

func c38LiveRun(c *fw.Ctx, base int64) {
	type pm struct {
		uri  string
		mode int
	}
	pms := []pm{{refpeer.URINone, refpeer.ModeNone}}
	for _, p := range refpeer.Policies {
		pms = append(pms, pm{p.URI, refpeer.ModeSign}, pm{p.URI, refpeer.ModeSignAndEncrypt}, pm{p.URI, refpeer.ModeSignAndEncrypt})
	}
	n := int64(c.Pick(96, 3000))
	for k := int64(0); k < n; k++ {
		i := base + k
		if int(i%int64(c.NBatch)) != c.Batch || i < c.Resume {
			continue
		}
		r := c.Rng("c38live", k)
		x := pms[int(k)%len(pms)]
		cs := c38LiveCase{Side: []string{"client-channel", "server-channel"}[(k/int64(len(pms)))%2], Policy: x.uri, Mode: x.mode, Renewed: r.Intn(3) == 0}
		switch r.Intn(4) {
		case 0:
			cs.ChunkSize = 8192 + r.Intn(64)
		case 1:
			cs.ChunkSize = 65535 - r.Intn(2)*r.Intn(64)
		default:
			cs.ChunkSize = 8192 + r.Intn(120000)
		}
		// the buffer of the other direction differs, so that a channel sized by the wrong direction shows
		cs.OtherBuf = []int{8192, 16384, 65535, cs.ChunkSize + 16 + r.Intn(30000), 8192 + r.Intn(cs.ChunkSize-8191)}[r.Intn(5)]
		cs.Payload = 2*cs.ChunkSize + r.Intn(cs.ChunkSize)
		c.Journal(i, cs)
		if cs.Side == "client-channel" {
			c38LiveClient(c, cs)
		} else {
			c38LiveServer(c, cs)
		}
		c.Done(i)
	}
}
