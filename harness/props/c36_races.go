package props

import (
	"context"
	"fmt"
	"os"
	"path/filepath"
	"runtime"
	"strings"
	"sync"
	"time"

	"github.com/gopcua/opcua"
	"github.com/gopcua/opcua/monitor"
	"github.com/gopcua/opcua/server"
	"github.com/gopcua/opcua/ua"

	"verifharness/fw"
)

// C36: client, channel and server are free of data races. The worker is built with -race; it re-runs the concurrent
// workloads of the other properties (their own oracles are ignored here) plus in-process fan-out workloads that put
// no socket between the racing accesses. The driver parses the race detector's reports: each distinct pair of
// gopcua frames is one finding.

var c36Sub = []string{"C11", "C18", "C34", "C29", "C12", "C20", "C10", "C16", "C19", "C25", "C26", "C27", "C28"}

func c36RunSub(c *fw.Ctx, id string, batch, nbatch int) {
	spec, ok := fw.Lookup(id)
	if !ok {
		return
	}
	dir := filepath.Join(c.Dir, "sub-"+id)
	sub, err := fw.NewCtx(id, "quick", c.Seed, batch, nbatch, dir, 0)
	if err != nil {
		return
	}
	t0 := time.Now()
	if pn := fw.Catch(func() { spec.Run(sub) }); pn != nil {
		c.Inconclusive("workload " + id + " panicked in the harness goroutine: " + pn.Msg)
	}
	n := sub.Evaluations()
	c.Eval(n)
	c.Class("workload:"+id+":evaluations", n)
	c.Class("workload:"+id+":seconds", int64(time.Since(t0).Seconds()))
	c.Nontrivial(fmt.Sprintf("%s/%d/%d", id, batch, nbatch))
	os.RemoveAll(dir)
}

// c36Fanout: concurrent use of the public APIs inside one process.
func c36Fanout(c *fw.Ctx, round int64) {
	rs, err := startRealServer(srvCfg{Vars: 4})
	if err != nil {
		c.Inconclusive("server start: " + err.Error())
		return
	}
	defer rs.Srv.Close()
	mns := server.NewMapNamespace(rs.Srv, "racemap")
	mns.Mu.Lock()
	mns.Data["t0"], mns.Data["t1"] = int64(0), int64(0)
	mns.Mu.Unlock()
	ctx, cancel := context.WithTimeout(context.Background(), 40*time.Second)
	defer cancel()
	mk := func() *opcua.Client {
		cl, err := opcua.NewClient(rs.Endpoint, opcua.SecurityMode(ua.MessageSecurityModeNone), opcua.AutoReconnect(true), opcua.ReconnectInterval(50*time.Millisecond), opcua.RequestTimeout(3*time.Second))
		if err == nil {
			err = cl.Connect(ctx)
		}
		if err != nil {
			return nil
		}
		return cl
	}
	var wg sync.WaitGroup
	stop := make(chan struct{})
	run := func(f func(k int)) {
		wg.Add(1)
		go func() {
			defer wg.Done()
			for k := 0; ; k++ {
				select {
				case <-stop:
					return
				default:
				}
				f(k)
			}
		}()
	}
	// server side: the application changes values and attributes while clients read, write, browse and subscribe
	run(func(k int) {
		rs.Vars[k%4].SetAttribute(ua.AttributeIDValue, &ua.DataValue{EncodingMask: ua.DataValueValue, Value: ua.MustVariant(int64(k))})
		rs.Srv.ChangeNotification(rs.Vars[k%4].ID())
		mns.SetValue("t0", int64(k))
		_ = mns.GetValue("t1")
		time.Sleep(200 * time.Microsecond)
	})
	run(func(k int) {
		n := rwVar(rs.NS, fmt.Sprintf("added-%d-%d", round, k), int64(k))
		_ = n.Value()
		time.Sleep(2 * time.Millisecond)
	})
	var clients []*opcua.Client
	for i := 0; i < 3; i++ {
		if cl := mk(); cl != nil {
			clients = append(clients, cl)
		}
	}
	for ci, cl := range clients {
		ci, cl := ci, cl
		run(func(k int) {
			id := rs.Vars[(k+ci)%4].ID()
			if k%3 == 0 {
				id = ua.NewStringNodeID(mns.ID(), "t1")
			}
			cl.Write(ctx, &ua.WriteRequest{NodesToWrite: []*ua.WriteValue{{NodeID: id, AttributeID: ua.AttributeIDValue, Value: &ua.DataValue{EncodingMask: ua.DataValueValue, Value: ua.MustVariant(int64(k))}}}})
			cl.Read(ctx, &ua.ReadRequest{NodesToRead: []*ua.ReadValueID{{NodeID: id, AttributeID: ua.AttributeIDValue}, {NodeID: ua.NewStringNodeID(mns.ID(), "t0"), AttributeID: ua.AttributeIDValue}}})
			cl.Browse(ctx, &ua.BrowseRequest{NodesToBrowse: []*ua.BrowseDescription{{NodeID: rs.NS.Objects().ID(), BrowseDirection: ua.BrowseDirectionBoth, ReferenceTypeID: ua.NewNumericNodeID(0, 0), IncludeSubtypes: true, ResultMask: 0x3f}}})
		})
		// subscriptions come and go on the same client while it is used for requests
		run(func(k int) {
			ch := make(chan *opcua.PublishNotificationData, 64)
			sub, err := cl.Subscribe(ctx, &opcua.SubscriptionParameters{Interval: 5 * time.Millisecond}, ch)
			if err != nil {
				time.Sleep(5 * time.Millisecond)
				return
			}
			sub.Monitor(ctx, ua.TimestampsToReturnBoth, opcua.NewMonitoredItemCreateRequestWithDefaults(rs.Vars[k%4].ID(), ua.AttributeIDValue, uint32(k)))
			deadline := time.After(time.Duration(10+k%20) * time.Millisecond)
		drain:
			for {
				select {
				case <-ch:
				case <-deadline:
					break drain
				}
			}
			_ = sub.Stats
			sub.Cancel(ctx)
		})
	}
	// the node monitor with nodes added and removed during traffic
	if len(clients) > 0 {
		if nm, err := monitor.NewNodeMonitor(clients[0]); err == nil {
			mch := make(chan *monitor.DataChangeMessage, 256)
			msub, err := nm.ChanSubscribe(ctx, &opcua.SubscriptionParameters{Interval: 5 * time.Millisecond}, mch, rs.Vars[0].ID().String())
			if err == nil {
				run(func(k int) {
					select {
					case <-mch:
					case <-time.After(time.Millisecond):
					}
				})
				run(func(k int) {
					id := rs.Vars[1+k%3].ID().String()
					msub.AddNodes(ctx, id)
					_ = msub.Subscribed()
					_ = msub.Delivered()
					msub.RemoveNodes(ctx, id)
				})
				defer msub.Unsubscribe(context.Background())
				// a second subscription of the same node monitor adds and removes nodes at the same time
				mch2 := make(chan *monitor.DataChangeMessage, 256)
				if msub2, err := nm.ChanSubscribe(ctx, &opcua.SubscriptionParameters{Interval: 5 * time.Millisecond}, mch2, rs.Vars[1].ID().String()); err == nil {
					run(func(k int) {
						select {
						case <-mch2:
						case <-time.After(time.Millisecond):
						}
					})
					run(func(k int) {
						id := rs.Vars[(2+k)%4].ID().String()
						msub2.AddNodes(ctx, id)
						_ = msub2.Dropped()
						msub2.RemoveNodes(ctx, id)
					})
					defer msub2.Unsubscribe(context.Background())
				}
			}
		}
	}
	// state readers and a connection drop in the middle: the reconnect monitor runs against the API users
	for _, cl := range clients {
		cl := cl
		run(func(k int) {
			_ = cl.State()
			_ = cl.SecureChannel()
			_ = cl.Session()
			_ = cl.SubscriptionIDs()
			time.Sleep(300 * time.Microsecond)
		})
	}
	// token renewals on a channel that is busy in both directions (client and server side of the renewal)
	if len(clients) > 1 {
		cl := clients[len(clients)-1]
		run(func(k int) {
			if sc := cl.SecureChannel(); sc != nil {
				sc.Renew(ctx)
			}
			time.Sleep(15 * time.Millisecond)
		})
	}
	time.Sleep(300 * time.Millisecond)
	for _, sc := range rs.Srv.VerifChannels() {
		sc.Close() // the server drops its channels: clients reconnect while everything above keeps going
		break
	}
	time.Sleep(500 * time.Millisecond)
	close(stop)
	cancel() // calls in flight return
	done := make(chan struct{})
	go func() { wg.Wait(); close(done) }()
	select {
	case <-done:
	case <-time.After(20 * time.Second):
		buf := make([]byte, 4<<20)
		dump := string(buf[:runtime.Stack(buf, true)])
		c.Inconclusive("fan-out goroutines did not stop within 20 s")
		c.Sample(map[string]string{"goroutines_still_inside_gopcua_after_stop": repoGoroutinesPlain(dump, 6000)})
	}
	for _, cl := range clients {
		cctx, ccancel := context.WithTimeout(context.Background(), 2*time.Second)
		cl.Close(cctx)
		ccancel()
	}
	c.Eval(1)
	c.Class("workload:in-process-fan-out", 1)
	c.Nontrivial(fmt.Sprintf("fanout-%d", round))
}

func c36Run(c *fw.Ctx) error {
	// every batch takes a slice of each workload: batch b of the quick plan of the sub-property, out of nb
	for i, id := range c36Sub {
		if _, ok := fw.Lookup(id); !ok {
			continue
		}
		plan := func() fw.Plan { s, _ := fw.Lookup(id); return s.Plan("quick") }()
		nb := plan.Batches
		if c.Quick() {
			// quick: one slice of each workload, spread over the batches of this check
			if i%c.NBatch == c.Batch {
				c36RunSub(c, id, 0, nb*2)
			}
			continue
		}
		for b := 0; b < nb; b++ {
			if (i+b)%c.NBatch == c.Batch {
				c36RunSub(c, id, b, nb)
			}
		}
	}
	rounds := int64(c.Pick(4, 40))
	for r := int64(0); r < rounds; r++ {
		if int(r)%c.NBatch == c.Batch {
			c36Fanout(c, r)
		}
	}
	return nil
}

func init() {
	fw.Register("C36", fw.Spec{
		Plan: func(tier string) fw.Plan {
			p := fw.Plan{Batches: 8, TimeoutS: 1500, MinNontrivial: 6, Level: "exploration", Race: true, Parallel: 4,
				Rule:        "the worker is built with -race (GORACE halt_on_error=0, log per process, children included) and re-runs slices of the concurrent workloads of C10, C11, C12, C16, C18, C19, C20, C25-C29 and C34 (their hook-point delays included, their own oracles ignored) plus in-process fan-out rounds without sockets between the racing accesses: application goroutines changing values, attributes and adding nodes, 3 auto-reconnecting clients each with concurrent Read/Write/Browse, Subscribe/Monitor/Cancel loops, state readers and a NodeMonitor with AddNodes/RemoveNodes, and a server-side channel drop in the middle; oracle: zero race reports with a gopcua frame, de-duplicated by the pair of top gopcua frames; evaluations = sub-workload evaluations",
				Assumptions: []string{"the race detector sees only executed interleavings; socket I/O between two accesses creates a happens-before edge that hides races (the fan-out rounds and hook delays compensate)"}}
			if tier == "thorough" {
				p.Batches, p.TimeoutS, p.MinNontrivial, p.Parallel = 16, 3400, 40, 8
			}
			return p
		},
		Run: c36Run,
	})
}

// repoGoroutinesPlain filters a runtime.Stack(all) dump down to goroutines with a gopcua frame, without file lines.
func repoGoroutinesPlain(dump string, max int) string {
	var b strings.Builder
	for _, g := range strings.Split(dump, "\n\n") {
		if !strings.Contains(g, "github.com/gopcua/opcua") || strings.Contains(g, "c36Fanout.func") && !strings.Contains(g, "opcua.(*") && !strings.Contains(g, "server.(*") && !strings.Contains(g, "monitor.(*") {
			continue
		}
		for _, line := range strings.Split(g, "\n") {
			if !strings.HasPrefix(line, "\t") {
				b.WriteString(line + "\n")
			}
		}
		b.WriteString("\n")
	}
	return tailStr(b.String(), max)
}
