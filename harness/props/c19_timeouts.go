package props

import (
	"context"
	"encoding/json"
	"fmt"
	"math/rand"
	"net"
	"runtime"
	"sync"
	"sync/atomic"
	"time"

	"github.com/gopcua/opcua/ua"
	"github.com/gopcua/opcua/uacp"
	"github.com/gopcua/opcua/uasc"

	"verifharness/fw"
	"verifharness/refpeer"
)

// C19: request timeouts are bounded and never wedge the channel. A real client-kind channel talks to the scripted
// server, which withholds answers or releases them exactly when the hook points report that the caller's timer has
// fired / the dispatcher has taken the handler. Durations are counted in heartbeats of this process.

type c19Case struct {
	Index     int64  `json:"index"`
	Scenario  string `json:"scenario"`
	TimeoutMS int    `json:"request_timeout_ms"`
	Seed      int64  `json:"seed"`
	Detail    string `json:"detail,omitempty"`
}

type c19Ctl struct {
	mu            sync.Mutex
	armCaller     bool // park the next goroutine that reaches sc.timeout.fired / sc.ctx.done
	armDisp       bool // park the dispatcher at its next sc.disp.afterPop
	callerParked  chan struct{}
	releaseCaller chan struct{}
	dispParked    chan struct{}
	releaseDisp   chan struct{}
	hits          map[string]int64
}

func newC19Ctl() *c19Ctl {
	return &c19Ctl{hits: map[string]int64{}}
}

func (k *c19Ctl) arm(caller, disp bool) {
	k.mu.Lock()
	k.armCaller, k.armDisp = caller, disp
	k.callerParked, k.releaseCaller = make(chan struct{}), make(chan struct{})
	k.dispParked, k.releaseDisp = make(chan struct{}), make(chan struct{})
	k.mu.Unlock()
}

func (k *c19Ctl) hook(point string) {
	k.mu.Lock()
	k.hits[point]++
	var parked, release chan struct{}
	switch point {
	case "sc.timeout.fired", "sc.ctx.done":
		if k.armCaller {
			k.armCaller = false
			parked, release = k.callerParked, k.releaseCaller
		}
	case "sc.disp.afterPop":
		if k.armDisp {
			k.armDisp = false
			parked, release = k.dispParked, k.releaseDisp
		}
	}
	k.mu.Unlock()
	if parked != nil {
		close(parked)
		select {
		case <-release:
		case <-time.After(3 * time.Second): // never hold the code under test for good
		}
	}
}

func waitCh(ch chan struct{}, d time.Duration) bool {
	select {
	case <-ch:
		return true
	case <-time.After(d):
		return false
	}
}

type c19Env struct {
	srv     *refpeer.Server
	sc      *uasc.SecureChannel
	conn    *uacp.Conn
	ctl     *c19Ctl
	mu      sync.Mutex
	held    map[string]func() // nonce -> send the answer now
	opnGo   chan struct{}     // when non-nil, renewal OPNs are answered only after it is closed
	stall   chan struct{}     // a request "stall-..." parks the server's read loop until this is closed
	timeout time.Duration
}

func c19Setup(cs c19Case) (*c19Env, error) {
	e := &c19Env{ctl: newC19Ctl(), held: map[string]func(){}, stall: make(chan struct{}), timeout: time.Duration(cs.TimeoutMS) * time.Millisecond}
	srv, err := refpeer.NewServer(refpeer.ServerOpts{})
	if err != nil {
		return nil, err
	}
	e.srv = srv
	srv.Handler = func(sc *refpeer.SrvConn, m *refpeer.Msg) {
		req, ok := m.Service.(*ua.ReadRequest)
		if !ok {
			return
		}
		nonce := nonceOf(req)
		reply := func() {
			sc.Reply(m, &ua.ReadResponse{ResponseHeader: refpeer.RespHeader(req, ua.StatusOK), Results: []*ua.DataValue{{EncodingMask: ua.DataValueValue, Value: ua.MustVariant(nonce)}}})
		}
		switch {
		case len(nonce) > 5 && nonce[:5] == "hold-":
			e.mu.Lock()
			e.held[nonce] = reply
			e.mu.Unlock()
		case len(nonce) > 5 && nonce[:5] == "drop-":
		case len(nonce) > 6 && nonce[:6] == "stall-":
			// the peer is alive but stops reading: small socket buffer, read loop parked
			if tc, ok := sc.Channel.Conn.(*net.TCPConn); ok {
				tc.SetReadBuffer(16 << 10)
			}
			<-e.stall
		default:
			reply()
		}
	}
	srv.OnOpen = func(sc *refpeer.SrvConn, m *refpeer.Msg, renew bool) bool {
		e.mu.Lock()
		gate := e.opnGo
		e.mu.Unlock()
		if renew && gate != nil {
			go func() {
				<-gate
				sc.AnswerOpen(m, srv.Opts)
			}()
			return false
		}
		return true
	}
	ctx, cancel := context.WithTimeout(context.Background(), 10*time.Second)
	defer cancel()
	conn, err := uacp.Dial(ctx, srv.Endpoint())
	if err != nil {
		srv.Close()
		return nil, err
	}
	cfg := &uasc.Config{SecurityPolicyURI: ua.SecurityPolicyURINone, SecurityMode: ua.MessageSecurityModeNone, Lifetime: 3600000, RequestTimeout: e.timeout}
	sc, err := uasc.NewSecureChannel(srv.Endpoint(), conn, cfg, make(chan error, 256))
	if err == nil {
		err = sc.Open(ctx)
	}
	if err != nil {
		conn.Close()
		srv.Close()
		return nil, err
	}
	e.sc, e.conn = sc, conn
	uasc.VerifSetHook(e.ctl.hook)
	return e, nil
}

func (e *c19Env) close() {
	uasc.VerifSetHook(nil)
	select {
	case <-e.stall:
	default:
		close(e.stall)
	}
	e.sc.Close()
	e.conn.Close()
	e.srv.Close()
}

func (e *c19Env) release(nonce string) bool {
	for i := 0; i < 400; i++ {
		e.mu.Lock()
		f := e.held[nonce]
		delete(e.held, nonce)
		e.mu.Unlock()
		if f != nil {
			f()
			return true
		}
		time.Sleep(time.Millisecond)
	}
	return false
}

type c19Call struct {
	nonce string
	got   string
	err   error
	beats int64
	done  chan struct{}
}

func (e *c19Env) read(ctx context.Context, nonce string) *c19Call { return e.readT(ctx, nonce, 0) }

// readT: timeout 0 = the request timeout of the channel
func (e *c19Env) readT(ctx context.Context, nonce string, timeout time.Duration) *c19Call {
	c := &c19Call{nonce: nonce, done: make(chan struct{})}
	go func() {
		defer close(c.done)
		b0 := fw.Heartbeats()
		req := &ua.ReadRequest{NodesToRead: []*ua.ReadValueID{{NodeID: ua.NewStringNodeID(1, nonce), AttributeID: ua.AttributeIDValue, DataEncoding: &ua.QualifiedName{}}}}
		send := e.sc.SendRequest
		if timeout > 0 {
			send = func(ctx context.Context, req ua.Request, tok *ua.NodeID, h uasc.ResponseHandler) error {
				return e.sc.SendRequestWithTimeout(ctx, req, tok, timeout, h)
			}
		}
		c.err = send(ctx, req, nil, func(v ua.Response) error {
			if rr, ok := v.(*ua.ReadResponse); ok && len(rr.Results) == 1 && rr.Results[0].Value != nil {
				c.got, _ = rr.Results[0].Value.Value().(string)
			}
			return nil
		})
		c.beats = fw.Heartbeats() - b0
	}()
	return c
}

// blockedDump returns the gopcua goroutines of this process.
func blockedDump() string { return blockedDumpN(5000) }

func blockedDumpN(max int) string {
	buf := make([]byte, 8<<20)
	return repoGoroutinesPlain(string(buf[:runtime.Stack(buf, true)]), max)
}

func c19One(c *fw.Ctx, cs c19Case) {
	r := rand.New(rand.NewSource(cs.Seed))
	e, err := c19Setup(cs)
	if err != nil {
		c.Inconclusive("set-up: " + classOf(err.Error()))
		return
	}
	defer e.close()
	fw.Heartbeats()
	bg := context.Background()
	limit := int64(3 * (cs.TimeoutMS + 250)) // heartbeats <= elapsed milliseconds
	var calls []*c19Call
	forced := false
	bounded := func(call *c19Call, what string) bool {
		// a call parked by the harness is not timed
		if !waitForBeats(call.done, 4*limit+3000) {
			cs.Detail = fmt.Sprintf("%s: the call for %s has not returned after %d heartbeats (timeout %d ms)\n%s", what, call.nonce, 4*limit+3000, cs.TimeoutMS, blockedDump())
			c.Violation("c19:call-never-returns:"+cs.Scenario, cs.Detail, cs)
			return false
		}
		return true
	}
	switch cs.Scenario {
	case "withheld":
		// several requests whose answers never come, mixed with answered ones
		for k := 0; k < 6; k++ {
			calls = append(calls, e.read(bg, fmt.Sprintf("drop-%d", k)), e.read(bg, fmt.Sprintf("ok-%d", k)))
		}
		for _, call := range calls {
			if !bounded(call, "withheld answers") {
				return
			}
			if call.nonce[:4] == "drop" {
				if call.err == nil {
					cs.Detail = "a call whose answer was never sent succeeded"
					c.Violation("c19:success-without-answer", cs.Detail, cs)
					return
				}
				c.Max("max_heartbeats_until_timeout_per_ms_of_timeout", float64(call.beats)/float64(cs.TimeoutMS), nil)
				if call.beats > limit {
					cs.Detail = fmt.Sprintf("the call for %s returned after %d heartbeats (>= %d ms); timeout %d ms + 250 ms leniency, bound used 3x = %d", call.nonce, call.beats, call.beats, cs.TimeoutMS, limit)
					c.Violation("c19:timeout-not-bounded", cs.Detail, cs)
					return
				}
			}
		}
	case "answer-near-timeout":
		// answers released at random moments around the caller's timer (timeout + 250 ms leniency)
		for k := 0; k < 8; k++ {
			call := e.read(bg, fmt.Sprintf("hold-%d", k))
			calls = append(calls, call)
			d := time.Duration(cs.TimeoutMS+250)*time.Millisecond + time.Duration(r.Intn(40)-20)*time.Millisecond
			go func(n string) { time.Sleep(d); e.release(n) }(call.nonce)
		}
		for _, call := range calls {
			if !bounded(call, "answer near the timeout") {
				return
			}
			if call.err == nil && call.got != call.nonce {
				cs.Detail = fmt.Sprintf("the call for %s returned %q", call.nonce, call.got)
				c.Violation("c19:foreign-response", cs.Detail, cs)
				return
			}
		}
	case "late-answer-forced", "cancel-forced":
		// the caller's timer fires (or its context ends) and it is parked before it takes its handler back; only then
		// the server answers, the dispatcher takes the handler and hands the response over; then the caller goes on
		forced = true
		for k := 0; k < 4; k++ {
			withDisp := k%2 == 1
			e.ctl.arm(true, withDisp)
			ctx, cancel := bg, context.CancelFunc(func() {})
			if cs.Scenario == "cancel-forced" {
				ctx, cancel = context.WithTimeout(bg, time.Duration(20+r.Intn(40))*time.Millisecond)
			}
			call := e.read(ctx, fmt.Sprintf("hold-f%d", k))
			calls = append(calls, call)
			if !waitCh(e.ctl.callerParked, time.Duration(cs.TimeoutMS+250)*time.Millisecond*4+3*time.Second) {
				c.Inconclusive("the caller never reached the hook point")
				cancel()
				continue
			}
			e.release(call.nonce)
			if withDisp {
				// the dispatcher is parked after it took the handler: the caller returns first
				waitCh(e.ctl.dispParked, time.Second)
				close(e.ctl.releaseCaller)
				<-call.done
				close(e.ctl.releaseDisp)
			} else {
				time.Sleep(5 * time.Millisecond) // the dispatcher hands the response over to the abandoned handler
				close(e.ctl.releaseCaller)
				<-call.done
			}
			cancel()
			c.Class("forced-races:"+cs.Scenario, 1)
		}
	case "late-renewal-answer-forced":
		// B.2: the renewal's OPN answer arrives when open() has timed out; the dispatcher must not wait for a lock nobody releases
		forced = true
		gate := make(chan struct{})
		e.mu.Lock()
		e.opnGo = gate
		e.mu.Unlock()
		e.ctl.arm(true, true)
		rdone := make(chan error, 1)
		go func() { rdone <- e.sc.Renew(bg) }()
		if !waitCh(e.ctl.callerParked, time.Duration(cs.TimeoutMS+250)*time.Millisecond*4+3*time.Second) {
			c.Inconclusive("the renewal never reached its timeout")
			close(gate)
			break
		}
		close(gate) // now the server answers the OPN
		waitCh(e.ctl.dispParked, time.Second)
		close(e.ctl.releaseCaller) // Renew returns with a timeout, open() has run its deferred unlock
		select {
		case <-rdone:
		case <-time.After(5 * time.Second):
			cs.Detail = "Renew did not return although its timer had fired\n" + blockedDump()
			c.Violation("c19:call-never-returns:"+cs.Scenario, cs.Detail, cs)
			return
		}
		time.Sleep(5 * time.Millisecond)
		close(e.ctl.releaseDisp) // the dispatcher goes on with the late OPN response
		e.mu.Lock()
		e.opnGo = nil
		e.mu.Unlock()
		c.Class("forced-races:"+cs.Scenario, 1)
	case "renewal-answer-withheld":
		// the renewal's OPN request is never answered: Renew fails with a timeout, and the channel goes on under the
		// token it has (the fresh requests below must complete)
		gate := make(chan struct{})
		defer close(gate)
		e.mu.Lock()
		e.opnGo = gate
		e.mu.Unlock()
		rdone := make(chan struct{})
		var rerr error
		go func() { rerr = e.sc.Renew(bg); close(rdone) }()
		if !waitForBeats(rdone, 4*limit+3000) {
			cs.Detail = fmt.Sprintf("Renew has not returned after %d heartbeats although its request timeout is %d ms\n%s", 4*limit+3000, cs.TimeoutMS, blockedDump())
			c.Violation("c19:call-never-returns:"+cs.Scenario, cs.Detail, cs)
			return
		}
		if rerr == nil {
			c.Inconclusive("the renewal succeeded although its answer was withheld")
			return
		}
		c.Class("renewal-failed-with:"+classOf(rerr.Error()), 1)
	case "peer-stops-reading":
		// the peer is alive but no longer reads; a request of many chunks cannot be written out. Its caller must get an
		// error within the bound all the same (the write of every chunk is bounded, not only of the first), and the slot
		// is released. The byte stream ends in the middle of a chunk, so no later answers are expected on this channel.
		e.conn.SetWriteBuffer(16 << 10)
		first := e.read(bg, "stall-0")
		time.Sleep(20 * time.Millisecond)
		wdone := make(chan struct{})
		var werr error
		go func() {
			defer close(wdone)
			req := &ua.WriteRequest{NodesToWrite: []*ua.WriteValue{{NodeID: ua.NewNumericNodeID(1, 1), AttributeID: ua.AttributeIDValue,
				Value: &ua.DataValue{EncodingMask: ua.DataValueValue, Value: ua.MustVariant(make([]byte, (2+r.Intn(5))<<20))}}}}
			werr = e.sc.SendRequest(bg, req, nil, func(ua.Response) error { return nil })
		}()
		if !waitForBeats(wdone, 4*limit+6000) {
			cs.Detail = fmt.Sprintf("a request of many chunks to a peer that stopped reading has not returned after %d heartbeats (timeout %d ms)\n%s", 4*limit+6000, cs.TimeoutMS, blockedDump())
			c.Violation("c19:call-never-returns:"+cs.Scenario, cs.Detail, cs)
			return
		}
		if werr == nil {
			cs.Detail = "a request that the peer never read succeeded"
			c.Violation("c19:success-without-answer", cs.Detail, cs)
			return
		}
		c.Class("peer-stops-reading:request-failed-with:"+classOf(werr.Error()), 1)
		if !bounded(first, "peer stopped reading") {
			return
		}
		time.Sleep(20 * time.Millisecond)
		c.Eval(2)
		if n := e.sc.VerifPendingHandlers(); n != 0 {
			cs.Detail = fmt.Sprintf("%d handler slots are still registered after every call has returned", n)
			c.Violation("c19:pending-slot-not-released:"+cs.Scenario, cs.Detail, cs)
			return
		}
		c.Class("scenario-held:"+cs.Scenario, 1)
		return
	case "cancelled-before-send":
		// a request whose context has ended before anything was written must not leave a handler behind
		for k := 0; k < 6; k++ {
			ctx, cancel := context.WithCancel(bg)
			cancel()
			call := e.read(ctx, fmt.Sprintf("ok-c%d", k))
			if !bounded(call, "cancelled context") {
				return
			}
		}
		// such a request must not count as under way for good: the next renewal waits for the requests under way
		rdone := make(chan struct{})
		go func() { e.sc.Renew(bg); close(rdone) }()
		if !waitForBeats(rdone, 4*limit+3000) {
			cs.Detail = fmt.Sprintf("a renewal after requests that failed before they were sent has not returned after %d heartbeats\n%s", 4*limit+3000, blockedDump())
			c.Violation("c19:channel-wedged-after:"+cs.Scenario, cs.Detail, cs)
			return
		}
	}
	_ = forced
	// quiescence: every pending slot released, and the channel still delivers later responses
	time.Sleep(time.Duration(cs.TimeoutMS+300) * time.Millisecond)
	c.Eval(int64(len(calls) + 1))
	var fresh []*c19Call
	for k := 0; k < 10; k++ {
		// with a timeout of their own that a loaded machine cannot reach: whether the channel still delivers is judged
		// on the heartbeat clock below, not by the 100-300 ms of the scenario
		fresh = append(fresh, e.readT(bg, fmt.Sprintf("ok-fresh-%d", k), 2*time.Minute))
	}
	okN := 0
	for _, call := range fresh {
		waitForBeats(call.done, 4*limit+3000)
		select {
		case <-call.done:
			if call.err == nil && call.got == call.nonce {
				okN++
			}
		default:
		}
	}
	if okN == 0 {
		cs.Detail = fmt.Sprintf("none of 10 fresh requests sent after the scenario completed although the server answered each of them\n%s", blockedDump())
		c.Violation("c19:channel-wedged-after:"+cs.Scenario, cs.Detail, cs)
		return
	}
	if okN < 10 {
		c.Class("fresh-requests-failed", int64(10-okN))
	}
	time.Sleep(20 * time.Millisecond)
	if n := e.sc.VerifPendingHandlers(); n != 0 {
		cs.Detail = fmt.Sprintf("%d handler slots are still registered after every call has returned", n)
		c.Violation("c19:pending-slot-not-released:"+cs.Scenario, cs.Detail, cs)
		return
	}
	c.Class("scenario-held:"+cs.Scenario, 1)
	e.ctl.mu.Lock()
	for p, n := range e.ctl.hits {
		c.Class("hook:"+p, n)
	}
	e.ctl.mu.Unlock()
}

// waitForBeats waits until done is closed or n heartbeats passed.
func waitForBeats(done chan struct{}, n int64) bool { return fw.WaitBeats(done, n) }

var c19Scenarios = []string{"withheld", "answer-near-timeout", "late-answer-forced", "cancel-forced", "late-renewal-answer-forced", "cancelled-before-send", "renewal-answer-withheld", "peer-stops-reading"}

func c19Run(c *fw.Ctx) error {
	n := int64(c.Pick(64, 6400))
	var done int64
	for i := int64(0); i < n; i++ {
		if int(i%int64(c.NBatch)) != c.Batch || i < c.Resume {
			continue
		}
		r := c.Rng("c19", i)
		cs := c19Case{Index: i, Scenario: c19Scenarios[(i/int64(c.NBatch))%int64(len(c19Scenarios))], TimeoutMS: []int{100, 200, 300}[r.Intn(3)], Seed: r.Int63()}
		c.Journal(i, cs)
		c19One(c, cs)
		c.Nontrivial(fmt.Sprintf("%s/%d/%d", cs.Scenario, cs.TimeoutMS, cs.Seed))
		atomic.AddInt64(&done, 1)
		if i%9 == 0 {
			c.Sample(cs)
		}
		c.Done(i)
	}
	return nil
}

func init() {
	fw.Register("C19", fw.Spec{
		Plan: func(tier string) fw.Plan {
			p := fw.Plan{Batches: 8, TimeoutS: 900, MinNontrivial: 40, Level: "exploration",
				Rule:        "a real client-kind channel (request timeout 100/200/300 ms) against the scripted server, scenarios: answers withheld for good; answers released within +-20 ms of the caller's timer (timeout + 250 ms leniency); forced races through the hook points: the caller is parked at sc.timeout.fired / sc.ctx.done (timer fired or context ended, handler not yet taken back), only then the server answers, optionally the dispatcher is parked at sc.disp.afterPop until the caller has returned; the same for the OpenSecureChannel answer of a renewal (caller returns and open() runs its deferred unlock before the dispatcher goes on); requests whose context ended before anything was written, followed by a renewal (which waits for the requests under way); a request of 2-6 MB (dozens of chunks) to a peer that is alive but has stopped reading (small socket buffers), which must fail within the bound and release its slot; oracle: un-forced calls return within 3 x (timeout + 250 ms) counted in heartbeats, no call stays blocked (heartbeat clock, goroutine dump attached), at quiescence no handler slot is registered (verif accessor), and 10 fresh requests which the server answers complete; distinct = (scenario, timeout, seed)",
				Assumptions: []string{"heartbeats <= elapsed milliseconds, so load cannot make a call look late; the hook parks a goroutine only where the code is between two critical sections"}}
			if tier == "thorough" {
				p.Batches, p.TimeoutS, p.MinNontrivial = 16, 3400, 3000
			}
			return p
		},
		Run: c19Run,
		Replay: func(c *fw.Ctx, raw json.RawMessage) error {
			var cs c19Case
			if err := json.Unmarshal(raw, &cs); err != nil {
				return err
			}
			cs.Detail = ""
			c19One(c, cs)
			return nil
		},
	})
}
