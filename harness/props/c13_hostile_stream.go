package props

import (
	"bufio"
	"context"
	"encoding/binary"
	"encoding/json"
	"fmt"
	"io"
	"math/rand"
	"net"
	"os"
	"reflect"
	"runtime"
	"strings"
	"sync"
	"time"

	"github.com/gopcua/opcua/ua"
	"github.com/gopcua/opcua/uacp"
	"github.com/gopcua/opcua/uasc"

	"verifharness/fw"
	"verifharness/gen"
	"verifharness/refpeer"
	"verifharness/sut"
)

// C13: the channel receive path survives any peer byte stream: no panic, Receive returns once the peer has closed,
// memory held for incomplete messages stays within the negotiated limits. The receiving channel lives in a child
// process ("c13-sut"), the hostile peer in the worker.

type c13SutArg struct {
	Side      string `json:"side"` // "server-channel" or "client-channel"
	Endpoint  string `json:"endpoint,omitempty"`
	RecvBuf   uint32 `json:"recv_buf"`
	MaxChunks uint32 `json:"max_chunks"`
	MaxMsg    uint32 `json:"max_msg"`
	Conns     int    `json:"conns"`
}

type c13Stat struct {
	Conn      int    `json:"conn"`
	MaxBytes  int    `json:"max_buffered_bytes"`
	MaxReqIDs int    `json:"max_partial_messages"`
	MaxAlloc  uint64 `json:"max_alloc_in_one_receive"`
	Delivered int    `json:"delivered"`
	Errors    int    `json:"errors"`
	LastErr   string `json:"last_error"`
	NegRecv   uint32 `json:"negotiated_recv_buf"`
	NegChunks uint32 `json:"negotiated_max_chunks"`
}

// c13Sut is the child: one bare channel per connection, Receive until it fails, statistics per connection on stdout.
func c13Sut(arg string) int {
	var a c13SutArg
	if err := json.Unmarshal([]byte(arg), &a); err != nil {
		fmt.Fprintln(os.Stderr, err)
		return 3
	}
	out := bufio.NewWriter(os.Stdout)
	say := func(f string, v ...interface{}) { fmt.Fprintf(out, f+"\n", v...); out.Flush() }
	serve := func(n int, sc *uasc.SecureChannel, conn *uacp.Conn, ctx context.Context, client bool) {
		st := c13Stat{Conn: n, NegRecv: conn.ReceiveBufSize(), NegChunks: conn.MaxChunkCount()}
		var ms runtime.MemStats
		// Receive only returns for complete messages and errors: the buffers are sampled concurrently as well
		var smu sync.Mutex
		stopSampler := make(chan struct{})
		go func() {
			t := time.NewTicker(500 * time.Microsecond)
			defer t.Stop()
			for {
				select {
				case <-stopSampler:
					return
				case <-t.C:
					ids, _, bytes := sc.VerifBufferedChunks()
					smu.Lock()
					if bytes > st.MaxBytes {
						st.MaxBytes = bytes
					}
					if ids > st.MaxReqIDs {
						st.MaxReqIDs = ids
					}
					smu.Unlock()
				}
			}
		}()
		defer func() { close(stopSampler) }()
		for {
			runtime.ReadMemStats(&ms)
			before := ms.TotalAlloc
			msg := sc.Receive(ctx)
			runtime.ReadMemStats(&ms)
			if d := ms.TotalAlloc - before; d > st.MaxAlloc {
				st.MaxAlloc = d
			}
			ids, _, bytes := sc.VerifBufferedChunks()
			smu.Lock()
			if bytes > st.MaxBytes {
				st.MaxBytes = bytes
			}
			if ids > st.MaxReqIDs {
				st.MaxReqIDs = ids
			}
			smu.Unlock()
			if msg.Err != nil {
				st.Errors++
				st.LastErr = msg.Err.Error()
				if _, ok := msg.Err.(ua.StatusCode); !ok || msg.Err == io.EOF || st.Errors > 50000 {
					break
				}
				continue
			}
			st.Delivered++
		}
		smu.Lock()
		b, _ := json.Marshal(st)
		smu.Unlock()
		say("END %s", b)
	}
	if a.Side == "server-channel" {
		ack := &uacp.Acknowledge{ReceiveBufSize: a.RecvBuf, SendBufSize: a.RecvBuf, MaxChunkCount: a.MaxChunks, MaxMessageSize: a.MaxMsg}
		bs, err := newBareServer(ack)
		if err != nil {
			fmt.Fprintln(os.Stderr, err)
			return 3
		}
		say("READY %s", bs.ep)
		for n := 0; n < a.Conns; n++ {
			ctx, cancel := context.WithTimeout(context.Background(), 60*time.Second)
			conn, err := bs.l.Accept(ctx)
			if err != nil {
				say("END %s", mustJSON(c13Stat{Conn: n, LastErr: "handshake: " + err.Error(), Errors: 1}))
				cancel()
				continue
			}
			cfg := &uasc.Config{SecurityPolicyURI: ua.SecurityPolicyURINone, SecurityMode: ua.MessageSecurityModeNone, Lifetime: 3600000}
			sc, err := uasc.NewServerSecureChannel(bs.ep, conn, cfg, make(chan error, 16), uint32(10+n), 1, 5)
			if err != nil {
				conn.Close()
				cancel()
				continue
			}
			serve(n, sc, conn, ctx, false)
			conn.Close()
			cancel()
		}
		return 0
	}
	// client-channel: dial the hostile server once per connection, open, keep receiving what it pushes
	for n := 0; n < a.Conns; n++ {
		ctx, cancel := context.WithTimeout(context.Background(), 60*time.Second)
		d := &uacp.Dialer{ClientACK: &uacp.Acknowledge{ReceiveBufSize: a.RecvBuf, SendBufSize: a.RecvBuf, MaxChunkCount: a.MaxChunks, MaxMessageSize: a.MaxMsg}}
		conn, err := d.Dial(ctx, a.Endpoint)
		if err != nil {
			say("END %s", mustJSON(c13Stat{Conn: n, LastErr: "handshake: " + err.Error(), Errors: 1}))
			cancel()
			time.Sleep(5 * time.Millisecond)
			continue
		}
		cfg := &uasc.Config{SecurityPolicyURI: ua.SecurityPolicyURINone, SecurityMode: ua.MessageSecurityModeNone, Lifetime: 3600000, RequestTimeout: 2 * time.Second}
		errch := make(chan error, 1024)
		sc, err := uasc.NewSecureChannel(a.Endpoint, conn, cfg, errch)
		if err != nil {
			conn.Close()
			cancel()
			continue
		}
		st := c13Stat{Conn: n, NegRecv: conn.ReceiveBufSize(), NegChunks: conn.MaxChunkCount()}
		if err := sc.Open(ctx); err != nil {
			st.Errors, st.LastErr = 1, "open: "+err.Error()
		} else {
			// the dispatcher goroutine of the channel is the receiver; issue a few requests and watch the buffers
			var wg sync.WaitGroup
			for k := 0; k < 3; k++ {
				wg.Add(1)
				go func() {
					defer wg.Done()
					err := sc.SendRequest(ctx, &ua.ReadRequest{NodesToRead: []*ua.ReadValueID{{NodeID: ua.NewNumericNodeID(0, 2255), AttributeID: ua.AttributeIDValue, DataEncoding: &ua.QualifiedName{}}}}, nil, func(ua.Response) error { return nil })
					if err == nil {
						st.Delivered++
					}
				}()
			}
			done := make(chan struct{})
			go func() { wg.Wait(); close(done) }()
			tick := time.NewTicker(2 * time.Millisecond)
		watch:
			for {
				select {
				case <-done:
					break watch
				case <-tick.C:
					ids, _, bytes := sc.VerifBufferedChunks()
					if bytes > st.MaxBytes {
						st.MaxBytes = bytes
					}
					if ids > st.MaxReqIDs {
						st.MaxReqIDs = ids
					}
				}
			}
			tick.Stop()
			ids, _, bytes := sc.VerifBufferedChunks()
			if bytes > st.MaxBytes {
				st.MaxBytes = bytes
			}
			if ids > st.MaxReqIDs {
				st.MaxReqIDs = ids
			}
		}
		sc.Close()
		conn.Close()
		cancel()
		say("END %s", mustJSON(st))
	}
	return 0
}

// ---- hostile streams ----

type c13Stream struct {
	Name  string   `json:"name"`
	Steps []string `json:"steps"`
	// what the hostile peer does on an accepted/dialled raw connection
	run func(conn net.Conn, r *rand.Rand, note func(string))
}

func c13Hdr(typ string, size uint32) []byte {
	b := append([]byte(typ), 0, 0, 0, 0)
	binary.LittleEndian.PutUint32(b[4:], size)
	return b
}

func c13Hello(rb, sb, mm, mc uint32, url string) []byte {
	h := refpeer.Hello{RecvBuf: rb, SendBuf: sb, MaxMsg: mm, MaxChunks: mc, URL: url}
	return refpeer.MakeFrame("HELF", h.Encode())
}

// c13OpenNone performs a correct None handshake as a client on a raw connection and returns a refpeer channel.
func c13OpenNone(conn net.Conn, url string) (*refpeer.Channel, error) {
	conn.Write(c13Hello(65535, 65535, 0, 0, url))
	conn.SetReadDeadline(time.Now().Add(5 * time.Second))
	f, err := refpeer.ReadFrame(conn, 0)
	if err != nil || f.Type != "ACK" {
		return nil, fmt.Errorf("no ACK: %v", err)
	}
	ack, _ := refpeer.DecodeAck(f.Body())
	ch := refpeer.NewChannel(conn, false, refpeer.Security{Mode: refpeer.ModeNone})
	ch.PeerRecvBuf = ack.RecvBuf
	if _, err := ch.Open(false, 3600000); err != nil {
		return nil, err
	}
	conn.SetReadDeadline(time.Time{})
	return ch, nil
}

func c13ServerStreams(reg *gen.Registry, url string, quick bool) []c13Stream {
	var out []c13Stream
	add := func(name string, f func(conn net.Conn, r *rand.Rand, note func(string))) {
		out = append(out, c13Stream{Name: name, run: f})
	}
	for _, size := range []uint32{0, 1, 7, 8, 9, 31, 32, 1 << 16, 1 << 31, 0xffffffff} {
		size := size
		add(fmt.Sprintf("hello-header-with-size-%d", size), func(conn net.Conn, r *rand.Rand, note func(string)) {
			conn.Write(c13Hdr("HELF", size))
			conn.Write(make([]byte, 64))
		})
	}
	for _, v := range [][4]uint32{{0, 0, 0, 0}, {1, 1, 1, 1}, {7, 7, 0, 0}, {8, 8, 1, 1}, {0xffffffff, 0xffffffff, 0xffffffff, 0xffffffff}, {8192, 0, 0, 0}} {
		v := v
		add(fmt.Sprintf("hello-with-buffers-%d-%d-%d-%d", v[0], v[1], v[2], v[3]), func(conn net.Conn, r *rand.Rand, note func(string)) {
			conn.Write(c13Hello(v[0], v[1], v[2], v[3], url))
			conn.SetReadDeadline(time.Now().Add(time.Second))
			refpeer.ReadFrame(conn, 0)
			ch := refpeer.NewChannel(conn, false, refpeer.Security{Mode: refpeer.ModeNone})
			ch.Open(false, 1000)
		})
	}
	// a bare header of every message type declaring sizes around the header length (also below it), as first frame
	// and after a correct hello; a refused frame ends the connection, so every pair gets a connection of its own
	for _, typ := range []string{"HELF", "ACKF", "ERRF", "MSGF", "OPNF", "CLOF", "XXXX"} {
		for _, size := range []uint32{0, 1, 4, 7, 8, 9, 12, 15, 16} {
			typ, size := typ, size
			add(fmt.Sprintf("first-frame-header-%s-size-%d", typ, size), func(conn net.Conn, r *rand.Rand, note func(string)) {
				conn.Write(c13Hdr(typ, size))
				conn.Write(make([]byte, 16))
			})
			add(fmt.Sprintf("hello-then-header-%s-size-%d", typ, size), func(conn net.Conn, r *rand.Rand, note func(string)) {
				conn.Write(c13Hello(65535, 65535, 0, 0, url))
				conn.SetReadDeadline(time.Now().Add(time.Second))
				refpeer.ReadFrame(conn, 0)
				conn.Write(c13Hdr(typ, size))
				conn.Write(make([]byte, 16))
			})
		}
	}
	add("hello-with-url-length-2^31-1", func(conn net.Conn, r *rand.Rand, note func(string)) {
		b := c13Hello(65535, 65535, 0, 0, "x")
		binary.LittleEndian.PutUint32(b[28:], 0x7fffffff)
		conn.Write(b)
	})
	for _, typ := range []string{"ACKF", "ERRF", "MSGF", "OPNF", "CLOF", "RHEF", "XXXX"} {
		typ := typ
		add("first-frame-is-"+typ, func(conn net.Conn, r *rand.Rand, note func(string)) {
			body := make([]byte, 40+r.Intn(100))
			r.Read(body)
			conn.Write(refpeer.MakeFrame(typ, body))
		})
	}
	// OPN junk after a correct hello
	for k := 0; k < 12; k++ {
		k := k
		add(fmt.Sprintf("opn-junk-%d", k), func(conn net.Conn, r *rand.Rand, note func(string)) {
			conn.Write(c13Hello(65535, 65535, 0, 0, url))
			conn.SetReadDeadline(time.Now().Add(time.Second))
			refpeer.ReadFrame(conn, 0)
			body := put32le(nil, 0) // channel id
			switch k % 6 {
			case 0: // random bytes
				j := make([]byte, 5+r.Intn(300))
				r.Read(j)
				body = append(body, j...)
			case 1: // policy URI length huge / negative
				body = put32le(body, []uint32{0x7fffffff, 0x80000000, 0xfffffffe, 70000}[r.Intn(4)])
				body = append(body, make([]byte, 50)...)
			case 2: // unknown policy, junk certificate
				body = putStr(body, "http://opcfoundation.org/UA/SecurityPolicy#Nope")
				body = putStr(body, string(make([]byte, 30)))
				body = putStr(body, "thumb")
				body = append(body, make([]byte, 60)...)
			case 3: // real policy, garbage certificate
				body = putStr(body, refpeer.URIBasic256Sha256)
				j := make([]byte, 300)
				r.Read(j)
				body = putStr(body, string(j))
				body = putStr(body, string(make([]byte, 20)))
				body = append(body, make([]byte, 256)...)
			case 4: // real policy, ECDSA certificate
				body = putStr(body, refpeer.URIBasic256Sha256)
				body = putStr(body, string(ecdsaCert()))
				body = putStr(body, string(make([]byte, 20)))
				body = append(body, make([]byte, 256)...)
			case 5: // None policy but no sequence header / body
				body = putStr(body, refpeer.URINone)
				body = put32le(put32le(body, 0xffffffff), 0xffffffff)
				body = append(body, make([]byte, r.Intn(8))...)
			}
			conn.Write(refpeer.MakeFrame("OPNF", body))
		})
	}
	// after a correct open
	add("chunks-with-wrong-channel-and-token-ids", func(conn net.Conn, r *rand.Rand, note func(string)) {
		ch, err := c13OpenNone(conn, url)
		if err != nil {
			note("open failed: " + err.Error())
			return
		}
		body, _ := refpeer.EncodeBody(&ua.ReadRequest{RequestHeader: &ua.RequestHeader{AuthenticationToken: ua.NewTwoByteNodeID(0), AdditionalHeader: ua.NewExtensionObject(nil)}})
		for k := 0; k < 6; k++ {
			raw, _ := ch.SealChunk(nil, "MSG", 'F', ch.TakeSeq(), uint32(50+k), body)
			binary.LittleEndian.PutUint32(raw[8+4*(k%2):], r.Uint32())
			conn.Write(raw)
		}
	})
	for _, L := range []int{8, 9, 12, 15, 16, 17, 20, 23, 24} {
		L := L
		add(fmt.Sprintf("msg-chunk-of-%d-bytes", L), func(conn net.Conn, r *rand.Rand, note func(string)) {
			ch, err := c13OpenNone(conn, url)
			if err != nil {
				note("open failed: " + err.Error())
				return
			}
			raw, _ := ch.SealChunk(nil, "MSG", 'F', ch.TakeSeq(), 50, make([]byte, 40))
			raw = raw[:L]
			binary.LittleEndian.PutUint32(raw[4:], uint32(L))
			conn.Write(raw)
		})
	}
	for _, ct := range []byte{'C', 'A', 'X', 0} {
		ct := ct
		add(fmt.Sprintf("garbage-bodies-with-chunk-type-%q", ct), func(conn net.Conn, r *rand.Rand, note func(string)) {
			ch, err := c13OpenNone(conn, url)
			if err != nil {
				note("open failed: " + err.Error())
				return
			}
			for k := 0; k < 20; k++ {
				j := make([]byte, r.Intn(300))
				r.Read(j)
				raw, _ := ch.SealChunk(nil, "MSG", ct, ch.TakeSeq(), uint32(60+k%3), j)
				conn.Write(raw)
			}
			raw, _ := ch.SealChunk(nil, "MSG", 'F', ch.TakeSeq(), 60, nil)
			conn.Write(raw)
		})
	}
	floods := []int{3000}
	if !quick {
		floods = []int{3000, 20000}
	}
	for _, n := range floods {
		n := n
		add(fmt.Sprintf("flood-of-intermediate-chunks-over-%d-request-ids", n), func(conn net.Conn, r *rand.Rand, note func(string)) {
			ch, err := c13OpenNone(conn, url)
			if err != nil {
				note("open failed: " + err.Error())
				return
			}
			part := make([]byte, int(ch.PeerRecvBuf)-100)
			conn.SetWriteDeadline(time.Now().Add(20 * time.Second))
			for k := 0; k < n; k++ {
				raw, _ := ch.SealChunk(nil, "MSG", 'C', ch.TakeSeq(), uint32(1000+k), part)
				if _, err := conn.Write(raw); err != nil {
					note(fmt.Sprintf("write failed after %d chunks: %v", k, err))
					return
				}
			}
			note(fmt.Sprintf("%d intermediate chunks of %d bytes sent, none completed", n, len(part)))
		})
	}
	add("flood-of-intermediate-chunks-after-400-complete-messages", func(conn net.Conn, r *rand.Rand, note func(string)) {
		ch, err := c13OpenNone(conn, url)
		if err != nil {
			note("open failed: " + err.Error())
			return
		}
		body, _ := refpeer.EncodeBody(&ua.GetEndpointsRequest{RequestHeader: &ua.RequestHeader{AuthenticationToken: ua.NewTwoByteNodeID(0), AdditionalHeader: ua.NewExtensionObject(nil)}, EndpointURL: url})
		for k := 0; k < 400; k++ {
			raw, _ := ch.SealChunk(nil, "MSG", 'F', ch.TakeSeq(), uint32(100+k), body)
			if _, err := conn.Write(raw); err != nil {
				return
			}
			if k%4 == 3 { // some of them in two chunks
				h := len(body) / 2
				raw, _ = ch.SealChunk(nil, "MSG", 'C', ch.TakeSeq(), uint32(5000+k), body[:h])
				conn.Write(raw)
				raw, _ = ch.SealChunk(nil, "MSG", 'F', ch.TakeSeq(), uint32(5000+k), body[h:])
				conn.Write(raw)
			}
		}
		part := make([]byte, int(ch.PeerRecvBuf)-100)
		conn.SetWriteDeadline(time.Now().Add(20 * time.Second))
		for k := 0; k < 1500; k++ {
			raw, _ := ch.SealChunk(nil, "MSG", 'C', ch.TakeSeq(), uint32(100000+k), part)
			if _, err := conn.Write(raw); err != nil {
				note(fmt.Sprintf("write failed after %d chunks: %v", k, err))
				return
			}
		}
		note("400 complete messages, then 1500 intermediate chunks under new request ids")
	})
	add("one-request-id-with-more-chunks-than-negotiated", func(conn net.Conn, r *rand.Rand, note func(string)) {
		ch, err := c13OpenNone(conn, url)
		if err != nil {
			note("open failed: " + err.Error())
			return
		}
		part := make([]byte, 2000)
		for k := 0; k < 600; k++ {
			raw, _ := ch.SealChunk(nil, "MSG", 'C', ch.TakeSeq(), 77, part)
			if _, err := conn.Write(raw); err != nil {
				return
			}
		}
	})
	// every registered service type sent in the wrong direction (responses to a server), generated field values
	add("every-response-type-sent-to-the-server", func(conn net.Conn, r *rand.Rand, note func(string)) {
		ch, err := c13OpenNone(conn, url)
		if err != nil {
			note("open failed: " + err.Error())
			return
		}
		g := gen.New(r, reg)
		g.MaxDepth = 2
		n := 0
		for _, t := range reg.Services {
			if !strings.HasSuffix(t.Type.Elem().Name(), "Response") && t.Type.Elem().Name() != "ServiceFault" {
				continue
			}
			var v reflect.Value
			if pn := fw.Catch(func() { v = g.Value(t.Type) }); pn != nil {
				continue
			}
			if _, err := ch.SendService("MSG", uint32(2000+n), v.Interface(), refpeer.SendOpts{}); err != nil {
				break
			}
			n++
		}
		note(fmt.Sprintf("%d response messages sent", n))
	})
	return out
}

func put32le(b []byte, v uint32) []byte { return binary.LittleEndian.AppendUint32(b, v) }
func putStr(b []byte, s string) []byte  { return append(put32le(b, uint32(len(s))), s...) }

// c13ClientStreams: what the hostile server does with a connection dialled by the real client-kind channel.
func c13ClientStreams(reg *gen.Registry, quick bool) []c13Stream {
	var out []c13Stream
	add := func(name string, f func(conn net.Conn, r *rand.Rand, note func(string))) {
		out = append(out, c13Stream{Name: name, run: f})
	}
	readHello := func(conn net.Conn) {
		conn.SetReadDeadline(time.Now().Add(5 * time.Second))
		refpeer.ReadFrame(conn, 0)
		conn.SetReadDeadline(time.Time{})
	}
	for _, v := range [][4]uint32{{0, 0, 0, 0}, {1, 1, 1, 1}, {4, 4, 0, 0}, {7, 8192, 0, 0}, {8, 8, 1, 1}, {0xffffffff, 0xffffffff, 0xffffffff, 0xffffffff}, {0xffffffff, 65535, 0, 0}, {65535, 0, 0, 0}} {
		v := v
		add(fmt.Sprintf("ack-with-buffers-%d-%d-%d-%d", v[0], v[1], v[2], v[3]), func(conn net.Conn, r *rand.Rand, note func(string)) {
			readHello(conn)
			a := refpeer.Ack{RecvBuf: v[0], SendBuf: v[1], MaxMsg: v[2], MaxChunks: v[3]}
			conn.Write(refpeer.MakeFrame("ACKF", a.Encode()))
			// then behave: answer an OPN if one arrives, so that a client which accepted the ACK goes on receiving
			ch := refpeer.NewChannel(conn, true, refpeer.Security{Mode: refpeer.ModeNone})
			ch.ID = 9
			conn.SetReadDeadline(time.Now().Add(2 * time.Second))
			if m, err := ch.ReadMsg(); err == nil && m.Type == "OPN" {
				ch.AnswerOpen(m, refpeer.ServerOpts{})
				conn.Write(refpeer.MakeFrame("MSGF", make([]byte, 40)))
				conn.Write(c13Hdr("MSGF", 100000))
				conn.Write(make([]byte, 2000))
			}
		})
	}
	for _, size := range []uint32{0, 7, 9, 1 << 31, 0xffffffff} {
		size := size
		add(fmt.Sprintf("ack-header-with-size-%d", size), func(conn net.Conn, r *rand.Rand, note func(string)) {
			readHello(conn)
			conn.Write(c13Hdr("ACKF", size))
			conn.Write(make([]byte, 64))
		})
	}
	for _, typ := range []string{"HELF", "ERRF", "MSGF", "OPNF", "XXXX"} {
		typ := typ
		add("answer-to-hello-is-"+typ, func(conn net.Conn, r *rand.Rand, note func(string)) {
			readHello(conn)
			body := make([]byte, 28+r.Intn(60))
			r.Read(body)
			conn.Write(refpeer.MakeFrame(typ, body))
		})
	}
	for _, typ := range []string{"ACKF", "ERRF", "MSGF", "OPNF"} {
		for _, size := range []uint32{0, 1, 4, 7, 8, 9, 12, 15, 16} {
			typ, size := typ, size
			add(fmt.Sprintf("answer-to-hello-is-header-%s-size-%d", typ, size), func(conn net.Conn, r *rand.Rand, note func(string)) {
				readHello(conn)
				conn.Write(c13Hdr(typ, size))
				conn.Write(make([]byte, 16))
			})
		}
	}
	// a correct handshake and open, then the server pushes things
	opened := func(conn net.Conn) *refpeer.Channel {
		ch, _, err := refpeer.Accept(conn, refpeer.ServerOpts{})
		if err != nil {
			return nil
		}
		conn.SetReadDeadline(time.Now().Add(5 * time.Second))
		m, err := ch.ReadMsg()
		if err != nil || m.Type != "OPN" {
			return nil
		}
		if _, err := ch.AnswerOpen(m, refpeer.ServerOpts{}); err != nil {
			return nil
		}
		conn.SetReadDeadline(time.Time{})
		return ch
	}
	for _, typ := range []string{"ERRF", "MSGF"} {
		for _, size := range []uint32{0, 1, 4, 7, 8, 9, 12, 15, 16} {
			typ, size := typ, size
			add(fmt.Sprintf("header-%s-size-%d-to-the-open-client", typ, size), func(conn net.Conn, r *rand.Rand, note func(string)) {
				if ch := opened(conn); ch == nil {
					return
				}
				conn.Write(c13Hdr(typ, size))
				conn.Write(make([]byte, 16))
			})
		}
	}
	add("open-answered-with-garbage", func(conn net.Conn, r *rand.Rand, note func(string)) {
		ch, _, err := refpeer.Accept(conn, refpeer.ServerOpts{})
		if err != nil {
			return
		}
		conn.SetReadDeadline(time.Now().Add(5 * time.Second))
		if m, err := ch.ReadMsg(); err == nil {
			for _, svc := range []interface{}{&ua.ServiceFault{ResponseHeader: refpeer.RespHeader(nil, ua.StatusBadSecurityChecksFailed)}, &ua.ReadResponse{ResponseHeader: refpeer.RespHeader(nil, ua.StatusOK)},
				&ua.OpenSecureChannelResponse{ResponseHeader: refpeer.RespHeader(nil, ua.StatusOK)}} {
				body, _ := refpeer.EncodeBody(svc)
				a, _ := refpeer.NewAsymCtx(nil, nil, nil, nil)
				raw, _ := a.SealOPN(ch.ID, ch.TakeSeq(), m.ReqID, body, 0, 0)
				conn.Write(raw)
			}
		}
	})
	add("server-sends-open-secure-channel-request-to-the-client", func(conn net.Conn, r *rand.Rand, note func(string)) {
		ch := opened(conn)
		if ch == nil {
			return
		}
		req := &ua.OpenSecureChannelRequest{RequestHeader: &ua.RequestHeader{AuthenticationToken: ua.NewTwoByteNodeID(0), AdditionalHeader: ua.NewExtensionObject(nil)}, RequestType: ua.SecurityTokenRequestTypeIssue, SecurityMode: ua.MessageSecurityModeNone, RequestedLifetime: 1000}
		ch.SendService("MSG", 1, req, refpeer.SendOpts{})
		body, _ := refpeer.EncodeBody(req)
		a, _ := refpeer.NewAsymCtx(nil, nil, nil, nil)
		raw, _ := a.SealOPN(ch.ID, ch.TakeSeq(), 2, body, 0, 0)
		conn.Write(raw)
		time.Sleep(50 * time.Millisecond)
	})
	add("every-request-type-sent-to-the-client", func(conn net.Conn, r *rand.Rand, note func(string)) {
		ch := opened(conn)
		if ch == nil {
			return
		}
		g := gen.New(r, reg)
		g.MaxDepth = 2
		n := 0
		for _, t := range reg.Services {
			if !strings.HasSuffix(t.Type.Elem().Name(), "Request") {
				continue
			}
			var v reflect.Value
			if pn := fw.Catch(func() { v = g.Value(t.Type) }); pn != nil {
				continue
			}
			// on the request ids the client is waiting for (1..4) and on others
			if _, err := ch.SendService("MSG", uint32(1+n%8), v.Interface(), refpeer.SendOpts{}); err != nil {
				break
			}
			n++
		}
		note(fmt.Sprintf("%d request messages sent", n))
	})
	add("flood-of-intermediate-chunks-to-the-client", func(conn net.Conn, r *rand.Rand, note func(string)) {
		ch := opened(conn)
		if ch == nil {
			return
		}
		part := make([]byte, int(ch.PeerRecvBuf)-100)
		conn.SetWriteDeadline(time.Now().Add(20 * time.Second))
		n := 3000
		for k := 0; k < n; k++ {
			raw, _ := ch.SealChunk(nil, "MSG", 'C', ch.TakeSeq(), uint32(1000+k), part)
			if _, err := conn.Write(raw); err != nil {
				note(fmt.Sprintf("write failed after %d chunks: %v", k, err))
				return
			}
		}
		note(fmt.Sprintf("%d intermediate chunks of %d bytes sent, none completed", n, len(part)))
	})
	add("overruns-of-one-request-id-then-a-flood-to-the-client", func(conn net.Conn, r *rand.Rand, note func(string)) {
		// a client keeps receiving after a message was refused: 400 times one chunk more than allowed under one
		// request id, then intermediate chunks under ever new ids; the bound on buffered chunks must still hold
		ch := opened(conn)
		if ch == nil {
			return
		}
		part := make([]byte, int(ch.PeerRecvBuf)-100)
		conn.SetWriteDeadline(time.Now().Add(40 * time.Second))
		sent := 0
		for round := 0; round < 400; round++ {
			for k := 0; k < 17; k++ {
				raw, _ := ch.SealChunk(nil, "MSG", 'C', ch.TakeSeq(), 77, part)
				if _, err := conn.Write(raw); err != nil {
					note(fmt.Sprintf("write failed after %d chunks: %v", sent, err))
					return
				}
				sent++
			}
		}
		for k := 0; k < 3000; k++ {
			raw, _ := ch.SealChunk(nil, "MSG", 'C', ch.TakeSeq(), uint32(5000+k), part)
			if _, err := conn.Write(raw); err != nil {
				note(fmt.Sprintf("write failed after %d chunks: %v", sent, err))
				return
			}
			sent++
		}
		note(fmt.Sprintf("%d intermediate chunks of %d bytes sent, none completed", sent, len(part)))
	})
	for _, L := range []int{8, 12, 16, 20, 24} {
		L := L
		add(fmt.Sprintf("msg-chunk-of-%d-bytes-to-the-client", L), func(conn net.Conn, r *rand.Rand, note func(string)) {
			ch := opened(conn)
			if ch == nil {
				return
			}
			raw, _ := ch.SealChunk(nil, "MSG", 'F', ch.TakeSeq(), 1, make([]byte, 40))
			raw = raw[:L]
			binary.LittleEndian.PutUint32(raw[4:], uint32(L))
			conn.Write(raw)
		})
	}
	add("random-chunk-bodies-to-the-client", func(conn net.Conn, r *rand.Rand, note func(string)) {
		ch := opened(conn)
		if ch == nil {
			return
		}
		for k := 0; k < 30; k++ {
			j := make([]byte, r.Intn(400))
			r.Read(j)
			raw, _ := ch.SealChunk(nil, []string{"MSG", "MSG", "OPN", "CLO"}[r.Intn(4)], []byte{'F', 'C', 'A'}[r.Intn(3)], ch.TakeSeq(), uint32(1+r.Intn(6)), j)
			if _, err := conn.Write(raw); err != nil {
				return
			}
		}
	})
	return out
}

type c13Case struct {
	Index  int64    `json:"index"`
	Side   string   `json:"receiver"`
	Stream string   `json:"stream"`
	Notes  []string `json:"notes,omitempty"`
	Stat   *c13Stat `json:"receiver_statistics,omitempty"`
	Detail string   `json:"detail,omitempty"`
}

// c13Group runs a list of streams against one child.
func c13Group(c *fw.Ctx, side string, streams []c13Stream, base int64, arg c13SutArg) {
	var l net.Listener
	if side == "client-channel" {
		var err error
		if l, err = net.Listen("tcp", "127.0.0.1:0"); err != nil {
			c.Inconclusive("listen: " + err.Error())
			return
		}
		defer l.Close()
		arg.Endpoint = "opc.tcp://" + l.Addr().String()
	}
	arg.Side, arg.Conns = side, len(streams)
	child, err := sut.StartChild("c13-sut", mustJSON(arg))
	if err != nil {
		c.Inconclusive("child: " + err.Error())
		return
	}
	defer func() {
		if child.Alive() {
			child.Kill()
		}
	}()
	url := arg.Endpoint
	if side == "server-channel" {
		line, ok := child.WaitLine("READY ", 20*time.Second)
		if !ok {
			c.Inconclusive("receiver child did not start")
			return
		}
		url = strings.TrimSpace(line)
	}
	ends := func() int {
		o, _ := child.Output()
		return strings.Count(o, "\nEND ") + btoi(strings.HasPrefix(o, "END "))
	}
	for k, st := range streams {
		idx := base + int64(k)
		cs := c13Case{Index: idx, Side: side, Stream: st.Name}
		c.Journal(idx, cs)
		r := c.Rng("c13", idx)
		note := func(s string) { cs.Notes = append(cs.Notes, s) }
		var conn net.Conn
		if side == "server-channel" {
			conn, err = net.DialTimeout("tcp", strings.TrimPrefix(url, "opc.tcp://"), 5*time.Second)
		} else {
			l.(*net.TCPListener).SetDeadline(time.Now().Add(10 * time.Second))
			conn, err = l.Accept()
		}
		if err != nil {
			if !child.Alive() {
				break
			}
			c.Inconclusive("no connection for stream " + st.Name)
			continue
		}
		before := ends()
		st.run(conn, r, note)
		// let the receiver take what is in flight, then close our side for good
		time.Sleep(20 * time.Millisecond)
		conn.Close()
		c.Eval(1)
		c.Class("stream:"+side+":"+strings.SplitN(st.Name, "-", 2)[0], 1)
		c.Nontrivial(side + "/" + st.Name)
		// the receiver must notice the end of the stream: wait on the heartbeat clock
		hb := fw.Heartbeats()
		for ends() == before && child.Alive() && fw.Heartbeats()-hb < 8000 {
			time.Sleep(2 * time.Millisecond)
		}
		if ends() == before && !child.Alive() {
			stdout, stderr := child.Output()
			key, msg := fw.CrashKey(stderr)
			cs.Detail = tailStr(stderr, 2500)
			if cs.Detail == "" {
				cs.Detail = fmt.Sprintf("exit state %v; stdout tail: %s", child.Cmd.ProcessState, tailStr(stdout, 600))
			}
			c.Violation("c13:"+side+"-"+key, fmt.Sprintf("the receiving process died on stream %q: %s", st.Name, msg), cs)
			c.Done(idx)
			if k+1 < len(streams) { // the remaining streams of this group get a fresh receiver
				c13Group(c, side, streams[k+1:], idx+1, arg)
			}
			return
		}
		if ends() == before {
			dump := child.Dump()
			cs.Detail = repoGoroutines(dump, 4000)
			c.Violation("c13:"+side+":receive-does-not-return-after-close:"+fw.TopRepoFrame(cs.Detail), fmt.Sprintf("8000 heartbeats after the peer closed the connection of stream %q the receiver is still inside Receive", st.Name), cs)
			c.Done(idx)
			if k+1 < len(streams) {
				c13Group(c, side, streams[k+1:], idx+1, arg)
			}
			return
		}
		// statistics of this connection
		o, _ := child.Output()
		lines := strings.Split(strings.TrimSpace(o), "\n")
		var stat c13Stat
		if json.Unmarshal([]byte(strings.TrimPrefix(lines[len(lines)-1], "END ")), &stat) == nil {
			cs.Stat = &stat
			bound := 8 * int(arg.MaxChunks) * int(arg.RecvBuf)
			c.Max("max_bytes_buffered_for_incomplete_messages", float64(stat.MaxBytes), cs)
			c.Max("max_alloc_in_one_receive_call", float64(stat.MaxAlloc), cs)
			if stat.MaxBytes > bound {
				cs.Detail = fmt.Sprintf("%d bytes buffered for %d incomplete messages; negotiated: %d chunks of %d bytes per message (bound used: 8 x %d x %d = %d)", stat.MaxBytes, stat.MaxReqIDs, arg.MaxChunks, arg.RecvBuf, arg.MaxChunks, arg.RecvBuf, bound)
				c.Violation("c13:"+side+":unbounded-buffering-of-incomplete-messages", cs.Detail, cs)
			}
			if stat.MaxAlloc > 512<<20 {
				cs.Detail = fmt.Sprintf("one Receive call allocated %d MiB", stat.MaxAlloc>>20)
				c.Violation("c13:"+side+":huge-allocation-in-receive", cs.Detail+" on stream "+st.Name, cs)
			}
		}
		c.Done(idx)
	}
}

func btoi(b bool) int {
	if b {
		return 1
	}
	return 0
}

func c13Run(c *fw.Ctx) error {
	reg := gen.LoadRegistry()
	arg := c13SutArg{RecvBuf: 8192, MaxChunks: 16, MaxMsg: 65536}
	srvStreams := c13ServerStreams(reg, "opc.tcp://127.0.0.1:1", c.Quick())
	cliStreams := c13ClientStreams(reg, c.Quick())
	reps := c.Pick(1, 40)
	base := int64(0)
	for rep := 0; rep < reps; rep++ {
		for _, side := range []string{"server-channel", "client-channel"} {
			streams := srvStreams
			if side == "client-channel" {
				streams = cliStreams
			}
			// groups of 8 streams per child; a group belongs to one batch
			for g := 0; g*8 < len(streams); g++ {
				lo, hi := g*8, g*8+8
				if hi > len(streams) {
					hi = len(streams)
				}
				gi := base / 8
				if int(gi)%c.NBatch == c.Batch {
					var todo []c13Stream
					first := base
					for k := lo; k < hi; k++ {
						if base+int64(k-lo) >= c.Resume {
							todo = append(todo, streams[k])
						} else {
							first = base + int64(k-lo) + 1
						}
					}
					if len(todo) > 0 {
						c13Group(c, side, todo, first, arg)
					}
				}
				base += 8
			}
		}
	}
	c.Sample(map[string]interface{}{"server_channel_streams": len(srvStreams), "client_channel_streams": len(cliStreams), "negotiated": arg})
	return nil
}

func init() {
	sut.Register("c13-sut", c13Sut)
	fw.Register("C13", fw.Spec{
		Plan: func(tier string) fw.Plan {
			p := fw.Plan{Batches: 8, TimeoutS: 900, MinNontrivial: 80, Level: "exploration",
				Rule:        "hostile byte streams from a raw socket / the independent peer to a bare gopcua channel living in a child process (server-kind: accepted connections; client-kind: dialled connections whose dispatcher receives), negotiated limits 8192 bytes x 16 chunks x 64 kB: malformed and extreme HEL/ACK (sizes 0..2^32-1, buffers 0,1,7,8,2^32-1), wrong first frames, bare headers of every message type declaring sizes 0-16 (first frame, after the hello, as answer to the hello, on an open channel), OPN junk (random, huge/negative lengths, unknown policy, garbage and ECDSA certificates, missing sequence header), chunks with wrong channel/token ids, 8-24 byte chunks, garbage bodies under every chunk type, floods of intermediate chunks over thousands of request ids and over one id, 400 overruns of one request id followed by such a flood, every registered response type sent to a server and every request type (incl. OpenSecureChannelRequest) sent to a client; oracle: the child does not die, Receive returns after the peer closed (8000 heartbeats), bytes buffered for incomplete messages (verif accessor) <= 8 x MaxChunkCount x ReceiveBufSize, no single Receive allocates more than 512 MiB; thorough repeats the streams with 40 seeds; distinct = streams",
				Assumptions: []string{"policy None for the post-open streams (hostile chunks under Sign/SignAndEncrypt are C09's subject)"}}
			if tier == "thorough" {
				p.Batches, p.TimeoutS, p.MinNontrivial = 16, 3400, 80
			}
			return p
		},
		Run: c13Run,
	})
}
