package props

import (
	"encoding/json"
	"encoding/xml"
	"fmt"
	"sort"
	"strings"

	"github.com/gopcua/opcua/id"
	"github.com/gopcua/opcua/schema"
	"github.com/gopcua/opcua/server"
	"github.com/gopcua/opcua/server/attrs"
	"github.com/gopcua/opcua/ua"

	"verifharness/fw"
)

// C33: Browse returns exactly the matching references. Metamorphic oracle: the unfiltered browse of a node
// (null reference type, both directions, no class mask) filtered by an independent model must equal the
// filtered browse; the subtype closure is computed here from forward HasSubtype edges.

type c33Case struct {
	Node      string `json:"node"`
	Direction uint32 `json:"direction"`
	RefType   string `json:"reference_type"`
	Subtypes  bool   `json:"include_subtypes"`
	ClassMask uint32 `json:"node_class_mask"`
	Detail    string `json:"detail,omitempty"`
}

type c33World struct {
	srv      *server.Server
	nodes    []*ua.NodeID
	baseline map[string][]*ua.ReferenceDescription
	children map[string][]string // reference type -> direct subtypes
	refTypes []string
	ledger   map[string][]string // node -> references added by this harness through Node.AddRef ("type|forward|target")
	exact    map[string]bool     // nodes all of whose references were added by this harness
}

// addRef adds a reference through the public API and records it as ground truth.
func (w *c33World) addRef(from, to *server.Node, rt server.RefType, forward bool) {
	from.AddRef(to, rt, forward)
	k := from.ID().String()
	w.ledger[k] = append(w.ledger[k], fmt.Sprintf("%s|%v|%s", ua.NewNumericNodeID(0, uint32(rt)), forward, to.ID()))
}

func (w *c33World) browse(bd *ua.BrowseDescription) (res *ua.BrowseResult, pn *fw.Panic) {
	ns, err := w.srv.Namespace(int(bd.NodeID.Namespace()))
	if err != nil {
		return &ua.BrowseResult{StatusCode: ua.StatusBadNodeIDUnknown}, nil
	}
	pn = fw.Catch(func() { res = ns.Browse(bd) })
	return
}

func unfiltered(n *ua.NodeID) *ua.BrowseDescription {
	return &ua.BrowseDescription{NodeID: n, BrowseDirection: ua.BrowseDirectionBoth, ReferenceTypeID: ua.NewNumericNodeID(0, 0), IncludeSubtypes: true, ResultMask: 0x3f}
}

func c33Build() (*c33World, error) {
	srv := server.New(server.EndPoint("localhost", 1))
	ns := server.NewNodeNameSpace(srv, "verif")
	root, _ := srv.Namespace(0)
	root.Objects().AddRef(ns.Objects(), id.HasComponent, true)
	// an added namespace with a few nodes and mixed references; every reference is recorded in the ledger
	w := &c33World{srv: srv, baseline: map[string][]*ua.ReferenceDescription{}, children: map[string][]string{}, ledger: map[string][]string{}, exact: map[string]bool{}}
	mk := func(name string) *server.Node {
		n := server.NewNode(ua.NewStringNodeID(ns.ID(), name), map[ua.AttributeID]*ua.DataValue{
			ua.AttributeIDBrowseName: server.DataValueFromValue(attrs.BrowseName(name)),
			ua.AttributeIDNodeClass:  server.DataValueFromValue(uint32(ua.NodeClassVariable)),
		}, nil, func() *ua.DataValue { return server.DataValueFromValue(int64(1)) })
		ns.AddNode(n)
		w.exact[n.ID().String()] = true
		return n
	}
	a, b := mk("a"), mk("b")
	f := server.NewFolderNode(ua.NewStringNodeID(ns.ID(), "folder"), "folder")
	ns.AddNode(f) // NewFolderNode gives the node a reference of its own, so only the lower bound applies to it
	w.addRef(ns.Objects(), a, id.HasComponent, true)
	w.addRef(ns.Objects(), b, id.HasComponent, true)
	w.addRef(ns.Objects(), f, id.Organizes, true)
	w.addRef(f, a, id.HasComponent, true)
	w.addRef(f, b, id.Organizes, true)
	w.addRef(a, f, id.HasComponent, false)
	w.addRef(b, a, id.HasOrderedComponent, true)
	w.addRef(b, a, id.HasProperty, true)
	w.addRef(f, ns.Objects(), id.Organizes, false)
	// references that leave the node namespace: a tag of a map namespace, the folder of the map namespace,
	// and a node that was linked but never registered with a namespace
	mns := server.NewMapNamespace(srv, "verifmap")
	mns.Mu.Lock()
	mns.Data["Tag1"] = int64(5)
	mns.Mu.Unlock()
	tag := server.NewNode(ua.NewStringNodeID(mns.ID(), "Tag1"), nil, nil, nil)
	w.addRef(f, tag, id.HasComponent, true)
	w.addRef(ns.Objects(), mns.Objects(), id.Organizes, true)
	w.addRef(root.Objects(), mns.Objects(), id.HasComponent, true)
	ghost := server.NewNode(ua.NewStringNodeID(ns.ID(), "never-registered"), nil, nil, nil)
	w.addRef(a, ghost, id.HasProperty, true)
	w.addRef(b, ghost, id.Organizes, false)

	// discover nodes by breadth first search over unfiltered browses
	queue := []*ua.NodeID{ua.NewNumericNodeID(0, id.RootFolder), ua.NewNumericNodeID(0, id.References), ns.Objects().ID()}
	seen := map[string]bool{}
	for len(queue) > 0 {
		n := queue[0]
		queue = queue[1:]
		if seen[n.String()] {
			continue
		}
		seen[n.String()] = true
		res, pn := w.browse(unfiltered(n))
		if pn != nil {
			return nil, fmt.Errorf("unfiltered browse of %s panicked: %s", n, pn.Msg)
		}
		if res == nil || res.StatusCode != ua.StatusGood {
			continue
		}
		w.nodes = append(w.nodes, n)
		w.baseline[n.String()] = res.References
		for _, r := range res.References {
			if r.NodeID != nil && r.NodeID.NodeID != nil && !seen[r.NodeID.NodeID.String()] {
				queue = append(queue, r.NodeID.NodeID)
			}
		}
	}
	// reference type hierarchy from forward HasSubtype edges
	hasSubtype := ua.NewNumericNodeID(0, id.HasSubtype).String()
	rt := map[string]bool{}
	var walk func(t string)
	walk = func(t string) {
		if rt[t] {
			return
		}
		rt[t] = true
		for _, r := range w.baseline[t] {
			if r.IsForward && r.ReferenceTypeID != nil && r.ReferenceTypeID.String() == hasSubtype && r.NodeID != nil {
				c := r.NodeID.NodeID.String()
				w.children[t] = append(w.children[t], c)
				walk(c)
			}
		}
	}
	walk(ua.NewNumericNodeID(0, id.References).String())
	for t := range rt {
		w.refTypes = append(w.refTypes, t)
	}
	sort.Strings(w.refTypes)
	return w, nil
}

func (w *c33World) closure(t string) map[string]bool {
	out := map[string]bool{}
	var walk func(x string)
	walk = func(x string) {
		if out[x] {
			return
		}
		out[x] = true
		for _, c := range w.children[x] {
			walk(c)
		}
	}
	walk(t)
	return out
}

func refKey(r *ua.ReferenceDescription) string {
	t, n := "", ""
	if r.ReferenceTypeID != nil {
		t = r.ReferenceTypeID.String()
	}
	if r.NodeID != nil && r.NodeID.NodeID != nil {
		n = r.NodeID.NodeID.String()
	}
	return fmt.Sprintf("%s|%v|%s|%d", t, r.IsForward, n, r.NodeClass)
}

func (w *c33World) check(c *fw.Ctx, cs c33Case) {
	node := ua.MustParseNodeID(cs.Node)
	rt := ua.MustParseNodeID(cs.RefType)
	bd := &ua.BrowseDescription{NodeID: node, BrowseDirection: ua.BrowseDirection(cs.Direction), ReferenceTypeID: rt,
		IncludeSubtypes: cs.Subtypes, NodeClassMask: cs.ClassMask, ResultMask: 0x3f}
	res, pn := w.browse(bd)
	c.Eval(1)
	c.Class(fmt.Sprintf("subtypes=%v", cs.Subtypes), 1)
	if pn != nil {
		cs.Detail = pn.Msg
		c.Violation("c33-"+pn.Key(), "Browse panicked: "+pn.Msg, cs)
		return
	}
	null := rt.IntID() == 0 && rt.Namespace() == 0 && rt.StringID() == ""
	var allowed map[string]bool
	if !null {
		if cs.Subtypes {
			allowed = w.closure(rt.String())
		} else {
			allowed = map[string]bool{rt.String(): true}
		}
	}
	var want []string
	for _, r := range w.baseline[cs.Node] {
		switch ua.BrowseDirection(cs.Direction) {
		case ua.BrowseDirectionForward:
			if !r.IsForward {
				continue
			}
		case ua.BrowseDirectionInverse:
			if r.IsForward {
				continue
			}
		}
		if allowed != nil && (r.ReferenceTypeID == nil || !allowed[r.ReferenceTypeID.String()]) {
			continue
		}
		if cs.ClassMask != 0 && cs.ClassMask&uint32(r.NodeClass) == 0 {
			continue
		}
		want = append(want, refKey(r))
	}
	var got []string
	if res != nil {
		for _, r := range res.References {
			got = append(got, refKey(r))
		}
	}
	sort.Strings(want)
	sort.Strings(got)
	if len(want) > 0 {
		c.Class("nonempty-expected", 1)
	}
	if strings.Join(want, "\n") == strings.Join(got, "\n") {
		return
	}
	extra, missing := diffSorted(got, want), diffSorted(want, got)
	kind := "missing"
	if len(extra) > 0 {
		kind = "extra"
		if !cs.Subtypes && !null {
			kind = "extra:subtype-returned-although-not-requested"
		}
	}
	cs.Detail = fmt.Sprintf("expected %d references, got %d; extra=%v missing=%v", len(want), len(got), head(extra, 3), head(missing, 3))
	c.Violation("c33:"+kind, cs.Detail, cs)
}

func head(s []string, n int) []string {
	if len(s) > n {
		return s[:n]
	}
	return s
}

// diffSorted returns the elements of a that are not matched in b (multiset difference).
func diffSorted(a, b []string) []string {
	cnt := map[string]int{}
	for _, x := range b {
		cnt[x]++
	}
	var out []string
	for _, x := range a {
		if cnt[x] > 0 {
			cnt[x]--
		} else {
			out = append(out, x)
		}
	}
	return out
}

// refKey3 is refKey without the node class (the ledger and the nodeset do not carry it).
func refKey3(r *ua.ReferenceDescription) string {
	t, n := "", ""
	if r.ReferenceTypeID != nil {
		t = r.ReferenceTypeID.String()
	}
	if r.NodeID != nil && r.NodeID.NodeID != nil {
		n = r.NodeID.NodeID.String()
	}
	return fmt.Sprintf("%s|%v|%s", t, r.IsForward, n)
}

// groundTruth compares the unfiltered browse with references known independently of Browse: those this
// harness added through Node.AddRef (exactly, for nodes it owns) and those the standard nodeset XML declares on a
// node (as a lower bound: the import may add inverse references on top).
func (w *c33World) groundTruth(c *fw.Ctx) {
	for node, refs := range w.ledger {
		var got []string
		for _, r := range w.baseline[node] {
			got = append(got, refKey3(r))
		}
		want := append([]string{}, refs...)
		sort.Strings(got)
		sort.Strings(want)
		c.Eval(1)
		c.Class("ground-truth:added-references", int64(len(want)))
		if missing := diffSorted(want, got); len(missing) > 0 {
			c.Violation("c33:added-reference-not-returned", fmt.Sprintf("unfiltered browse of %s lacks references added with AddRef: %v", node, head(missing, 4)),
				c33Case{Node: node, RefType: "i=0", Subtypes: true, Detail: fmt.Sprint(missing)})
		}
		if extra := diffSorted(got, want); len(extra) > 0 && w.exact[node] {
			c.Violation("c33:reference-returned-that-was-never-added", fmt.Sprintf("unfiltered browse of %s returns references nobody added: %v", node, head(extra, 4)),
				c33Case{Node: node, RefType: "i=0", Subtypes: true, Detail: fmt.Sprint(extra)})
		}
	}
	// the standard nodeset, parsed here (not by the server)
	type xref struct {
		Type    string `xml:"ReferenceType,attr"`
		Forward string `xml:"IsForward,attr"`
		Target  string `xml:",chardata"`
	}
	type xnode struct {
		ID   string `xml:"NodeId,attr"`
		Refs []xref `xml:"References>Reference"`
	}
	var set struct {
		Aliases []struct {
			Name string `xml:"Alias,attr"`
			ID   string `xml:",chardata"`
		} `xml:"Aliases>Alias"`
		Nodes []xnode `xml:",any"`
	}
	if err := xml.Unmarshal(schema.OpcUaNodeSet2, &set); err != nil {
		c.Inconclusive("nodeset XML: " + err.Error())
		return
	}
	alias := map[string]string{}
	for _, a := range set.Aliases {
		alias[a.Name] = strings.TrimSpace(a.ID)
	}
	// server.New replaces these imported nodes by dynamic ones (namespace array, server status, capabilities);
	// their references are whatever the replacement carries, which is not Browse's business
	replaced := map[string]bool{"i=2255": true, "i=2992": true, "i=2993": true, "i=11705": true}
	for i := 2256; i <= 2266; i++ {
		replaced[fmt.Sprintf("i=%d", i)] = true
	}
	checked, declared := 0, 0
	for _, n := range set.Nodes {
		base, ok := w.baseline[n.ID]
		if n.ID == "" || !ok || replaced[n.ID] {
			continue
		}
		have := map[string]int{}
		for _, r := range base {
			have[refKey3(r)]++
		}
		for _, r := range n.Refs {
			t := r.Type
			if a, ok := alias[t]; ok {
				t = a
			}
			k := fmt.Sprintf("%s|%v|%s", t, r.Forward != "false", strings.TrimSpace(r.Target))
			declared++
			if have[k] == 0 {
				c.Class("nodeset-reference-missing:"+n.ID, 1)
				c.Violation("c33:nodeset-reference-not-returned", fmt.Sprintf("the nodeset declares reference %s on %s, the unfiltered browse does not return it", k, n.ID),
					c33Case{Node: n.ID, RefType: "i=0", Subtypes: true, Detail: k})
			}
		}
		checked++
	}
	c.Eval(int64(checked))
	c.Extra("nodeset_nodes_compared", checked)
	c.Extra("nodeset_references_compared", declared)
}

// lateType: after the address space has been browsed with every filter, the application defines a reference type
// below HasOrderedComponent and uses it; browses with each of its supertypes and subtypes included must return the
// new reference, browses with the exact supertypes must not.
func (w *c33World) lateType(c *fw.Ctx) {
	srv := w.srv
	ns := server.NewNodeNameSpace(srv, "veriflate")
	parent := srv.Node(ua.NewNumericNodeID(0, id.HasOrderedComponent))
	if parent == nil {
		c.Inconclusive("HasOrderedComponent is not in the address space")
		return
	}
	lateID := ua.NewNumericNodeID(ns.ID(), 5000)
	late := ns.AddNode(server.NewNode(lateID, server.Attributes{
		ua.AttributeIDNodeClass:  server.DataValueFromValue(uint32(ua.NodeClassReferenceType)),
		ua.AttributeIDBrowseName: server.DataValueFromValue(attrs.BrowseName("Feeds")),
	}, nil, nil))
	parent.AddRef(late, id.HasSubtype, true)
	late.AddRef(parent, id.HasSubtype, false)
	target := ns.AddNode(server.NewNode(ua.NewNumericNodeID(ns.ID(), 5001), server.Attributes{
		ua.AttributeIDNodeClass:  server.DataValueFromValue(uint32(ua.NodeClassVariable)),
		ua.AttributeIDBrowseName: server.DataValueFromValue(attrs.BrowseName("Target")),
	}, nil, func() *ua.DataValue { return server.DataValueFromValue(int64(1)) }))
	srcID := ua.NewNumericNodeID(ns.ID(), 5002)
	ns.AddNode(server.NewNode(srcID, server.Attributes{
		ua.AttributeIDNodeClass:  server.DataValueFromValue(uint32(ua.NodeClassObject)),
		ua.AttributeIDBrowseName: server.DataValueFromValue(attrs.BrowseName("Source")),
	}, server.References{&ua.ReferenceDescription{ReferenceTypeID: lateID, IsForward: true, NodeID: ua.NewExpandedNodeID(target.ID(), "", 0),
		BrowseName: target.BrowseName(), DisplayName: target.DisplayName(), NodeClass: target.NodeClass(), TypeDefinition: target.DataType()}}, nil))
	chain := []uint32{id.References, id.HierarchicalReferences, id.HasChild, id.Aggregates, id.HasComponent, id.HasOrderedComponent}
	has := func(t *ua.NodeID, sub bool) (bool, *fw.Panic) {
		res, pn := w.browse(&ua.BrowseDescription{NodeID: srcID, BrowseDirection: ua.BrowseDirectionForward, ReferenceTypeID: t, IncludeSubtypes: sub, ResultMask: uint32(ua.BrowseResultMaskAll)})
		if pn != nil || res == nil {
			return false, pn
		}
		for _, r := range res.References {
			if r.NodeID != nil && r.NodeID.NodeID != nil && r.NodeID.NodeID.String() == target.ID().String() {
				return true, nil
			}
		}
		return false, nil
	}
	for _, sub := range []bool{true, false} {
		for _, t := range append([]*ua.NodeID{lateID}, func() (out []*ua.NodeID) {
			for _, x := range chain {
				out = append(out, ua.NewNumericNodeID(0, x))
			}
			return
		}()...) {
			want := sub || t.String() == lateID.String()
			got, pn := has(t, sub)
			cs := c33Case{Node: srcID.String(), Direction: 0, RefType: t.String(), Subtypes: sub}
			c.Eval(1)
			switch {
			case pn != nil:
				c.Violation("c33:browse-"+pn.Key(), "Browse panicked: "+pn.Msg, cs)
			case want && !got:
				c.Violation("c33:missing:reference-of-a-type-defined-after-earlier-browses", fmt.Sprintf("a reference of type %s, a subtype of HasOrderedComponent defined after the address space had been browsed, is not returned for reference type %s (subtypes %v)", lateID, t, sub), cs)
			case !want && got:
				c.Violation("c33:extra:subtype-returned-although-not-requested", fmt.Sprintf("a reference of type %s is returned for the exact reference type %s", lateID, t), cs)
			}
		}
	}
	c.Class("late-reference-type-phase", 1)
}

func c33Run(c *fw.Ctx) error {
	w, err := c33Build()
	if err != nil {
		c.Violation("c33:unfiltered-browse-fails", err.Error(), nil)
		return nil
	}
	if c.Batch == 0 {
		defer w.lateType(c)
	}
	if c.Batch == 0 && c.Resume == 0 {
		w.groundTruth(c)
	}
	c.Extra("nodes_discovered", len(w.nodes))
	c.Extra("reference_types", len(w.refTypes))
	types := append([]string{"i=0", "i=999999"}, w.refTypes...)
	masks := []uint32{0, 1, 2, 4, 8, 16, 32, 64, 128, 3, 0xff}
	idx := int64(0)
	step := c.Pick(23, 1)
	for ni, n := range w.nodes {
		key := n.String()
		interesting := len(w.baseline[key]) >= 3
		for _, dir := range []uint32{0, 1, 2} {
			for ti, t := range types {
				for _, sub := range []bool{true, false} {
					i := idx
					idx++
					if int(i%int64(c.NBatch)) != c.Batch || i < c.Resume {
						continue
					}
					// quick: all combinations for a sample of nodes (every 23rd, plus those of the added namespace)
					if step > 1 && ni%step != 0 && n.Namespace() == 0 {
						continue
					}
					if !interesting && ti > 12 {
						continue
					}
					r := c.Rng("mask", i)
					ms := []uint32{0, masks[r.Intn(len(masks))]}
					if n.Namespace() != 0 || !c.Quick() {
						ms = append(ms, masks[r.Intn(len(masks))], uint32(r.Intn(256)))
					}
					for _, m := range ms {
						cs := c33Case{Node: key, Direction: dir, RefType: t, Subtypes: sub, ClassMask: m}
						c.Journal(i, cs)
						w.check(c, cs)
						c.Nontrivial(fmt.Sprintf("%s/%d/%s/%v/%d", key, dir, t, sub, m))
					}
					if i%50021 == 0 {
						c.Sample(c33Case{Node: key, Direction: dir, RefType: t, Subtypes: sub})
					}
					c.Done(i)
				}
			}
		}
	}
	return nil
}

func init() {
	fw.Register("C33", fw.Spec{
		Plan: func(tier string) fw.Plan {
			p := fw.Plan{Batches: 8, TimeoutS: 900, MinNontrivial: 10000, Level: "exploration",
				Rule:        "in-process Namespace.Browse of the real server over the nodes discovered by breadth-first unfiltered browsing of the standard address space plus an added namespace (quick: every 23rd standard node and all added nodes; thorough: all nodes) x 3 directions x all reference types of the hierarchy (abstract ones included) + null + unknown x {subtypes, not} x class masks {0, single classes, combinations, random}; oracle: unfiltered browse filtered by direction, (type = T) or (subtypes and type in closure(T), closure computed from forward HasSubtype edges), class mask; compared as multisets; afterwards a reference type is defined below HasOrderedComponent and used, and browses with each of its six supertypes (with and without subtypes) are checked; distinct = distinct browse descriptions",
				Assumptions: []string{"the unfiltered browse (null reference type, both directions, mask 0) is the reference set for the filter oracle; it is itself compared with ground truth: references added by the harness through Node.AddRef (incl. targets in a map namespace and never-registered targets) and the references the standard nodeset XML declares (parsed independently, lower bound)"}}
			if tier == "thorough" {
				p.Batches, p.TimeoutS, p.MinNontrivial = 16, 3000, 500000
			}
			return p
		},
		Run: c33Run,
		Replay: func(c *fw.Ctx, raw json.RawMessage) error {
			var cs c33Case
			if err := json.Unmarshal(raw, &cs); err != nil {
				return err
			}
			w, err := c33Build()
			if err != nil {
				return err
			}
			cs.Detail = ""
			w.check(c, cs)
			return nil
		},
	})
}
