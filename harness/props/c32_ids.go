package props

import (
	"fmt"
	"strings"
	"sync"
	"time"

	"github.com/gopcua/opcua/ua"

	"verifharness/fw"
	"verifharness/refpeer"
)

// C32: subscription and monitored item ids are unique among those in use and scoped to their session.
// Real server in the worker process (tables inspected through the exported services), 2-4 sessions of the
// independent scripted client, model of live ids built from acknowledged creates and deletes.

type c32Op struct {
	Step    int      `json:"step"`
	Session int      `json:"session"`
	Op      string   `json:"op"`
	IDs     []uint32 `json:"ids,omitempty"`
	Result  string   `json:"result,omitempty"`
	History []string `json:"recent_ops,omitempty"`
}

type c32Sess struct {
	ch  *refpeer.Channel
	tok *ua.NodeID
}

func c32History(c *fw.Ctx, run int64) {
	r := c.Rng("c32", run)
	rs, err := startRealServer(srvCfg{Vars: 3})
	if err != nil {
		c.Inconclusive("server start: " + err.Error())
		return
	}
	defer rs.Srv.Close()
	addr := strings.TrimPrefix(rs.Endpoint, "opc.tcp://")
	nsess := 2 + r.Intn(3)
	var ss []*c32Sess
	for i := 0; i < nsess; i++ {
		ch, tok, err := refpeer.OpenSession(addr, rs.Endpoint)
		if err != nil {
			c.Inconclusive("session: " + err.Error())
			return
		}
		defer ch.Close()
		ss = append(ss, &c32Sess{ch, tok})
	}
	subOwner := map[uint32]int{}  // live subscription id -> session
	itemOwner := map[uint32]int{} // live item id -> session
	itemSub := map[uint32]uint32{}
	var hist []string
	srvSubs := func() map[uint32]bool {
		m := map[uint32]bool{}
		rs.Srv.SubscriptionService.Mu.Lock()
		for id := range rs.Srv.SubscriptionService.Subs {
			m[id] = true
		}
		rs.Srv.SubscriptionService.Mu.Unlock()
		return m
	}
	srvItems := func() map[uint32]ua.MonitoringMode {
		m := map[uint32]ua.MonitoringMode{}
		rs.Srv.MonitoredItemService.Mu.Lock()
		for id, it := range rs.Srv.MonitoredItemService.Items {
			m[id] = it.Mode
		}
		rs.Srv.MonitoredItemService.Mu.Unlock()
		return m
	}
	waitFor := func(f func() bool) bool {
		for i := 0; i < 200; i++ {
			if f() {
				return true
			}
			time.Sleep(5 * time.Millisecond)
		}
		return false
	}
	pick := func(m map[uint32]int, own int, foreign bool) (uint32, bool) {
		var cand []uint32
		for id, o := range m {
			if (o == own) != foreign {
				cand = append(cand, id)
			}
		}
		if len(cand) == 0 {
			return 0, false
		}
		// deterministic order
		for i := range cand {
			for j := i + 1; j < len(cand); j++ {
				if cand[j] < cand[i] {
					cand[i], cand[j] = cand[j], cand[i]
				}
			}
		}
		return cand[r.Intn(len(cand))], true
	}
	// a request without an answer may or may not have taken effect: the model cannot follow, the history ends there
	unanswered := ""
	ask := func(s *c32Sess, req ua.Request, tok *ua.NodeID, d time.Duration) (interface{}, error) {
		v, err := s.ch.Request(req, tok, d)
		if err != nil && v == nil {
			unanswered = fmt.Sprintf("%T: %v", req, err)
		}
		return v, err
	}
	steps := c.Pick(60, 250)
	// a subscription or item that nobody deleted stays: the model's live objects exist on the server
	vanished := func(step int) bool {
		ss, its := srvSubs(), srvItems()
		for id, o := range subOwner {
			if !ss[id] {
				op := c32Op{Step: step, Session: o, Op: "invariant", IDs: []uint32{id}, History: hist}
				c.Violation("c32:subscription-vanished", fmt.Sprintf("subscription %d of session %d is gone although no request deleted it", id, o), op)
				return true
			}
		}
		for id, o := range itemOwner {
			if _, there := its[id]; !there {
				op := c32Op{Step: step, Session: o, Op: "invariant", IDs: []uint32{id}, History: hist}
				c.Violation("c32:item-vanished", fmt.Sprintf("monitored item %d of session %d is gone although no request deleted it", id, o), op)
				return true
			}
		}
		return false
	}
	defer func() {
		time.Sleep(150 * time.Millisecond)
		if vanished(steps) || unanswered != "" {
			return
		}
		// concurrent churn: every session creates and deletes subscriptions of its own at the same time as the
		// others; an id handed out must not be live elsewhere, and what a session created it can delete
		var mu sync.Mutex
		live := map[uint32]int{}
		var wg sync.WaitGroup
		for si := range ss {
			wg.Add(1)
			go func(si int) {
				defer wg.Done()
				s := ss[si]
				for k := 0; k < 25; k++ {
					v, err := s.ch.Request(&ua.CreateSubscriptionRequest{RequestedPublishingInterval: 20, RequestedLifetimeCount: 100000, RequestedMaxKeepAliveCount: 1000, PublishingEnabled: true}, s.tok, 3*time.Second)
					resp, ok := v.(*ua.CreateSubscriptionResponse)
					if err != nil || !ok || resp.ResponseHeader.ServiceResult != ua.StatusOK {
						return
					}
					id := resp.SubscriptionID
					mu.Lock()
					o, dup := live[id]
					live[id] = si
					mu.Unlock()
					if dup {
						c.Violation("c32:subscription-id-reused-while-live", fmt.Sprintf("concurrent churn: CreateSubscription returned id %d to session %d while session %d still holds it", id, si, o), c32Op{Step: steps, Session: si, Op: "churn", IDs: []uint32{id}})
						return
					}
					// remove the id from the live set before the delete is sent: from then on the server may reuse it
					mu.Lock()
					delete(live, id)
					mu.Unlock()
					v, err = s.ch.Request(&ua.DeleteSubscriptionsRequest{SubscriptionIDs: []uint32{id}}, s.tok, 3*time.Second)
					dr, ok := v.(*ua.DeleteSubscriptionsResponse)
					if err != nil || !ok || len(dr.Results) != 1 {
						return
					}
					c.Eval(1)
					if dr.Results[0] != ua.StatusOK {
						c.Violation("c32:own-subscription-vanished", fmt.Sprintf("concurrent churn: session %d created subscription %d and nobody else deleted it, but its own DeleteSubscriptions is answered %v", si, id, dr.Results[0]), c32Op{Step: steps, Session: si, Op: "churn", IDs: []uint32{id}})
						return
					}
				}
			}(si)
		}
		wg.Wait()
		c.Class("concurrent-churn-phases", 1)
	}()
	for step := 0; step < steps; step++ {
		if step%4 == 3 && vanished(step) {
			return
		}
		si := r.Intn(nsess)
		s := ss[si]
		op := c32Op{Step: step, Session: si}
		viol := func(key, desc string) {
			op.History = hist
			c.Violation(key, desc, op)
		}
		switch x := r.Intn(100); {
		case x < 30:
			op.Op = "CreateSubscription"
			c.Journal(run*10000+int64(step), op)
			v, err := ask(s, &ua.CreateSubscriptionRequest{RequestedPublishingInterval: 100, RequestedLifetimeCount: 100000, RequestedMaxKeepAliveCount: 1000, PublishingEnabled: true}, s.tok, 3*time.Second)
			resp, ok := v.(*ua.CreateSubscriptionResponse)
			if err != nil || !ok || resp.ResponseHeader.ServiceResult != ua.StatusOK {
				op.Result = fmt.Sprintf("%T %v", v, err)
				break
			}
			op.IDs, op.Result = []uint32{resp.SubscriptionID}, "Good"
			if o, live := subOwner[resp.SubscriptionID]; live {
				viol("c32:subscription-id-reused-while-live", fmt.Sprintf("CreateSubscription returned id %d which is still in use by session %d", resp.SubscriptionID, o))
			}
			subOwner[resp.SubscriptionID] = si
		case x < 50:
			op.Op = "DeleteSubscriptions"
			var ids []uint32
			kinds := []string{}
			if id, ok := pick(subOwner, si, false); ok && r.Intn(3) > 0 {
				ids, kinds = append(ids, id), append(kinds, "own")
			}
			if id, ok := pick(subOwner, si, true); ok && r.Intn(2) == 0 {
				ids, kinds = append(ids, id), append(kinds, "foreign")
			}
			if r.Intn(3) == 0 {
				ids, kinds = append(ids, 900000+uint32(r.Intn(100))), append(kinds, "unknown")
			}
			if len(ids) == 0 {
				continue
			}
			op.IDs = ids
			c.Journal(run*10000+int64(step), op)
			v, err := ask(s, &ua.DeleteSubscriptionsRequest{SubscriptionIDs: ids}, s.tok, 3*time.Second)
			resp, ok := v.(*ua.DeleteSubscriptionsResponse)
			if err != nil || !ok || len(resp.Results) != len(ids) {
				op.Result = fmt.Sprintf("%T %v", v, err)
				break
			}
			op.Result = fmt.Sprint(resp.Results)
			for i, id := range ids {
				switch kinds[i] {
				case "own":
					if resp.Results[i] == ua.StatusOK {
						if !waitFor(func() bool { return !srvSubs()[id] }) {
							c.Class("note:own-delete-not-effective", 1)
						}
						delete(subOwner, id)
						for it, sub := range itemSub {
							if sub == id {
								delete(itemOwner, it)
								delete(itemSub, it)
							}
						}
					}
				case "foreign":
					if resp.Results[i] == ua.StatusOK {
						viol("c32:foreign-subscription-deleted:status-good", fmt.Sprintf("session %d deleted subscription %d of session %d: Good", si, id, subOwner[id]))
					}
					time.Sleep(30 * time.Millisecond)
					if !srvSubs()[id] {
						viol("c32:foreign-subscription-deleted:gone", fmt.Sprintf("subscription %d of session %d is gone after a delete by session %d", id, subOwner[id], si))
						delete(subOwner, id)
					}
				case "unknown":
					if resp.Results[i] == ua.StatusOK {
						viol("c32:unknown-subscription-delete-good", fmt.Sprintf("delete of unknown subscription %d answered Good", id))
					}
				}
			}
		case x < 72:
			op.Op = "CreateMonitoredItems"
			foreign := r.Intn(4) == 0
			sub, ok := pick(subOwner, si, foreign)
			if !ok {
				continue
			}
			op.IDs = []uint32{sub}
			if foreign {
				op.Op += "(foreign subscription)"
			}
			c.Journal(run*10000+int64(step), op)
			n := 1 + r.Intn(3)
			var its []*ua.MonitoredItemCreateRequest
			for k := 0; k < n; k++ {
				its = append(its, &ua.MonitoredItemCreateRequest{ItemToMonitor: &ua.ReadValueID{NodeID: rs.Vars[r.Intn(len(rs.Vars))].ID(), AttributeID: ua.AttributeIDValue, DataEncoding: &ua.QualifiedName{}},
					MonitoringMode: ua.MonitoringModeReporting, RequestedParameters: &ua.MonitoringParameters{ClientHandle: uint32(step*10 + k), SamplingInterval: 100, QueueSize: 1, Filter: ua.NewExtensionObject(nil)}})
			}
			before := srvItems()
			v, err := ask(s, &ua.CreateMonitoredItemsRequest{SubscriptionID: sub, TimestampsToReturn: ua.TimestampsToReturnBoth, ItemsToCreate: its}, s.tok, 3*time.Second)
			resp, ok := v.(*ua.CreateMonitoredItemsResponse)
			if foreign {
				time.Sleep(20 * time.Millisecond)
				if len(srvItems()) != len(before) {
					viol("c32:items-created-in-foreign-subscription", fmt.Sprintf("session %d created monitored items in subscription %d of session %d", si, sub, subOwner[sub]))
				}
				if ok && resp.ResponseHeader.ServiceResult == ua.StatusOK {
					for _, res := range resp.Results {
						if res.StatusCode == ua.StatusOK {
							viol("c32:items-created-in-foreign-subscription", fmt.Sprintf("session %d: CreateMonitoredItems in foreign subscription %d answered Good", si, sub))
						}
					}
				}
				break
			}
			if err != nil || !ok {
				op.Result = fmt.Sprintf("%T %v", v, err)
				break
			}
			for _, res := range resp.Results {
				if res.StatusCode != ua.StatusOK {
					continue
				}
				if o, live := itemOwner[res.MonitoredItemID]; live {
					viol("c32:monitored-item-id-reused-while-live", fmt.Sprintf("monitored item id %d handed out again while in use by session %d", res.MonitoredItemID, o))
				}
				itemOwner[res.MonitoredItemID] = si
				itemSub[res.MonitoredItemID] = sub
				op.IDs = append(op.IDs, res.MonitoredItemID)
			}
		case x < 86 && r.Intn(3) == 0:
			// one request naming an id that must be refused (a foreign item, else an unknown one) before an own item
			op.Op = "DeleteMonitoredItems(refused id, own item)"
			own, ok := pick(itemOwner, si, false)
			if !ok {
				continue
			}
			other, isForeign := pick(itemOwner, si, true)
			if !isForeign {
				other = 810000 + uint32(r.Intn(50))
			}
			op.IDs = []uint32{other, own}
			c.Journal(run*10000+int64(step), op)
			v, err := ask(s, &ua.DeleteMonitoredItemsRequest{SubscriptionID: itemSub[own], MonitoredItemIDs: []uint32{other, own}}, s.tok, 3*time.Second)
			resp, ok := v.(*ua.DeleteMonitoredItemsResponse)
			if err != nil || !ok || len(resp.Results) != 2 {
				op.Result = fmt.Sprintf("%T %v", v, err)
				break
			}
			op.Result = fmt.Sprint(resp.Results)
			if resp.Results[0] == ua.StatusOK {
				viol("c32:foreign-item-deleted:status-good", fmt.Sprintf("session %d deleted monitored item %d which is not its own: Good", si, other))
			}
			time.Sleep(30 * time.Millisecond)
			if isForeign {
				if _, there := srvItems()[other]; !there {
					viol("c32:foreign-item-deleted:gone", fmt.Sprintf("monitored item %d of session %d is gone after a delete request of session %d that named it before an own item", other, itemOwner[other], si))
					delete(itemOwner, other)
					delete(itemSub, other)
				}
			}
			if resp.Results[1] == ua.StatusOK {
				if !waitFor(func() bool { _, there := srvItems()[own]; return !there }) {
					viol("c32:deleted-item-still-there", fmt.Sprintf("monitored item %d of session %d was deleted with Good but is still on the server", own, si))
				}
				delete(itemOwner, own)
				delete(itemSub, own)
			}
		case x < 86:
			op.Op = "DeleteMonitoredItems"
			foreign := r.Intn(2) == 0
			it, ok := pick(itemOwner, si, foreign)
			if !ok {
				continue
			}
			ownSub, ok2 := pick(subOwner, si, false)
			if !ok2 {
				ownSub = itemSub[it]
			}
			if !foreign {
				ownSub = itemSub[it]
			}
			op.IDs = []uint32{it}
			if foreign {
				op.Op += "(foreign item)"
			}
			c.Journal(run*10000+int64(step), op)
			v, err := ask(s, &ua.DeleteMonitoredItemsRequest{SubscriptionID: ownSub, MonitoredItemIDs: []uint32{it, 800000 + uint32(r.Intn(50))}}, s.tok, 3*time.Second)
			resp, ok := v.(*ua.DeleteMonitoredItemsResponse)
			if err != nil || !ok || len(resp.Results) != 2 {
				op.Result = fmt.Sprintf("%T %v", v, err)
				break
			}
			op.Result = fmt.Sprint(resp.Results)
			if resp.Results[1] == ua.StatusOK {
				viol("c32:unknown-item-delete-good", "delete of an unknown monitored item answered Good")
			}
			if foreign {
				if resp.Results[0] == ua.StatusOK {
					viol("c32:foreign-item-deleted:status-good", fmt.Sprintf("session %d deleted monitored item %d of session %d: Good", si, it, itemOwner[it]))
				}
				time.Sleep(30 * time.Millisecond)
				if _, there := srvItems()[it]; !there {
					viol("c32:foreign-item-deleted:gone", fmt.Sprintf("monitored item %d of session %d is gone after a delete by session %d", it, itemOwner[it], si))
					delete(itemOwner, it)
					delete(itemSub, it)
				}
			} else if resp.Results[0] == ua.StatusOK {
				waitFor(func() bool { _, there := srvItems()[it]; return !there })
				delete(itemOwner, it)
				delete(itemSub, it)
			}
		default:
			op.Op = "SetMonitoringMode"
			foreign := r.Intn(2) == 0
			it, ok := pick(itemOwner, si, foreign)
			if !ok {
				continue
			}
			op.IDs = []uint32{it}
			if foreign {
				op.Op += "(foreign item)"
			}
			c.Journal(run*10000+int64(step), op)
			before := srvItems()[it]
			mode := ua.MonitoringModeDisabled
			if before == ua.MonitoringModeDisabled {
				mode = ua.MonitoringModeSampling
			}
			sub := itemSub[it]
			if own, ok := pick(subOwner, si, false); ok && foreign {
				sub = own
			}
			v, err := ask(s, &ua.SetMonitoringModeRequest{SubscriptionID: sub, MonitoringMode: mode, MonitoredItemIDs: []uint32{it, 800000}}, s.tok, 3*time.Second)
			resp, ok := v.(*ua.SetMonitoringModeResponse)
			if err != nil || !ok || len(resp.Results) != 2 {
				op.Result = fmt.Sprintf("%T %v", v, err)
				break
			}
			op.Result = fmt.Sprint(resp.Results)
			if resp.Results[1] == ua.StatusOK {
				viol("c32:unknown-item-mode-good", "SetMonitoringMode of an unknown monitored item answered Good")
			}
			if foreign {
				if resp.Results[0] == ua.StatusOK {
					viol("c32:foreign-item-mode-changed:status-good", fmt.Sprintf("session %d changed the monitoring mode of item %d of session %d: Good", si, it, itemOwner[it]))
				}
				if after := srvItems()[it]; after != before {
					viol("c32:foreign-item-mode-changed:effect", fmt.Sprintf("monitoring mode of item %d of session %d changed %v -> %v by session %d", it, itemOwner[it], before, after, si))
				}
			}
		}
		c.Eval(1)
		c.Class("op:"+op.Op, 1)
		hist = append(hist, fmt.Sprintf("s%d %s %v -> %s", si, op.Op, op.IDs, op.Result))
		if unanswered != "" {
			c.Inconclusive("a request stayed without an answer (" + classOf(unanswered) + "), the history is cut short")
			break
		}
		if len(hist) > 10 {
			hist = hist[1:]
		}
		// the server's tables must not hold two subscriptions / items under one id (ids are map keys) and every
		// live id of the model must still exist: a live subscription replaced by a new one shows as an owner change
		for id := range subOwner {
			if !srvSubs()[id] {
				c.Class("note:live-subscription-missing-in-server", 1)
			}
		}
		c.Nontrivial(fmt.Sprintf("%d/%d/%s/%v", run, step, op.Op, op.IDs))
	}
	c.Done(run)
	if run%7 == 0 {
		c.Sample(map[string]interface{}{"sessions": nsess, "last_ops": hist})
	}
}

func c32Run(c *fw.Ctx) error {
	runs := int64(c.Pick(24, 1200))
	for i := int64(0); i < runs; i++ {
		if int(i%int64(c.NBatch)) != c.Batch || i < c.Resume {
			continue
		}
		c32History(c, i)
	}
	return nil
}

func init() {
	fw.Register("C32", fw.Spec{
		Plan: func(tier string) fw.Plan {
			p := fw.Plan{Batches: 8, TimeoutS: 900, MinNontrivial: 500, Level: "exploration",
				Rule:        "histories of 60 (quick) / 250 (thorough) operations by 2-4 sessions of the independent scripted client on the real server: CreateSubscription, DeleteSubscriptions (own, foreign, unknown ids), CreateMonitoredItems (own and foreign subscriptions), DeleteMonitoredItems and SetMonitoringMode (own, foreign, unknown items); oracle: model of live ids per session built from acknowledged creates/deletes: a create must not return a live id; foreign deletes / mode changes must not answer Good and must leave the victim (SubscriptionService.Subs, MonitoredItemService.Items inspected in-process) unchanged; distinct = distinct (run, step, op, ids)",
				Assumptions: []string{"subscriptions are created with lifetime counts large enough not to expire during a history"}}
			if tier == "thorough" {
				p.Batches, p.TimeoutS, p.MinNontrivial = 16, 3000, 50000
			}
			return p
		},
		Run: c32Run,
	})
}
