package props

import (
	"encoding/base64"
	"encoding/json"
	"fmt"
	"math/rand"

	"github.com/gopcua/opcua/ua"

	"verifharness/fw"
	"verifharness/gen"
)

// C04: ParseNodeID(n.String()) == n, Equal == identity, nsu= resolution, registry lookups.

// ident is the independent notion of identity: namespace, identifier kind, identifier value.
type ident struct {
	NS   uint16
	Kind string // "i", "s", "g", "b"
	Val  string
}

func identOf(n *ua.NodeID) ident {
	switch n.Type() {
	case ua.NodeIDTypeTwoByte, ua.NodeIDTypeFourByte, ua.NodeIDTypeNumeric:
		return ident{n.Namespace(), "i", fmt.Sprint(n.IntID())}
	case ua.NodeIDTypeString:
		return ident{n.Namespace(), "s", n.StringID()}
	case ua.NodeIDTypeGUID:
		return ident{n.Namespace(), "g", n.StringID()}
	default:
		return ident{n.Namespace(), "b", n.StringID()} // base64 of the bytes
	}
}

// nodeSpec describes a NodeID in terms of its public constructor (replayable).
type nodeSpec struct {
	Ctor string `json:"ctor"` // two, four, num, str, guid, bytes
	NS   uint16 `json:"ns"`
	Num  uint32 `json:"num,omitempty"`
	Str  string `json:"str,omitempty"` // string id / guid text / base64 of opaque bytes
}

func (s nodeSpec) build() *ua.NodeID {
	switch s.Ctor {
	case "two":
		return ua.NewTwoByteNodeID(uint8(s.Num))
	case "four":
		return ua.NewFourByteNodeID(uint8(s.NS), uint16(s.Num))
	case "num":
		return ua.NewNumericNodeID(s.NS, s.Num)
	case "str":
		return ua.NewStringNodeID(s.NS, s.Str)
	case "guid":
		return ua.NewGUIDNodeID(s.NS, s.Str)
	default:
		b, _ := base64.StdEncoding.DecodeString(s.Str)
		return ua.NewByteStringNodeID(s.NS, b)
	}
}

func (s nodeSpec) normalize() nodeSpec {
	switch s.Ctor {
	case "two":
		s.NS, s.Num = 0, s.Num&0xff
	case "four":
		s.NS, s.Num = s.NS&0xff, s.Num&0xffff
	}
	return s
}

type c04Checker struct{ c *fw.Ctx }

func (k *c04Checker) roundTrip(sp nodeSpec) {
	c := k.c
	sp = sp.normalize()
	n := sp.build()
	c.Eval(1)
	c.Class("roundtrip:"+sp.Ctor, 1)
	var s string
	var p *ua.NodeID
	var err error
	if pn := fw.Catch(func() { s = n.String(); p, err = ua.ParseNodeID(s) }); pn != nil {
		c.Violation("roundtrip-"+pn.Key(), "String/ParseNodeID panicked: "+pn.Msg, sp)
		return
	}
	c.Nontrivial("rt:" + s + "|" + sp.Ctor)
	if err != nil {
		c.Violation("parse-error:"+sp.Ctor+":"+classOfString(sp), fmt.Sprintf("ParseNodeID(%q) failed: %v", s, err), sp)
		return
	}
	if identOf(p) != identOf(n) {
		c.Violation("parse-differs:"+sp.Ctor+":"+classOfString(sp), fmt.Sprintf("ParseNodeID(%q) = %+v, want %+v", s, identOf(p), identOf(n)), sp)
		return
	}
	if !p.Equal(n) || !n.Equal(p) {
		c.Violation("parse-not-equal:"+sp.Ctor, fmt.Sprintf("ParseNodeID(%q) is not Equal to the original", s), sp)
	}
}

func classOfString(sp nodeSpec) string {
	if sp.Ctor != "str" {
		return ""
	}
	cl := ""
	for _, ch := range []string{";", "="} {
		for i := 0; i < len(sp.Str); i++ {
			if string(sp.Str[i]) == ch {
				cl += ch
				break
			}
		}
	}
	if sp.NS == 0 {
		return "ns0" + cl
	}
	return "nsN" + cl
}

type pairSpec struct {
	A nodeSpec `json:"a"`
	B nodeSpec `json:"b"`
}

func (k *c04Checker) pair(a, b nodeSpec) {
	c := k.c
	a, b = a.normalize(), b.normalize()
	na, nb := a.build(), b.build()
	c.Eval(1)
	want := identOf(na) == identOf(nb)
	var got, got2 bool
	if pn := fw.Catch(func() { got = na.Equal(nb); got2 = nb.Equal(na) }); pn != nil {
		c.Violation("equal-"+pn.Key(), "Equal panicked: "+pn.Msg, pairSpec{a, b})
		return
	}
	c.Class(fmt.Sprintf("pair:same=%v", want), 1)
	c.Nontrivial(fmt.Sprintf("pair:%+v|%+v", a, b))
	if got != want || got2 != want {
		c.Violation(fmt.Sprintf("equal-mismatch:%s/%s:want=%v", a.Ctor, b.Ctor, want),
			fmt.Sprintf("Equal(%s, %s) = %v/%v but identity says %v", na, nb, got, got2, want), pairSpec{a, b})
	}
	// a registry keyed by node id must agree with identity
	reg := ua.NewTypeRegistry()
	type marker struct{ X int }
	if err := reg.Register(na, new(marker)); err == nil {
		found := reg.New(nb) != nil
		if found != want {
			c.Violation(fmt.Sprintf("registry-mismatch:%s/%s:want=%v", a.Ctor, b.Ctor, want),
				fmt.Sprintf("registry keyed by %s answers lookup of %s with found=%v, identity says %v", na, nb, found, want), pairSpec{a, b})
		}
	}
}

type nsuSpec struct {
	Table []string `json:"table"`
	URI   string   `json:"uri"`
	ID    nodeSpec `json:"id"`
}

func (k *c04Checker) nsu(sp nsuSpec) {
	c := k.c
	c.Eval(1)
	c.Class("nsu", 1)
	id := sp.ID.normalize()
	id.NS = 0
	n := id.build()
	idtxt := n.String() // ns 0 form: "i=..", "s=.." ...
	txt := "nsu=" + sp.URI + ";" + idtxt
	want := -1
	for i, u := range sp.Table {
		if u == sp.URI {
			want = i
			break
		}
	}
	var e *ua.ExpandedNodeID
	var err error
	if pn := fw.Catch(func() { e, err = ua.ParseExpandedNodeID(txt, sp.Table) }); pn != nil {
		c.Violation("nsu-"+pn.Key(), "ParseExpandedNodeID panicked: "+pn.Msg, sp)
		return
	}
	c.Nontrivial("nsu:" + txt + fmt.Sprint(sp.Table))
	if want < 0 {
		if err == nil {
			c.Violation("nsu-unknown-uri-accepted", fmt.Sprintf("ParseExpandedNodeID(%q) succeeded although the URI is not in the table", txt), sp)
		}
		return
	}
	if idtxt != "" && containsSemi(sp.ID) {
		return // handled by the round trip part; ids with ';' in namespace 0 do not have an unambiguous nsu form
	}
	if err != nil {
		c.Violation("nsu-error:"+id.Ctor, fmt.Sprintf("ParseExpandedNodeID(%q, table) failed: %v", txt, err), sp)
		return
	}
	got := identOf(e.NodeID)
	exp := identOf(n)
	exp.NS = uint16(want)
	if got != exp {
		c.Violation("nsu-differs:"+id.Ctor, fmt.Sprintf("ParseExpandedNodeID(%q) = %+v, want %+v", txt, got, exp), sp)
	}
}

func containsSemi(sp nodeSpec) bool {
	if sp.Ctor != "str" {
		return false
	}
	for i := 0; i < len(sp.Str); i++ {
		if sp.Str[i] == ';' {
			return true
		}
	}
	return false
}

func randSpec(r *rand.Rand, g *gen.G) nodeSpec {
	nsl := []uint16{0, 0, 1, 2, 255, 256, 65535, uint16(r.Intn(65536))}
	ns := nsl[r.Intn(len(nsl))]
	nums := []uint32{0, 1, 5, 255, 256, 65534, 65535, 65536, 1 << 31, 1<<32 - 1, r.Uint32()}
	switch r.Intn(6) {
	case 0:
		return nodeSpec{Ctor: "two", Num: uint32(r.Intn(256))}
	case 1:
		return nodeSpec{Ctor: "four", NS: ns & 0xff, Num: nums[r.Intn(len(nums))] & 0xffff}
	case 2:
		return nodeSpec{Ctor: "num", NS: ns, Num: nums[r.Intn(len(nums))]}
	case 3:
		strs := []string{"", "a", "5", "i=5", "s=a", "ns=1;s=a", "a;b", "a=b", ";", "=", "nsu=x;i=1", "g=00000000-0000-0000-0000-000000000000", "b=YQ==", " a ", "a\x00b", "\xff"}
		if r.Intn(2) == 0 {
			return nodeSpec{Ctor: "str", NS: ns, Str: strs[r.Intn(len(strs))]}
		}
		return nodeSpec{Ctor: "str", NS: ns, Str: g.String()}
	case 4:
		return nodeSpec{Ctor: "guid", NS: ns, Str: g.GUID().String()}
	default:
		b := g.Bytes()
		if r.Intn(4) == 0 {
			b = []byte("5")
		}
		return nodeSpec{Ctor: "bytes", NS: ns, Str: base64.StdEncoding.EncodeToString(b)}
	}
}

// nearCollision derives a spec that is close to a (same number other encoding, same text other kind, ...).
func nearCollision(r *rand.Rand, a nodeSpec) nodeSpec {
	b := a
	switch r.Intn(8) {
	case 0:
		b.Ctor = []string{"two", "four", "num"}[r.Intn(3)]
	case 1:
		b.NS = a.NS + 1
	case 2:
		b.Ctor, b.Str = "str", fmt.Sprint(a.Num)
	case 3:
		b.Ctor = "bytes"
		b.Str = base64.StdEncoding.EncodeToString([]byte(a.Str))
	case 4:
		b.Ctor = "str"
	case 5:
		b.Ctor, b.Str = "str", a.build().String() // a string id that looks like a's rendering
		b.NS = 0
	case 6:
		b.Num = a.Num + 1
	default:
		b.NS = 0
	}
	return b
}

func c04Run(c *fw.Ctx) error {
	k := &c04Checker{c: c}
	if c.Batch == 0 {
		// exhaustive: all strings of length <= 4 over the alphabet, as string ids in namespace 0 and 1
		alpha := []byte(";=nsibgu01")
		var rec func(prefix []byte, left int)
		count := 0
		rec = func(prefix []byte, left int) {
			for _, ns := range []uint16{0, 1} {
				k.roundTrip(nodeSpec{Ctor: "str", NS: ns, Str: string(prefix)})
				count++
			}
			if left == 0 {
				return
			}
			for _, ch := range alpha {
				rec(append(append([]byte{}, prefix...), ch), left-1)
			}
		}
		rec(nil, 4)
		c.Extra("exhaustive_string_ids", count)
		// numeric boundary grid
		for _, id := range []uint32{0, 1, 255, 256, 65534, 65535, 65536, 1<<32 - 1} {
			for _, ns := range []uint16{0, 1, 255, 256, 65535} {
				for _, ct := range []string{"two", "four", "num"} {
					k.roundTrip(nodeSpec{Ctor: ct, NS: ns, Num: id})
					for _, ct2 := range []string{"two", "four", "num", "str"} {
						k.pair(nodeSpec{Ctor: ct, NS: ns, Num: id}, nodeSpec{Ctor: ct2, NS: ns, Num: id, Str: fmt.Sprint(id)})
					}
				}
			}
		}
		c.Sample(map[string]interface{}{"exhaustive": "all strings of length <= 4 over ';=nsibgu01' as string ids in ns 0 and 1", "count": count})
	}
	n := int64(c.Pick(30000, 2000000))
	for i := int64(0); i < n; i++ {
		if int(i%int64(c.NBatch)) != c.Batch {
			continue
		}
		r := c.Rng("rand", i)
		g := gen.New(r, nil)
		a := randSpec(r, g)
		c.Journal(i, a)
		k.roundTrip(a)
		for j := 0; j < 3; j++ {
			var b nodeSpec
			if r.Intn(3) == 0 {
				b = randSpec(r, g)
			} else {
				b = nearCollision(r, a)
			}
			k.pair(a, b)
		}
		if i%4 == 0 {
			uris := []string{"http://opcfoundation.org/UA/", "urn:a", "urn:b", "http://x/y=z", "urn:a"}
			tbl := uris[:1+r.Intn(len(uris))]
			uri := uris[r.Intn(len(uris))]
			if r.Intn(5) == 0 {
				uri = "urn:unknown"
			}
			k.nsu(nsuSpec{Table: tbl, URI: uri, ID: a})
		}
		if i%5000 == 0 {
			c.Sample(map[string]interface{}{"node": a, "text": a.normalize().build().String()})
		}
		c.Done(i)
	}
	return nil
}

func c04Replay(c *fw.Ctx, raw json.RawMessage) error {
	k := &c04Checker{c: c}
	var p pairSpec
	if json.Unmarshal(raw, &p) == nil && p.A.Ctor != "" {
		k.pair(p.A, p.B)
		return nil
	}
	var u nsuSpec
	if json.Unmarshal(raw, &u) == nil && u.ID.Ctor != "" {
		k.nsu(u)
		return nil
	}
	var s nodeSpec
	if err := json.Unmarshal(raw, &s); err != nil {
		return err
	}
	k.roundTrip(s)
	return nil
}

func init() {
	fw.Register("C04", fw.Spec{
		Plan: func(tier string) fw.Plan {
			p := fw.Plan{Batches: 4, TimeoutS: 300, MinNontrivial: 20000, Level: "exploration",
				Rule:        "NodeIDs built through the six public constructors: exhaustively all strings of length <= 4 over the alphabet ';=nsibgu01' as string ids in namespaces 0 and 1, a numeric boundary grid x 3 encodings, and seed-determined random ids (strings with separators/prefixes/raw bytes, GUIDs, opaque ids incl. empty); pairs are random or near-collisions (same number other encoding, number vs its decimal string, string vs opaque of equal bytes, a string id equal to another id's rendering); oracle = independent identity (namespace, kind, value); distinct = distinct rendered texts / pairs",
				Assumptions: []string{"GUID node ids are built from well-formed GUID text; namespace URIs do not contain ';'"}}
			if tier == "thorough" {
				p.Batches = 16
				p.TimeoutS = 1200
				p.MinNontrivial = 1000000
			}
			return p
		},
		Run:    c04Run,
		Replay: c04Replay,
	})
}
