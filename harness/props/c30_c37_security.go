package props

import (
	"context"
	"encoding/json"
	"fmt"
	"sort"
	"strings"
	"time"

	"github.com/gopcua/opcua"
	"github.com/gopcua/opcua/ua"

	"verifharness/fw"
	"verifharness/keys"
	"verifharness/refpeer"
)

// C30: the server opens channels only with the security settings it enabled and advertises exactly those.
// C37: client and server interoperate under every supported configuration.

type secKey struct {
	URI  string
	Mode int
}

func (k secKey) String() string {
	return strings.TrimPrefix(k.URI, "http://opcfoundation.org/UA/SecurityPolicy#") + "/" + modeName(k.Mode)
}

func modeName(m int) string {
	switch m {
	case 1:
		return "None"
	case 2:
		return "Sign"
	case 3:
		return "SignAndEncrypt"
	}
	return fmt.Sprintf("mode%d", m)
}

// allPairs are the 11 policy/mode pairs the library supports.
func allPairs() []secKey {
	out := []secKey{{refpeer.URINone, 1}}
	for _, p := range refpeer.Policies {
		out = append(out, secKey{p.URI, 2}, secKey{p.URI, 3})
	}
	return out
}

// ---------- C30 ----------

type c30Case struct {
	Index   int64    `json:"index"`
	Config  []string `json:"server_config"`
	Attempt string   `json:"attempt,omitempty"`
	Detail  string   `json:"detail,omitempty"`
}

func c30Configs(c *fw.Ctx) [][]secKey {
	all := allPairs()
	var cfgs [][]secKey
	for _, p := range all { // singletons
		cfgs = append(cfgs, []secKey{p})
	}
	if c.Quick() {
		r := c.Rng("c30cfg", 0)
		for len(cfgs) < 26 {
			var s []secKey
			for _, p := range all {
				if r.Intn(3) == 0 {
					s = append(s, p)
				}
			}
			if len(s) > 0 {
				cfgs = append(cfgs, s)
			}
		}
		return cfgs
	}
	for i := 0; i < len(all); i++ { // all pairs of pairs
		for j := i + 1; j < len(all); j++ {
			cfgs = append(cfgs, []secKey{all[i], all[j]})
		}
	}
	r := c.Rng("c30cfg", 1)
	for n := 0; n < 340; n++ {
		var s []secKey
		k := 1 + r.Intn(3)
		for _, p := range all {
			if r.Intn(4) < k {
				s = append(s, p)
			}
		}
		if len(s) > 0 {
			cfgs = append(cfgs, s)
		}
	}
	return cfgs
}

// c30Open tries to open a channel with the given settings through the independent client.
// It returns whether the server established the channel, and the channel if so.
func c30Open(addr, endpoint string, k secKey, sk *keys.Pair) (*refpeer.Channel, bool, string) {
	ck := keys.Get("a", 2048)
	sec := refpeer.Security{Mode: k.Mode}
	if p := refpeer.PolicyByURI(k.URI); p != nil {
		sec.Policy, sec.LocalKey, sec.LocalCert, sec.RemoteCert = p, ck.Key, ck.Cert, sk.Cert
	}
	ch, _, err := refpeer.Dial(addr, refpeer.ClientOpts{Hello: refpeer.Hello{URL: endpoint}, Sec: sec})
	if err != nil {
		return nil, false, "dial: " + err.Error()
	}
	ch.Conn.SetReadDeadline(time.Now().Add(8 * time.Second))
	resp, err := ch.Open(false, 600000)
	ch.Conn.SetReadDeadline(time.Time{})
	if err != nil || resp == nil || resp.SecurityToken == nil {
		ch.Close()
		why := "refused"
		if err != nil {
			why = err.Error()
			if strings.Contains(why, "i/o timeout") {
				why = "no answer"
			}
		}
		return nil, false, why
	}
	return ch, true, ""
}

func c30One(c *fw.Ctx, idx int64, cfg []secKey) {
	var names []string
	inCfg := map[secKey]bool{}
	var sp []secPair
	for _, k := range cfg {
		names = append(names, k.String())
		inCfg[k] = true
		sp = append(sp, secPair{k.URI, k.Mode})
	}
	cs := c30Case{Index: idx, Config: names}
	c.Journal(idx, cs)
	sk := keys.Get("b", 2048)
	rs, err := startRealServer(srvCfg{Sec: sp, KeyBits: 2048, Vars: 1})
	if err != nil {
		c.Inconclusive("server start: " + err.Error())
		return
	}
	defer rs.Srv.Close()
	addr := strings.TrimPrefix(rs.Endpoint, "opc.tcp://")

	attempts := allPairs()
	// combinations no server supports at all
	attempts = append(attempts, secKey{refpeer.URINone, 2}, secKey{refpeer.URINone, 3}, secKey{refpeer.URINone, 0}, secKey{refpeer.URINone, 4})
	for _, p := range refpeer.Policies {
		attempts = append(attempts, secKey{p.URI, 1}, secKey{p.URI, 0})
	}
	var usable *refpeer.Channel
	var usableKey secKey
	for _, k := range attempts {
		cs.Attempt = k.String()
		ch, ok, why := c30Open(addr, rs.Endpoint, k, sk)
		c.Eval(1)
		want := inCfg[k]
		c.Class(fmt.Sprintf("open:configured=%v:established=%v", want, ok), 1)
		c.Nontrivial(fmt.Sprintf("%v|%s", names, k))
		switch {
		case ok && !want:
			cs.Detail = "OpenSecureChannel succeeded"
			c.Violation("c30:channel-opened-with-settings-not-enabled:"+k.String(), fmt.Sprintf("server configured with %v opened a %s channel", names, k), cs)
		case !ok && want:
			if why == "no answer" || strings.HasPrefix(why, "dial:") {
				c.Inconclusive("configured pair not answered: " + why)
			} else {
				cs.Detail = why
				c.Violation("c30:configured-settings-refused:"+k.String(), fmt.Sprintf("server configured with %v refused a %s channel: %s", names, k, why), cs)
			}
		case !ok:
			c.Class("refusal:"+classOf(why), 1)
		}
		if ok {
			if usable == nil && want {
				usable, usableKey = ch, k
			} else {
				ch.Close()
			}
		}
	}
	if usable == nil {
		return
	}
	defer usable.Close()
	// the advertised endpoints are exactly the configured pairs
	v, err := usable.Request(&ua.GetEndpointsRequest{EndpointURL: rs.Endpoint}, nil, 8*time.Second)
	if r, ok := v.(*ua.GetEndpointsResponse); ok && err == nil {
		adv := map[secKey]int{}
		for _, ep := range r.Endpoints {
			adv[secKey{ep.SecurityPolicyURI, int(ep.SecurityMode)}]++
		}
		var advNames []string
		for k := range adv {
			advNames = append(advNames, k.String())
		}
		sort.Strings(advNames)
		c.Eval(1)
		c.Class("endpoints:compared", 1)
		for k := range adv {
			if !inCfg[k] {
				cs.Attempt, cs.Detail = "GetEndpoints", fmt.Sprint(advNames)
				c.Violation("c30:advertised-but-not-enabled:"+k.String(), fmt.Sprintf("server configured with %v advertises %v", names, advNames), cs)
			}
		}
		for k := range inCfg {
			if adv[k] == 0 {
				cs.Attempt, cs.Detail = "GetEndpoints", fmt.Sprint(advNames)
				c.Violation("c30:enabled-but-not-advertised:"+k.String(), fmt.Sprintf("server configured with %v advertises %v", names, advNames), cs)
			}
		}
	} else {
		c.Inconclusive(fmt.Sprintf("GetEndpoints over the %s channel failed: %v %T", usableKey, err, v))
	}
	// neither must an OpenSecureChannel request that arrives as an ordinary (MSG typed, symmetrically secured) message
	// of an open channel
	if usableKey.Mode == 2 || usableKey.Mode == 3 {
		other := secKey{usableKey.URI, 5 - usableKey.Mode}
		if ch2, ok, _ := c30Open(addr, rs.Endpoint, usableKey, sk); ok && !inCfg[other] {
			for _, rt := range []ua.SecurityTokenRequestType{ua.SecurityTokenRequestTypeRenew, ua.SecurityTokenRequestTypeIssue} {
				nonce := make([]byte, refpeer.PolicyByURI(usableKey.URI).NonceLen)
				for i := range nonce {
					nonce[i] = byte(7 * i)
				}
				v, err := ch2.Request(&ua.OpenSecureChannelRequest{ClientProtocolVersion: 0, RequestType: rt, SecurityMode: ua.MessageSecurityMode(other.Mode), ClientNonce: nonce, RequestedLifetime: 600000}, nil, 8*time.Second)
				c.Eval(1)
				resp, _ := v.(*ua.OpenSecureChannelResponse)
				granted := err == nil && resp != nil && resp.SecurityToken != nil && (resp.ResponseHeader == nil || resp.ResponseHeader.ServiceResult == ua.StatusOK)
				c.Class(fmt.Sprintf("msg-typed-open-request-for-other-mode:granted=%v", granted), 1)
				if granted {
					cs.Attempt, cs.Detail = "OpenSecureChannelRequest in a MSG message: "+usableKey.String()+" -> "+other.String(), "request granted"
					c.Violation("c30:msg-typed-request-switched-to-mode-not-enabled:"+other.String(), fmt.Sprintf("server configured with %v answered an OpenSecureChannel request for %s, sent as a MSG message of a %s channel, with a security token", names, other, usableKey), cs)
					break
				}
				if err != nil {
					break // the server has closed the channel
				}
			}
			ch2.Close()
		} else if ok {
			ch2.Close()
		}
	}
	// a renewal must not move an open channel to a mode that is not enabled
	if usableKey.Mode == 2 || usableKey.Mode == 3 {
		other := secKey{usableKey.URI, 5 - usableKey.Mode}
		if !inCfg[other] {
			usable.Sec.Mode = other.Mode
			usable.Conn.SetReadDeadline(time.Now().Add(8 * time.Second))
			resp, err := usable.Open(true, 600000)
			usable.Conn.SetReadDeadline(time.Time{})
			c.Eval(1)
			c.Class(fmt.Sprintf("renew-to-other-mode:accepted=%v", err == nil && resp != nil), 1)
			if err == nil && resp != nil && resp.SecurityToken != nil {
				cs.Attempt, cs.Detail = "renew "+usableKey.String()+" -> "+other.String(), "renewal accepted"
				c.Violation("c30:renewal-switched-to-mode-not-enabled:"+other.String(), fmt.Sprintf("server configured with %v renewed a %s channel as %s", names, usableKey, other), cs)
			}
		}
	}
	// the real client's Connect agrees (one enabled and one not enabled pair per configuration)
	var notIn *secKey
	for _, k := range allPairs() {
		if !inCfg[k] {
			k := k
			notIn = &k
			break
		}
	}
	for _, t := range []*secKey{&cfg[0], notIn} {
		if t == nil {
			continue
		}
		err := c30Connect(rs.Endpoint, *t, sk)
		c.Eval(1)
		c.Class(fmt.Sprintf("client-connect:configured=%v:ok=%v", inCfg[*t], err == nil), 1)
		cs.Attempt = "opcua.Client.Connect " + t.String()
		if err == nil && !inCfg[*t] {
			c.Violation("c30:client-connected-with-settings-not-enabled:"+t.String(), fmt.Sprintf("server configured with %v: Connect with %s succeeded", names, *t), cs)
		}
		if err != nil && inCfg[*t] {
			cs.Detail = err.Error()
			c.Violation("c30:client-connect-refused-for-enabled-settings:"+t.String(), fmt.Sprintf("server configured with %v: Connect with %s failed: %v", names, *t, err), cs)
		}
	}
	c.Done(idx)
}

func c30Connect(endpoint string, k secKey, sk *keys.Pair) error {
	ck := keys.Get("a", 2048)
	opts := []opcua.Option{opcua.SecurityPolicy(k.URI), opcua.SecurityMode(ua.MessageSecurityMode(k.Mode)), opcua.AutoReconnect(false),
		opcua.RequestTimeout(8 * time.Second), opcua.AuthAnonymous()}
	if k.URI != refpeer.URINone {
		opts = append(opts, opcua.PrivateKey(ck.Key), opcua.Certificate(ck.Cert), opcua.RemoteCertificate(sk.Cert))
	}
	cl, err := opcua.NewClient(endpoint, opts...)
	if err != nil {
		return err
	}
	ctx, cancel := context.WithTimeout(context.Background(), 20*time.Second)
	defer cancel()
	if err := cl.Connect(ctx); err != nil {
		cl.Close(ctx)
		return err
	}
	_, err = cl.NamespaceArray(ctx)
	cl.Close(ctx)
	return err
}

func c30Run(c *fw.Ctx) error {
	cfgs := c30Configs(c)
	for i, cfg := range cfgs {
		if i%c.NBatch != c.Batch || int64(i) < c.Resume {
			continue
		}
		c30One(c, int64(i), cfg)
	}
	c.Sample(map[string]interface{}{"configurations": len(cfgs), "attempts_per_configuration": "11 supported pairs + 14 unsupported combinations + renewal to the other mode + GetEndpoints + 2 real client connects"})
	return nil
}

// ---------- C37 ----------

type c37Cell struct {
	Index   int64  `json:"index"`
	Policy  string `json:"policy"`
	Mode    int    `json:"mode"`
	SrvBits int    `json:"server_key_bits"`
	CliBits int    `json:"client_key_bits"`
	Token   string `json:"token"`
	ViaNone bool   `json:"session_over_the_None_endpoint,omitempty"` // the server also enables None; the session runs over that endpoint
	Step    string `json:"failed_step,omitempty"`
	Err     string `json:"error,omitempty"`
}

func c37Cells(quick bool) []c37Cell {
	cells := []c37Cell{{Policy: refpeer.URINone, Mode: 1, SrvBits: 2048, CliBits: 2048, Token: "anonymous"}}
	for _, p := range refpeer.Policies {
		sizes := allowedSizes(p)
		for _, mode := range []int{2, 3} {
			for _, sb := range sizes {
				for _, cb := range sizes {
					if quick && (sb != 2048 || cb != 2048) {
						continue
					}
					for _, tok := range []string{"anonymous", "username"} {
						cells = append(cells, c37Cell{Policy: p.URI, Mode: mode, SrvBits: sb, CliBits: cb, Token: tok})
					}
				}
			}
		}
	}
	// the None endpoint of a server that also enables a secured policy and user names: the token is protected with
	// the secured policy although the channel is not
	for _, p := range refpeer.Policies {
		cells = append(cells, c37Cell{Policy: p.URI, Mode: 3, SrvBits: 2048, CliBits: 2048, Token: "username", ViaNone: true})
		if quick {
			break
		}
	}
	if quick {
		// key sizes on different sides of the 2048 bit boundary (the complete matrix is the thorough tier)
		for _, p := range refpeer.Policies {
			if sizes := allowedSizes(p); sizes[len(sizes)-1] > 2048 {
				cells = append(cells, c37Cell{Policy: p.URI, Mode: 3, SrvBits: 4096, CliBits: 2048, Token: "anonymous"},
					c37Cell{Policy: p.URI, Mode: 2, SrvBits: 2048, CliBits: 3072, Token: "anonymous"})
			}
		}
	}
	for i := range cells {
		cells[i].Index = int64(i)
	}
	return cells
}

func c37One(c *fw.Ctx, cell c37Cell) {
	c.Journal(cell.Index, cell)
	name := fmt.Sprintf("%s/%d/srv%d/cli%d/%s", strings.TrimPrefix(cell.Policy, "http://opcfoundation.org/UA/SecurityPolicy#"), cell.Mode, cell.SrvBits, cell.CliBits, cell.Token)
	fail := func(step string, err error) {
		cell.Step, cell.Err = step, fmt.Sprint(err)
		c.Violation("c37:"+step+":"+secKey{cell.Policy, cell.Mode}.String()+":"+cell.Token, fmt.Sprintf("cell %s: %s failed: %v", name, step, err), cell)
	}
	// the server enables only the configuration under test, with a key inside that policy's limits
	sec := []secPair{{cell.Policy, cell.Mode}}
	connPolicy, connMode := cell.Policy, cell.Mode
	if cell.ViaNone {
		sec = append([]secPair{{refpeer.URINone, 1}}, sec...)
		connPolicy, connMode = refpeer.URINone, 1
		name += "/via-None-endpoint"
	}
	rs, err := startRealServer(srvCfg{Sec: sec, KeyBits: cell.SrvBits, KeyName: "b", Vars: 1, UserName: cell.Token == "username"})
	if err != nil {
		c.Inconclusive("server start: " + err.Error())
		return
	}
	defer rs.Srv.Close()
	sk, ck := keys.Get("b", cell.SrvBits), keys.Get("a", cell.CliBits)
	ctx, cancel := context.WithTimeout(context.Background(), 60*time.Second)
	defer cancel()
	c.Eval(1)
	c.Nontrivial(name)
	c.Class("policy:"+secKey{cell.Policy, cell.Mode}.String(), 1)
	c.Class("token:"+cell.Token, 1)

	var secOpts []opcua.Option
	if connPolicy != refpeer.URINone {
		secOpts = []opcua.Option{opcua.PrivateKey(ck.Key), opcua.Certificate(ck.Cert)}
	}
	// discovery over a channel with the settings the server enabled
	dopts := append([]opcua.Option{opcua.SecurityPolicy(connPolicy), opcua.SecurityMode(ua.MessageSecurityMode(connMode)), opcua.RequestTimeout(15 * time.Second)}, secOpts...)
	if connPolicy != refpeer.URINone {
		dopts = append(dopts, opcua.RemoteCertificate(sk.Cert))
	}
	eps, err := opcua.GetEndpoints(ctx, rs.Endpoint, dopts...)
	if err != nil {
		fail("GetEndpoints", err)
		return
	}
	var ep *ua.EndpointDescription
	for _, e := range eps {
		if e.SecurityPolicyURI == connPolicy && int(e.SecurityMode) == connMode {
			ep = e
		}
	}
	if ep == nil {
		fail("select-advertised-endpoint", fmt.Errorf("the enabled configuration is not among the %d advertised endpoints", len(eps)))
		return
	}
	tt := ua.UserTokenTypeAnonymous
	auth := opcua.AuthAnonymous()
	if cell.Token == "username" {
		tt, auth = ua.UserTokenTypeUserName, opcua.AuthUsername("verif-user", "verif-password-äö")
	}
	advertised := false
	for _, t := range ep.UserIdentityTokens {
		if t.TokenType == tt {
			advertised = true
		}
	}
	if !advertised {
		c.Class("token-type-not-advertised:"+cell.Token, 1)
		if cell.Token == "anonymous" {
			fail("anonymous-token-not-advertised", fmt.Errorf("tokens: %d", len(ep.UserIdentityTokens)))
		}
		return
	}
	opts := append([]opcua.Option{opcua.SecurityFromEndpoint(ep, tt), auth, opcua.AutoReconnect(false), opcua.RequestTimeout(15 * time.Second)}, secOpts...)
	cl, err := opcua.NewClient(ep.EndpointURL, opts...)
	if err != nil {
		fail("NewClient", err)
		return
	}
	if err := cl.Connect(ctx); err != nil {
		cl.Close(ctx)
		fail("Connect", err)
		return
	}
	defer cl.Close(context.Background())
	nid := rs.Vars[0].ID()
	val := int64(7_000_000 + cell.Index)
	wr, err := cl.Write(ctx, &ua.WriteRequest{NodesToWrite: []*ua.WriteValue{{NodeID: nid, AttributeID: ua.AttributeIDValue, Value: &ua.DataValue{EncodingMask: ua.DataValueValue, Value: ua.MustVariant(val)}}}})
	if err != nil || len(wr.Results) != 1 || wr.Results[0] != ua.StatusOK {
		fail("Write", fmt.Errorf("%v %v", err, wr))
		return
	}
	rr, err := cl.Read(ctx, &ua.ReadRequest{NodesToRead: []*ua.ReadValueID{{NodeID: nid, AttributeID: ua.AttributeIDValue}}})
	if err != nil || len(rr.Results) != 1 || rr.Results[0].Value == nil || rr.Results[0].Value.Value() != val {
		fail("Read", fmt.Errorf("%v: read back something else than %d", err, val))
		return
	}
	// a larger message, so that more than one chunk travels in each direction
	big := make([]byte, 150_000)
	for i := range big {
		big[i] = byte(i*7 + int(cell.Index))
	}
	wr, err = cl.Write(ctx, &ua.WriteRequest{NodesToWrite: []*ua.WriteValue{{NodeID: nid, AttributeID: ua.AttributeIDValue, Value: &ua.DataValue{EncodingMask: ua.DataValueValue, Value: ua.MustVariant(big)}}}})
	if err != nil || len(wr.Results) != 1 || wr.Results[0] != ua.StatusOK {
		fail("Write-multi-chunk", fmt.Errorf("%v %v", err, wr))
		return
	}
	rr, err = cl.Read(ctx, &ua.ReadRequest{NodesToRead: []*ua.ReadValueID{{NodeID: nid, AttributeID: ua.AttributeIDValue}}})
	got, _ := func() ([]byte, bool) {
		if err != nil || len(rr.Results) != 1 || rr.Results[0].Value == nil {
			return nil, false
		}
		b, ok := rr.Results[0].Value.Value().([]byte)
		return b, ok
	}()
	if string(got) != string(big) {
		fail("Read-multi-chunk", fmt.Errorf("%v: %d bytes read back, %d written", err, len(got), len(big)))
		return
	}
	c.Class("cell-passed", 1)
	c.Done(cell.Index)
}

func c37Run(c *fw.Ctx) error {
	cells := c37Cells(c.Quick())
	for _, cell := range cells {
		if int(cell.Index)%c.NBatch != c.Batch || cell.Index < c.Resume {
			continue
		}
		c37One(c, cell)
	}
	c.Sample(map[string]interface{}{"cells": len(cells)})
	return nil
}

func init() {
	fw.Register("C30", fw.Spec{
		Plan: func(tier string) fw.Plan {
			p := fw.Plan{Batches: 8, TimeoutS: 900, MinNontrivial: 400, Level: "exploration",
				Rule:        "real servers configured with subsets of the 11 supported policy/mode pairs (quick: 11 singletons + 15 random subsets; thorough: singletons, all 55 two-element subsets, 340 random subsets); against each, the independent scripted client sends OpenSecureChannel with each of the 11 pairs and 14 unsupported combinations (policy None with Sign/SignAndEncrypt/invalid modes, secured policies with mode None/invalid), a renewal that asks for the other mode, the same request sent as a MSG typed message of the open channel, GetEndpoints, and the real opcua.Client connects with one enabled and one not enabled pair; oracle: a channel is established iff the pair is configured, advertised pairs = configured pairs; distinct = (configuration, attempt)",
				Assumptions: []string{"a server without any EnableSecurity option is outside the quantifier (the pinned test suite requires it to accept None/None)", "an unanswered OpenSecureChannel for a pair that is not enabled counts as refused; for an enabled pair it is inconclusive"}}
			if tier == "thorough" {
				p.Batches, p.TimeoutS, p.MinNontrivial = 16, 3000, 5000
			}
			return p
		},
		Run: c30Run,
		Replay: func(c *fw.Ctx, raw json.RawMessage) error {
			var cs c30Case
			if err := json.Unmarshal(raw, &cs); err != nil {
				return err
			}
			byName := map[string]secKey{}
			for _, k := range allPairs() {
				byName[k.String()] = k
			}
			var cfg []secKey
			for _, n := range cs.Config {
				cfg = append(cfg, byName[n])
			}
			c30One(c, cs.Index, cfg)
			return nil
		},
	})
	fw.Register("C37", fw.Spec{
		Plan: func(tier string) fw.Plan {
			p := fw.Plan{Batches: 7, TimeoutS: 600, MinNontrivial: 20, Level: "exploration",
				Rule:        "one cell = (policy, mode, server key size, client key size, user token type): a real server enabling only that configuration with a key inside the policy's limits; a real client discovers the endpoints over a channel with those settings, selects the advertised endpoint (SecurityFromEndpoint), connects, activates with the token, writes and reads back a scalar and a 150 kB ByteString (several chunks each way); quick: key size 2048 plus, per policy that allows them, two cells with keys on different sides of 2048 bits (28 cells); thorough: the complete matrix of key sizes {1024,2048} / {2048,3072,4096}; both tiers also run a user-name session over the None endpoint of a server that enables None next to a secured policy (the token is protected with the secured policy); distinct = cells",
				Assumptions: []string{"committed self-signed test certificates; the server does not validate user credentials"}}
			if tier == "thorough" {
				p.Batches, p.TimeoutS, p.MinNontrivial, p.Exhaustive = 16, 1800, 146, true
			}
			return p
		},
		Run: c37Run,
		Replay: func(c *fw.Ctx, raw json.RawMessage) error {
			var cell c37Cell
			if err := json.Unmarshal(raw, &cell); err != nil {
				return err
			}
			c37One(c, cell)
			return nil
		},
	})
}
