package props

import (
	"context"
	"encoding/json"
	"fmt"
	"math/rand"
	"os"
	"reflect"
	"strings"
	"sync"
	"time"

	"github.com/gopcua/opcua"
	"github.com/gopcua/opcua/id"
	"github.com/gopcua/opcua/monitor"
	"github.com/gopcua/opcua/ua"

	"verifharness/fw"
	"verifharness/gen"
	"verifharness/refpeer"
	"verifharness/sut"
)

// C21: client calls never panic on any well-formed server response. The client runs in a child process and goes
// through a list of operations; the scripted server answers every request with a generated, decodable response:
// the expected type with any field values and array lengths, another response type, or a fault.

type c21Arg struct {
	Endpoint  string   `json:"endpoint"`
	Ops       []string `json:"ops"`
	Rounds    int      `json:"rounds"`
	Hostile   bool     `json:"hostile_connect"`
	Reconnect bool     `json:"auto_reconnect"`
}

var c21Ops = []string{"Read", "Write", "Browse", "BrowseNext", "Call", "RegisterNodes", "UnregisterNodes", "FindServers", "FindServersOnNetwork", "GetEndpoints",
	"NamespaceArray", "FindNamespace", "UpdateNamespaces", "HistoryReadEvent", "HistoryReadRawModified", "HistoryReadProcessed", "HistoryReadAtTime",
	"Node.NodeClass", "Node.BrowseName", "Node.Description", "Node.DisplayName", "Node.AccessLevel", "Node.HasAccessLevel", "Node.UserAccessLevel", "Node.HasUserAccessLevel",
	"Node.Value", "Node.Attributes", "Node.Children", "Node.ReferencedNodes", "Node.References", "Node.TranslateBrowsePathsToNodeIDs", "Node.TranslateBrowsePathInNamespaceToNodeID",
	"Subscribe", "Sub.Monitor", "Sub.Unmonitor", "Sub.ModifyMonitoredItems", "Sub.SetMonitoringMode", "Sub.SetTriggering", "Sub.ModifySubscription", "Sub.Stats", "PublishLoop", "Sub.Cancel",
	"Monitor.Subscribe", "Monitor.AddNodes", "Monitor.RemoveNodes", "Monitor.Unsubscribe", "CloseSession"}

// c21Client is the child.
func c21Client(arg string) int {
	var a c21Arg
	if err := json.Unmarshal([]byte(arg), &a); err != nil {
		fmt.Fprintln(os.Stderr, err)
		return 3
	}
	say := func(f string, v ...interface{}) { fmt.Printf(f+"\n", v...) }
	ctx, cancel := context.WithTimeout(context.Background(), 45*time.Second)
	defer cancel()
	cl, err := opcua.NewClient(a.Endpoint, opcua.SecurityMode(ua.MessageSecurityModeNone), opcua.AutoReconnect(a.Reconnect), opcua.ReconnectInterval(20*time.Millisecond), opcua.RequestTimeout(250*time.Millisecond))
	if err != nil {
		say("INCONCLUSIVE newclient %v", err)
		return 0
	}
	say("OP -1 Connect")
	func() {
		defer func() {
			if r := recover(); r != nil {
				say("PANIC Connect %v", r)
				panic(r)
			}
		}()
		err = cl.Connect(ctx)
	}()
	if err != nil {
		say("CONNECTFAILED %v", err)
		if !a.Hostile {
			// the connect sequence was answered sanely: a failure here is load, not the subject
			say("INCONCLUSIVE connect failed: %v", err)
		}
		say("DONE")
		return 0
	}
	var sub *opcua.Subscription
	var msub *monitor.Subscription
	notif := make(chan *opcua.PublishNotificationData, 1024)
	go func() {
		for range notif {
		}
	}()
	nid := ua.NewStringNodeID(1, "n")
	node := cl.Node(nid)
	do := func(i int, name string) {
		say("OP %d %s", i, name)
		octx, ocancel := context.WithTimeout(ctx, 800*time.Millisecond)
		defer ocancel()
		// every call gets a context of 800 ms; one that has not returned 12000 heartbeats later never will
		opDone := make(chan struct{})
		defer close(opDone)
		go func() {
			if !fw.WaitBeats(opDone, 12000) {
				dump := blockedDumpN(20000)
				say("HANG %d %s | %s | %s", i, name, fw.TopRepoFrame(blockedDumpOf("opcua.(*")), strings.ReplaceAll(tailStr(dump, 6000), "\n", "\\n"))
				os.Exit(0)
			}
		}()
		switch name {
		case "Read":
			cl.Read(octx, &ua.ReadRequest{NodesToRead: []*ua.ReadValueID{{NodeID: nid, AttributeID: ua.AttributeIDValue}, {NodeID: nid, AttributeID: ua.AttributeIDBrowseName}}})
		case "Write":
			cl.Write(octx, &ua.WriteRequest{NodesToWrite: []*ua.WriteValue{{NodeID: nid, AttributeID: ua.AttributeIDValue, Value: &ua.DataValue{EncodingMask: 1, Value: ua.MustVariant(int32(1))}}}})
		case "Browse":
			cl.Browse(octx, &ua.BrowseRequest{NodesToBrowse: []*ua.BrowseDescription{{NodeID: nid, BrowseDirection: ua.BrowseDirectionBoth, ReferenceTypeID: ua.NewNumericNodeID(0, 0), IncludeSubtypes: true, ResultMask: 0x3f}}})
		case "BrowseNext":
			cl.BrowseNext(octx, &ua.BrowseNextRequest{ContinuationPoints: [][]byte{{1, 2, 3}}})
		case "Call":
			cl.Call(octx, &ua.CallMethodRequest{ObjectID: nid, MethodID: nid, InputArguments: []*ua.Variant{ua.MustVariant(int32(1))}})
		case "RegisterNodes":
			cl.RegisterNodes(octx, &ua.RegisterNodesRequest{NodesToRegister: []*ua.NodeID{nid}})
		case "UnregisterNodes":
			cl.UnregisterNodes(octx, &ua.UnregisterNodesRequest{NodesToUnregister: []*ua.NodeID{nid}})
		case "FindServers":
			cl.FindServers(octx)
		case "FindServersOnNetwork":
			cl.FindServersOnNetwork(octx)
		case "GetEndpoints":
			cl.GetEndpoints(octx)
		case "NamespaceArray":
			cl.NamespaceArray(octx)
		case "FindNamespace":
			cl.FindNamespace(octx, "urn:verif:refpeer")
		case "UpdateNamespaces":
			cl.UpdateNamespaces(octx)
		case "HistoryReadEvent":
			cl.HistoryReadEvent(octx, []*ua.HistoryReadValueID{{NodeID: nid, DataEncoding: &ua.QualifiedName{}}}, &ua.ReadEventDetails{Filter: &ua.EventFilter{WhereClause: &ua.ContentFilter{}}})
		case "HistoryReadRawModified":
			cl.HistoryReadRawModified(octx, []*ua.HistoryReadValueID{{NodeID: nid, DataEncoding: &ua.QualifiedName{}}}, &ua.ReadRawModifiedDetails{})
		case "HistoryReadProcessed":
			cl.HistoryReadProcessed(octx, []*ua.HistoryReadValueID{{NodeID: nid, DataEncoding: &ua.QualifiedName{}}}, &ua.ReadProcessedDetails{AggregateConfiguration: &ua.AggregateConfiguration{}})
		case "HistoryReadAtTime":
			cl.HistoryReadAtTime(octx, []*ua.HistoryReadValueID{{NodeID: nid, DataEncoding: &ua.QualifiedName{}}}, &ua.ReadAtTimeDetails{})
		case "Node.NodeClass":
			node.NodeClass(octx)
		case "Node.BrowseName":
			node.BrowseName(octx)
		case "Node.Description":
			node.Description(octx)
		case "Node.DisplayName":
			node.DisplayName(octx)
		case "Node.AccessLevel":
			node.AccessLevel(octx)
		case "Node.HasAccessLevel":
			node.HasAccessLevel(octx, ua.AccessLevelTypeCurrentRead)
		case "Node.UserAccessLevel":
			node.UserAccessLevel(octx)
		case "Node.HasUserAccessLevel":
			node.HasUserAccessLevel(octx, ua.AccessLevelTypeCurrentWrite)
		case "Node.Value":
			node.Value(octx)
		case "Node.Attributes":
			node.Attributes(octx, ua.AttributeIDValue, ua.AttributeIDNodeClass, ua.AttributeIDBrowseName)
		case "Node.Children":
			node.Children(octx, id.HierarchicalReferences, ua.NodeClassAll)
		case "Node.ReferencedNodes":
			node.ReferencedNodes(octx, id.HierarchicalReferences, ua.BrowseDirectionBoth, ua.NodeClassAll, true)
		case "Node.References":
			node.References(octx, id.HierarchicalReferences, ua.BrowseDirectionForward, ua.NodeClassAll, true)
		case "Node.TranslateBrowsePathsToNodeIDs":
			node.TranslateBrowsePathsToNodeIDs(octx, []*ua.QualifiedName{{NamespaceIndex: 1, Name: "a"}, {NamespaceIndex: 1, Name: "b"}})
		case "Node.TranslateBrowsePathInNamespaceToNodeID":
			node.TranslateBrowsePathInNamespaceToNodeID(octx, 1, "a.b.c")
		case "Subscribe":
			if s, err := cl.Subscribe(octx, &opcua.SubscriptionParameters{Interval: 10 * time.Millisecond}, notif); err == nil {
				sub = s
				say("NOTE subscribe-succeeded state=%v", cl.State())
			} else {
				say("NOTE subscribe-failed: %v", err)
			}
		case "Sub.Monitor":
			if sub != nil {
				sub.Monitor(octx, ua.TimestampsToReturnBoth, opcua.NewMonitoredItemCreateRequestWithDefaults(nid, ua.AttributeIDValue, 1), opcua.NewMonitoredItemCreateRequestWithDefaults(nid, ua.AttributeIDValue, 2))
			}
		case "Sub.Unmonitor":
			if sub != nil {
				sub.Unmonitor(octx, 1, 2, 3)
			}
		case "Sub.ModifyMonitoredItems":
			if sub != nil {
				sub.ModifyMonitoredItems(octx, ua.TimestampsToReturnBoth, &ua.MonitoredItemModifyRequest{MonitoredItemID: 1, RequestedParameters: &ua.MonitoringParameters{ClientHandle: 1, Filter: ua.NewExtensionObject(nil)}},
					&ua.MonitoredItemModifyRequest{MonitoredItemID: 2, RequestedParameters: &ua.MonitoringParameters{ClientHandle: 2, Filter: ua.NewExtensionObject(nil)}})
			}
		case "Sub.SetMonitoringMode":
			if sub != nil {
				sub.SetMonitoringMode(octx, ua.MonitoringModeSampling, 1, 2)
			}
		case "Sub.SetTriggering":
			if sub != nil {
				sub.SetTriggering(octx, 1, []uint32{2}, []uint32{3})
			}
		case "Sub.ModifySubscription":
			if sub != nil {
				sub.ModifySubscription(octx, opcua.SubscriptionParameters{Interval: 20 * time.Millisecond})
			}
		case "Sub.Stats":
			if sub != nil {
				sub.Stats(octx)
			}
		case "PublishLoop":
			time.Sleep(80 * time.Millisecond) // the background loop handles whatever the server publishes
		case "Sub.Cancel":
			if sub != nil {
				sub.Cancel(octx)
				sub = nil
			}
		case "Monitor.Subscribe":
			if nm, err := monitor.NewNodeMonitor(cl); err == nil {
				mch := make(chan *monitor.DataChangeMessage, 256)
				go func() {
					for range mch {
					}
				}()
				if s, err := nm.ChanSubscribe(octx, &opcua.SubscriptionParameters{Interval: 10 * time.Millisecond}, mch, "ns=1;s=a", "ns=1;s=b"); err == nil {
					msub = s
				}
			}
		case "Monitor.AddNodes":
			if msub != nil {
				msub.AddNodes(octx, "ns=1;s=c", "ns=1;s=d")
			}
		case "Monitor.RemoveNodes":
			if msub != nil {
				msub.RemoveNodes(octx, "ns=1;s=a", "ns=1;s=zz")
			}
		case "Monitor.Unsubscribe":
			if msub != nil {
				msub.Unsubscribe(octx)
				msub = nil
			}
		case "CloseSession":
			// last: the session is gone afterwards
		}
	}
	n := 0
	for round := 0; round < a.Rounds; round++ {
		for _, name := range a.Ops {
			func() {
				defer func() {
					if r := recover(); r != nil {
						// a panic in the calling goroutine: report and go on, so that one run finds several
						buf := make([]byte, 16<<10)
						st := string(buf[:runtimeStack(buf)])
						say("PANIC %d %s | %s | %v", n, name, fw.TopRepoFrame(st), r)
					}
				}()
				do(n, name)
			}()
			say("RET %d", n)
			n++
		}
	}
	cctx, ccancel := context.WithTimeout(context.Background(), 2*time.Second)
	cl.Close(cctx)
	ccancel()
	say("DONE")
	return 0
}

// ---- the scripted server side ----

type c21Srv struct {
	kicked bool // focus "recreate": the session has been thrown out
	mu       sync.Mutex
	r        *rand.Rand
	reg      *gen.Registry
	byName   map[string]reflect.Type
	respList []reflect.Type
	last     []string // the last responses sent
	hostile  bool     // also the connect sequence gets generated answers
	focus    string   // "publish": everything but PublishResponses is answered sanely
	counts   map[string]int
}

func newC21Srv(r *rand.Rand, reg *gen.Registry, hostile bool) *c21Srv {
	s := &c21Srv{r: r, reg: reg, byName: map[string]reflect.Type{}, hostile: hostile, counts: map[string]int{}}
	for _, t := range reg.Services {
		n := t.Type.Elem().Name()
		s.byName[n] = t.Type
		if strings.HasSuffix(n, "Response") || n == "ServiceFault" {
			s.respList = append(s.respList, t.Type)
		}
	}
	return s
}

// shape sets result arrays of a generated response to a chosen length class.
func (s *c21Srv) shape(v reflect.Value) {
	e := v.Elem()
	for i := 0; i < e.NumField(); i++ {
		f := e.Field(i)
		if f.Kind() != reflect.Slice || !f.CanSet() || f.Type().Elem().Kind() == reflect.Uint8 {
			continue
		}
		switch s.r.Intn(5) {
		case 0:
			f.Set(reflect.Zero(f.Type())) // null array
		case 1:
			f.Set(reflect.MakeSlice(f.Type(), 0, 0))
		case 2: // exactly as many as asked for in most of the client's requests (1-3)
			n := 1 + s.r.Intn(3)
			g := gen.New(s.r, s.reg)
			g.MaxDepth = 2
			ns := reflect.MakeSlice(f.Type(), n, n)
			for k := 0; k < n; k++ {
				if pn := fw.Catch(func() { ns.Index(k).Set(g.Value(f.Type().Elem())) }); pn != nil {
					return
				}
			}
			f.Set(ns)
		}
	}
}

func (s *c21Srv) handle(srv *refpeer.Server, sc *refpeer.SrvConn, m *refpeer.Msg) {
	req, ok := m.Service.(ua.Request)
	if !ok {
		return
	}
	name := reflect.TypeOf(m.Service).Elem().Name()
	s.mu.Lock()
	defer s.mu.Unlock()
	connectPhase := name == "GetEndpointsRequest" || name == "CreateSessionRequest" || name == "ActivateSessionRequest" || name == "CloseSessionRequest"
	if rr, ok := m.Service.(*ua.ReadRequest); ok && len(rr.NodesToRead) == 1 && rr.NodesToRead[0].NodeID.IntID() == id.Server_NamespaceArray && s.counts["ReadRequest-ns"] == 0 {
		connectPhase = true
		s.counts["ReadRequest-ns"]++
	}
	if connectPhase && !s.hostile {
		if srv.Default(sc, m) {
			return
		}
	}
	s.counts[name]++
	want := s.byName[strings.TrimSuffix(name, "Request")+"Response"]
	var resp interface{}
	kind := ""
	x := s.r.Intn(100)
	g := gen.New(s.r, s.reg)
	g.MaxDepth = 2
	mk := func(t reflect.Type, status ua.StatusCode, shaped bool) interface{} {
		var v reflect.Value
		if pn := fw.Catch(func() { v = g.Value(t) }); pn != nil {
			return nil
		}
		if shaped {
			s.shape(v)
		}
		out := v.Interface()
		if r, ok := out.(ua.Response); ok {
			h := refpeer.RespHeader(req, status)
			r.SetHeader(h)
		}
		return out
	}
	if s.focus == "recreate" {
		// everything is answered sanely so that the client gets through its reconnect actions: one publish request
		// is answered BadSessionIDInvalid, the session cannot be restored, subscriptions cannot be transferred, so
		// they are recreated; the answers to the requests of that recreation are generated
		n := s.counts[name]
		switch rq := m.Service.(type) {
		case *ua.CreateSubscriptionRequest:
			if s.kicked {
				break // generated below
			}
			sc.Reply(m, &ua.CreateSubscriptionResponse{ResponseHeader: refpeer.RespHeader(rq, ua.StatusOK), SubscriptionID: uint32(n), RevisedPublishingInterval: 10, RevisedLifetimeCount: 100, RevisedMaxKeepAliveCount: 10})
			return
		case *ua.CreateMonitoredItemsRequest:
			if s.kicked {
				if s.r.Intn(2) == 0 {
					x = s.r.Intn(55) // expected type, Good, generated content
					break
				}
				// all results Good, but one fewer, as many, one or two more than items
				res := make([]*ua.MonitoredItemCreateResult, max(0, len(rq.ItemsToCreate)+s.r.Intn(4)-1))
				for i := range res {
					res[i] = &ua.MonitoredItemCreateResult{StatusCode: ua.StatusOK, MonitoredItemID: uint32(i + 1), RevisedSamplingInterval: 10, RevisedQueueSize: 1, FilterResult: ua.NewExtensionObject(nil)}
				}
				s.last = append(s.last, fmt.Sprintf("%s -> %d Good results for %d items (recreation)", name, len(res), len(rq.ItemsToCreate)))
				sc.Reply(m, &ua.CreateMonitoredItemsResponse{ResponseHeader: refpeer.RespHeader(rq, ua.StatusOK), Results: res})
				return
			}
			res := make([]*ua.MonitoredItemCreateResult, len(rq.ItemsToCreate))
			for i := range res {
				res[i] = &ua.MonitoredItemCreateResult{StatusCode: ua.StatusOK, MonitoredItemID: uint32(i + 1), RevisedSamplingInterval: 10, RevisedQueueSize: 1, FilterResult: ua.NewExtensionObject(nil)}
			}
			sc.Reply(m, &ua.CreateMonitoredItemsResponse{ResponseHeader: refpeer.RespHeader(rq, ua.StatusOK), Results: res})
			return
		case *ua.PublishRequest:
			if n == 3 && !s.kicked {
				s.kicked = true
				srv.ForgetSessions()
				sc.Fault(m, ua.StatusBadSessionIDInvalid)
				return
			}
			if s.kicked {
				return // no answer: the publish loop just waits
			}
			sc.Reply(m, &ua.PublishResponse{ResponseHeader: refpeer.RespHeader(rq, ua.StatusOK), SubscriptionID: 1, NotificationMessage: &ua.NotificationMessage{SequenceNumber: uint32(n), PublishTime: time.Now(), NotificationData: []*ua.ExtensionObject{}},
				AvailableSequenceNumbers: []uint32{}, Results: make([]ua.StatusCode, len(rq.SubscriptionAcknowledgements)), DiagnosticInfos: []*ua.DiagnosticInfo{}})
			return
		case *ua.TransferSubscriptionsRequest:
			sc.Fault(m, ua.StatusBadServiceUnsupported)
			return
		case *ua.DeleteSubscriptionsRequest:
			sc.Reply(m, &ua.DeleteSubscriptionsResponse{ResponseHeader: refpeer.RespHeader(rq, ua.StatusOK), Results: make([]ua.StatusCode, len(rq.SubscriptionIDs)), DiagnosticInfos: []*ua.DiagnosticInfo{}})
			return
		default:
			if srv.Default(sc, m) {
				return
			}
			if want != nil {
				if v := mk(want, ua.StatusOK, false); v != nil {
					if body, err := refpeer.EncodeBody(v); err == nil {
						sc.SendBody("MSG", m.ReqID, body, refpeer.SendOpts{})
					}
				}
				return
			}
		}
	}
	if s.focus == "publish" {
		switch rq := m.Service.(type) {
		case *ua.CreateSubscriptionRequest:
			x = 0 // the usable subscription below
		case *ua.CreateMonitoredItemsRequest:
			res := make([]*ua.MonitoredItemCreateResult, len(rq.ItemsToCreate))
			for i := range res {
				res[i] = &ua.MonitoredItemCreateResult{StatusCode: ua.StatusOK, MonitoredItemID: uint32(i + 1), RevisedSamplingInterval: 10, RevisedQueueSize: 1, FilterResult: ua.NewExtensionObject(nil)}
			}
			sc.Reply(m, &ua.CreateMonitoredItemsResponse{ResponseHeader: refpeer.RespHeader(rq, ua.StatusOK), Results: res})
			return
		case *ua.PublishRequest:
			// generated below: Good status most of the time so that the content is looked at
			if x >= 65 && x < 88 {
				x = 10
			}
		default:
			if want != nil {
				if v := mk(want, ua.StatusOK, false); v != nil {
					if body, err := refpeer.EncodeBody(v); err == nil {
						sc.SendBody("MSG", m.ReqID, body, refpeer.SendOpts{})
					}
				}
				return
			}
		}
	}
	if cr, ok := m.Service.(*ua.CreateSubscriptionRequest); ok && x < 60 {
		// often enough a subscription with usable timing, so that the client's publish loop really runs and the
		// generated PublishResponses reach it
		kind = "usable subscription"
		resp = &ua.CreateSubscriptionResponse{ResponseHeader: refpeer.RespHeader(cr, ua.StatusOK), SubscriptionID: uint32(1 + s.r.Intn(1000)), RevisedPublishingInterval: 10, RevisedLifetimeCount: 100, RevisedMaxKeepAliveCount: 10}
		x = 1000
	}
	// multi-step sequences: a well-shaped first answer leads the client into its follow-up request, whose answer is
	// generated again (Browse with a continuation point -> BrowseNext)
	if y := s.r.Intn(100); x != 1000 {
		cpResult := []*ua.BrowseResult{{StatusCode: ua.StatusOK, ContinuationPoint: []byte{1, 2, 3, byte(y)}, References: []*ua.ReferenceDescription{{ReferenceTypeID: ua.NewNumericNodeID(0, 35), IsForward: true, NodeID: ua.NewExpandedNodeID(ua.NewNumericNodeID(1, uint32(1000+y)), "", 0), BrowseName: &ua.QualifiedName{Name: "x"}, DisplayName: &ua.LocalizedText{}, TypeDefinition: ua.NewExpandedNodeID(ua.NewNumericNodeID(0, 0), "", 0)}}}}
		switch rq := m.Service.(type) {
		case *ua.BrowseRequest:
			if y < 35 && len(rq.NodesToBrowse) == 1 {
				kind, resp, x = "one result with a continuation point", &ua.BrowseResponse{ResponseHeader: refpeer.RespHeader(rq, ua.StatusOK), Results: cpResult, DiagnosticInfos: []*ua.DiagnosticInfo{}}, 1000
			}
		case *ua.BrowseNextRequest:
			if y < 20 {
				kind, resp, x = "one more result with a continuation point", &ua.BrowseNextResponse{ResponseHeader: refpeer.RespHeader(rq, ua.StatusOK), Results: cpResult, DiagnosticInfos: []*ua.DiagnosticInfo{}}, 1000
			}
		}
	}
	switch {
	case x == 1000:
	case want != nil && x < 55:
		kind = "expected type, Good, generated content"
		resp = mk(want, ua.StatusOK, true)
	case want != nil && x < 65:
		kind = "expected type, Good, default-shaped content"
		resp = mk(want, ua.StatusOK, false)
	case want != nil && x < 75:
		kind = "expected type, bad service result"
		resp = mk(want, []ua.StatusCode{ua.StatusBadNodeIDUnknown, ua.StatusBadUnexpectedError, ua.StatusUncertain, ua.StatusBadSubscriptionIDInvalid}[s.r.Intn(4)], true)
	case x < 88:
		kind = "another response type"
		resp = mk(s.respList[s.r.Intn(len(s.respList))], ua.StatusOK, true)
	default:
		kind = "service fault"
		resp = &ua.ServiceFault{ResponseHeader: refpeer.RespHeader(req, []ua.StatusCode{ua.StatusBadServiceUnsupported, ua.StatusBadSessionIDInvalid, ua.StatusBadTimeout, ua.StatusBadNoSubscription, ua.StatusBadTooManyPublishRequests}[s.r.Intn(5)])}
	}
	if resp == nil {
		return
	}
	body, err := refpeer.EncodeBody(resp)
	if err != nil {
		return // not encodable: not a response a server could send
	}
	// only responses that decode are in the property's domain
	if _, _, err := ua.DecodeService(body); err != nil {
		return
	}
	s.last = append(s.last, fmt.Sprintf("%s -> %T (%s) %s", name, resp, kind, hexTrunc(body)))
	if len(s.last) > 6 {
		s.last = s.last[1:]
	}
	sc.SendBody("MSG", m.ReqID, body, refpeer.SendOpts{})
}

type c21Case struct {
	Index     int64    `json:"index"`
	Hostile   bool     `json:"hostile_connect"`
	Reconnect bool     `json:"auto_reconnect"`
	Focus     string   `json:"focus,omitempty"`
	Seed      int64    `json:"seed"`
	Op        string   `json:"operation,omitempty"`
	LastSent  []string `json:"last_responses_sent,omitempty"`
	Detail    string   `json:"detail,omitempty"`
}

func c21One(c *fw.Ctx, cs c21Case) {
	r := rand.New(rand.NewSource(cs.Seed))
	reg := gen.LoadRegistry()
	srv, err := refpeer.NewServer(refpeer.ServerOpts{})
	if err != nil {
		c.Inconclusive("listen: " + err.Error())
		return
	}
	defer srv.Close()
	st := newC21Srv(r, reg, cs.Hostile)
	st.focus = cs.Focus
	srv.Handler = func(sc *refpeer.SrvConn, m *refpeer.Msg) { st.handle(srv, sc, m) }
	rounds := 1
	if !c.Quick() && !cs.Hostile {
		rounds = 2
	}
	arg := c21Arg{Endpoint: srv.Endpoint(), Ops: c21Ops, Rounds: rounds, Hostile: cs.Hostile, Reconnect: cs.Reconnect}
	if cs.Focus == "recreate" {
		arg.Ops = []string{"Subscribe", "Sub.Monitor", "PublishLoop", "PublishLoop", "PublishLoop", "PublishLoop", "PublishLoop", "PublishLoop", "Read", "PublishLoop", "PublishLoop", "Sub.Cancel"}
		arg.Rounds, arg.Reconnect = 1, true
	}
	if cs.Focus == "publish" {
		arg.Ops = []string{"Subscribe", "Sub.Monitor", "PublishLoop", "PublishLoop", "Read", "PublishLoop", "Sub.ModifyMonitoredItems", "PublishLoop", "Sub.Unmonitor", "PublishLoop", "Sub.Cancel", "Subscribe", "PublishLoop", "Monitor.Subscribe", "PublishLoop", "Monitor.AddNodes", "PublishLoop", "Monitor.RemoveNodes", "Monitor.Unsubscribe"}
		arg.Rounds = 2
	}
	out, stderr, rc, timedOut := sut.RunChild("c21-client", mustJSON(arg), 70*time.Second)
	lastOp := ""
	done := false
	for _, line := range strings.Split(out, "\n") {
		switch {
		case strings.HasPrefix(line, "OP "):
			lastOp = line[3:]
			c.Eval(1)
			f := strings.Fields(line)
			if len(f) == 3 {
				c.Class("op:"+f[2], 1)
				c.Nontrivial(fmt.Sprintf("%d/%s/%s", cs.Index, f[1], f[2]))
			}
		case strings.HasPrefix(line, "PANIC "):
			// "PANIC n name | frame | message"
			parts := strings.SplitN(line[6:], " | ", 3)
			cs2 := cs
			cs2.Op = parts[0]
			frame, msg := "?", line
			if len(parts) == 3 {
				frame, msg = parts[1], parts[2]
			}
			st.mu.Lock()
			cs2.LastSent = append([]string{}, st.last...)
			st.mu.Unlock()
			cs2.Detail = msg
			opn := strings.Fields(parts[0])
			name := parts[0]
			if len(opn) == 2 {
				name = opn[1]
			}
			c.Violation("c21:panic:"+frame+":"+panicKind(msg), fmt.Sprintf("client call %s panicked on a decodable response: %s", name, msg), cs2)
		case strings.HasPrefix(line, "HANG "):
			parts := strings.SplitN(line[5:], " | ", 3)
			cs2 := cs
			cs2.Op = parts[0]
			frame := "?"
			if len(parts) == 3 {
				frame, cs2.Detail = parts[1], strings.ReplaceAll(parts[2], "\\n", "\n")
			}
			st.mu.Lock()
			cs2.LastSent = append([]string{}, st.last...)
			st.mu.Unlock()
			name := parts[0]
			if opn := strings.Fields(parts[0]); len(opn) == 2 {
				name = opn[1]
			}
			c.Violation("c21:call-does-not-return:"+name+":"+frame, fmt.Sprintf("client call %s (context of 800 ms) neither returned a value nor an error within 12000 heartbeats after decodable responses", name), cs2)
			done = true
		case strings.HasPrefix(line, "NOTE "):
			c.Class("note:"+classOf(line[5:]), 1)
		case strings.HasPrefix(line, "INCONCLUSIVE "):
			c.Inconclusive(line[13:])
		case line == "DONE":
			done = true
		case strings.HasPrefix(line, "CONNECTFAILED"):
			c.Class("connect-failed", 1)
		}
	}
	st.mu.Lock()
	for k, n := range st.counts {
		c.Class("request-seen:"+k, int64(n))
	}
	last := append([]string{}, st.last...)
	st.mu.Unlock()
	if timedOut {
		cs.Op, cs.LastSent = lastOp, last
		cs.Detail = repoGoroutines(stderr, 3000)
		c.Inconclusive("client child did not finish within the watchdog (last op " + lastOp + ")")
		return
	}
	if !done {
		key, msg := fw.CrashKey(stderr)
		cs.Op, cs.LastSent, cs.Detail = lastOp, last, tailStr(stderr, 2500)
		opn := strings.Fields(lastOp)
		name := lastOp
		if len(opn) == 2 {
			name = opn[1]
		}
		c.Violation("c21:client-"+key, fmt.Sprintf("the client process died (rc=%d) during or after operation %s: %s", rc, name, msg), cs)
	}
}

func runtimeStack(buf []byte) int { return runtimeStackImpl(buf) }

// panicKind reduces a panic message to its kind, so that one defect has one key.
func panicKind(msg string) string {
	for _, k := range []string{"interface conversion", "index out of range", "nil pointer dereference", "slice bounds out of range", "nil map"} {
		if strings.Contains(msg, k) {
			return k
		}
	}
	return fw.MsgClass(msg)
}

func c21Run(c *fw.Ctx) error {
	n := int64(c.Pick(64, 3000))
	for i := int64(0); i < n; i++ {
		if int(i%int64(c.NBatch)) != c.Batch || i < c.Resume {
			continue
		}
		r := c.Rng("c21", i)
		cs := c21Case{Index: i, Hostile: i%4 == 3, Reconnect: i%2 == 0, Seed: r.Int63()}
		if i%3 == 1 {
			cs.Hostile, cs.Focus = false, "publish"
		}
		if i%6 == 5 {
			cs.Hostile, cs.Reconnect, cs.Focus = false, true, "recreate"
		}
		c.Journal(i, cs)
		c21One(c, cs)
		c.Done(i)
	}
	c.Sample(map[string]interface{}{"operations": c21Ops})
	return nil
}

func init() {
	sut.Register("c21-client", c21Client)
	fw.Register("C21", fw.Spec{
		Plan: func(tier string) fw.Plan {
			p := fw.Plan{Batches: 8, TimeoutS: 1200, MinNontrivial: 400, Level: "exploration",
				Rule:        "the real client in a child process runs through 47 operations once per run (twice in the thorough tier) (Read, Write, Browse, BrowseNext, Call, Register/UnregisterNodes, FindServers*, GetEndpoints, namespace helpers, the four HistoryRead calls, all Node helpers, Subscribe / Monitor / Unmonitor / ModifyMonitoredItems / SetMonitoringMode / SetTriggering / ModifySubscription / Stats / the background publish loop / Cancel, the monitor package); the scripted server answers every request with a generated response that encodes and decodes: the expected type with generated field values and result arrays set to null / empty / 1-3 / generated lengths under Good or bad service results, another registered response type, or a fault; in a quarter of the runs the connect sequence gets such answers too; a sixth of the runs lead the client through session loss into the recreation of its subscriptions (sane answers up to there, generated answers to the recreation requests); a third of the runs concentrate on the background publish loop (everything else answered sanely, generated PublishResponses); half of the runs use auto-reconnect (20 ms), so that bad service results drive the client through its reconnect actions (new channel, restore / recreate session, transfer / republish / recreate subscriptions) against generated answers; oracle: no panic in the calling goroutine (recovered and reported with the frame), the child does not die (background goroutines), it finishes; distinct = (run, operation)",
				Assumptions: []string{"responses come from the typed generator of C01, so they are values a server can encode"}}
			if tier == "thorough" {
				p.Batches, p.TimeoutS, p.MinNontrivial = 16, 3400, 50000
			}
			return p
		},
		Run: c21Run,
		Replay: func(c *fw.Ctx, raw json.RawMessage) error {
			var cs c21Case
			if err := json.Unmarshal(raw, &cs); err != nil {
				return err
			}
			cs.Op, cs.LastSent, cs.Detail = "", nil, ""
			c21One(c, cs)
			return nil
		},
	})
}
