package props

import (
	"encoding/json"
	"fmt"
	"math/rand"

	"github.com/gopcua/opcua"
	"github.com/gopcua/opcua/ua"

	"verifharness/fw"
)

// C24: SelectEndpoint returns a matching endpoint of maximal security level, and fails iff none matches.

const c24Prefix = "http://opcfoundation.org/UA/SecurityPolicy#"

var c24Names = []string{"None", "Basic128Rsa15", "Basic256", "Basic256Sha256", "Aes128_Sha256_RsaOaep", "Aes256_Sha256_RsaPss"}

type c24EP struct {
	Policy string `json:"policy"` // full URI
	Mode   uint32 `json:"mode"`
	Level  uint8  `json:"level"`
}

type c24Case struct {
	EPs    []c24EP `json:"endpoints"`
	Policy string  `json:"query_policy"` // as passed by the caller: "", short name or URI
	Mode   uint32  `json:"query_mode"`   // 0 = don't care
}

// own normalisation table: short name -> URI; anything else with the prefix stays, without gets the prefix
func c24Norm(p string) string {
	if p == "" {
		return ""
	}
	for _, n := range c24Names {
		if p == n {
			return c24Prefix + n
		}
	}
	// the two documented short names whose URI fragment is spelled with underscores
	switch p {
	case "Aes128Sha256RsaOaep":
		return c24Prefix + "Aes128_Sha256_RsaOaep"
	case "Aes256Sha256RsaPss":
		return c24Prefix + "Aes256_Sha256_RsaPss"
	}
	if len(p) >= len(c24Prefix) && p[:len(c24Prefix)] == c24Prefix {
		return p
	}
	return c24Prefix + p
}

func c24Check(c *fw.Ctx, cs c24Case) {
	eps := make([]*ua.EndpointDescription, len(cs.EPs))
	for i, e := range cs.EPs {
		eps[i] = &ua.EndpointDescription{EndpointURL: fmt.Sprintf("opc.tcp://h:%d", i), SecurityPolicyURI: e.Policy,
			SecurityMode: ua.MessageSecurityMode(e.Mode), SecurityLevel: e.Level}
	}
	want := c24Norm(cs.Policy)
	best, any := -1, false
	for _, e := range cs.EPs {
		if (want == "" || e.Policy == want) && (cs.Mode == 0 || e.Mode == cs.Mode) {
			any = true
			if int(e.Level) > best {
				best = int(e.Level)
			}
		}
	}
	var got *ua.EndpointDescription
	var err error
	if pn := fw.Catch(func() { got, err = opcua.SelectEndpoint(eps, cs.Policy, ua.MessageSecurityMode(cs.Mode)) }); pn != nil {
		c.Violation("select-"+pn.Key(), "SelectEndpoint panicked: "+pn.Msg, cs)
		return
	}
	c.Eval(1)
	if !any {
		c.Class("no-match", 1)
		if err == nil {
			c.Violation("returned-although-none-matches", fmt.Sprintf("returned %s/%v level %d although no endpoint matches", got.SecurityPolicyURI, got.SecurityMode, got.SecurityLevel), cs)
		}
		return
	}
	c.Class("match", 1)
	if err != nil || got == nil {
		c.Violation("error-although-match-exists", fmt.Sprintf("failed (%v) although a matching endpoint exists", err), cs)
		return
	}
	if (want != "" && got.SecurityPolicyURI != want) || (cs.Mode != 0 && uint32(got.SecurityMode) != cs.Mode) {
		c.Violation("result-does-not-match", fmt.Sprintf("returned %s/%v which does not match the query", got.SecurityPolicyURI, got.SecurityMode), cs)
		return
	}
	if int(got.SecurityLevel) != best {
		c.Violation("result-not-best", fmt.Sprintf("returned level %d, best matching level is %d", got.SecurityLevel, best), cs)
	}
	// the result must be one of the caller's endpoints
	found := false
	for _, e := range eps {
		if e == got {
			found = true
		}
	}
	if !found {
		c.Violation("result-not-from-list", "returned an endpoint that is not in the list", cs)
	}
}

func c24Run(c *fw.Ctx) error {
	pols := []string{c24Prefix + "None", c24Prefix + "Basic256Sha256", c24Prefix + "Aes256_Sha256_RsaPss", c24Prefix + "Foo"}
	var alpha []c24EP
	for _, p := range pols {
		for _, m := range []uint32{1, 2, 3} {
			for _, l := range []uint8{0, 1, 2} {
				alpha = append(alpha, c24EP{p, m, l})
			}
		}
	}
	queries := []string{"", "None", c24Prefix + "None", "Basic256Sha256", c24Prefix + "Aes256_Sha256_RsaPss", "Foo", "Basic256", "Aes256Sha256RsaPss", "Aes256_Sha256_RsaPss"}
	maxLen := c.Pick(2, 3)
	var idx int64
	var rec func(cur []c24EP)
	exh := int64(0)
	rec = func(cur []c24EP) {
		i := idx
		idx++
		if int(i%int64(c.NBatch)) == c.Batch {
			for _, q := range queries {
				for m := uint32(0); m <= 3; m++ {
					cs := c24Case{EPs: cur, Policy: q, Mode: m}
					c24Check(c, cs)
					exh++
				}
			}
			c.Nontrivial(fmt.Sprint(cur))
		}
		if len(cur) == maxLen {
			return
		}
		for _, e := range alpha {
			rec(append(append([]c24EP{}, cur...), e))
		}
	}
	rec(nil)
	c.Extra("sum_exhaustive_evaluations", exh)
	c.Extra("exhaustive_list_length", maxLen)
	// random longer lists
	n := int64(c.Pick(20000, 1500000))
	for i := int64(0); i < n; i++ {
		if int(i%int64(c.NBatch)) != c.Batch {
			continue
		}
		r := c.Rng("rand", i)
		cs := c24Rand(r)
		c.Journal(i, cs)
		c24Check(c, cs)
		c.Nontrivial(fmt.Sprint(cs))
		if i%5000 == 0 {
			c.Sample(cs)
		}
	}
	return nil
}

func c24Rand(r *rand.Rand) c24Case {
	n := r.Intn(13)
	var eps []c24EP
	for i := 0; i < n; i++ {
		var e c24EP
		if i > 0 && r.Intn(4) == 0 {
			e = eps[r.Intn(len(eps))] // duplicate
		} else {
			name := c24Names[r.Intn(len(c24Names))]
			if r.Intn(8) == 0 {
				name = "Unknown" + fmt.Sprint(r.Intn(3))
			}
			e = c24EP{Policy: c24Prefix + name, Mode: uint32(1 + r.Intn(3)), Level: uint8(r.Intn(4) * 40)}
			if r.Intn(4) == 0 {
				e.Level = uint8(r.Intn(256))
			}
		}
		eps = append(eps, e)
	}
	q := ""
	switch r.Intn(4) {
	case 0:
		q = append(append([]string{}, c24Names...), "Aes128Sha256RsaOaep", "Aes256Sha256RsaPss")[r.Intn(len(c24Names)+2)]
	case 1:
		q = c24Prefix + c24Names[r.Intn(len(c24Names))]
	case 2:
		if len(eps) > 0 {
			q = eps[r.Intn(len(eps))].Policy
		}
	}
	return c24Case{EPs: eps, Policy: q, Mode: uint32(r.Intn(4))}
}

func init() {
	fw.Register("C24", fw.Spec{
		Plan: func(tier string) fw.Plan {
			p := fw.Plan{Batches: 4, TimeoutS: 300, MinNontrivial: 5000, Level: "exploration",
				Rule:        "exhaustive over endpoint lists of length <= 2 (quick) / <= 3 (thorough) from an alphabet of 4 policies x 3 modes x 3 levels, each x 9 policy queries (\"\", short names incl. the underscore-less documented ones, URIs, unknown) x 4 modes; plus seed-determined random lists of length 0..12 with duplicates, equal levels and unknown policies; oracle = independent model (match set, maximal level, error iff empty); distinct = distinct lists / cases",
				Assumptions: []string{"endpoint lists contain no nil entries"}}
			if tier == "thorough" {
				p.Batches, p.TimeoutS, p.MinNontrivial = 16, 1200, 500000
			}
			return p
		},
		Run: c24Run,
		Replay: func(c *fw.Ctx, raw json.RawMessage) error {
			var cs c24Case
			if err := json.Unmarshal(raw, &cs); err != nil {
				return err
			}
			c24Check(c, cs)
			return nil
		},
	})
}
