package props

import (
	"encoding/hex"
	"encoding/json"
	"fmt"
	"reflect"
	"strings"

	"github.com/gopcua/opcua/ua"
	"github.com/gopcua/opcua/uacp"
	"github.com/gopcua/opcua/uasc"

	"verifharness/fw"
	"verifharness/gen"
)

// C01: Encode(v) -> Decode -> equal value, exact length, re-encode fix-point.

type c01Type struct {
	Name    string
	T       reflect.Type // pointer type
	Service bool
	ID      string
}

func handWrittenTypes() []c01Type {
	ts := []interface{}{
		(*ua.Variant)(nil), (*ua.DataValue)(nil), (*ua.DiagnosticInfo)(nil), (*ua.LocalizedText)(nil),
		(*ua.QualifiedName)(nil), (*ua.NodeID)(nil), (*ua.ExpandedNodeID)(nil), (*ua.GUID)(nil),
		(*ua.ExtensionObject)(nil), (*ua.RequestHeader)(nil), (*ua.ResponseHeader)(nil),
		(*uacp.Hello)(nil), (*uacp.Acknowledge)(nil), (*uacp.Error)(nil), (*uacp.ReverseHello)(nil),
		(*uasc.SequenceHeader)(nil), (*uasc.SymmetricSecurityHeader)(nil), (*uasc.AsymmetricSecurityHeader)(nil),
		(*uasc.MessageAbort)(nil),
	}
	var out []c01Type
	for _, t := range ts {
		rt := reflect.TypeOf(t)
		out = append(out, c01Type{Name: rt.Elem().String(), T: rt})
	}
	return out
}

func allC01Types(reg *gen.Registry) []c01Type {
	var out []c01Type
	seen := map[reflect.Type]bool{}
	for _, s := range reg.Services {
		out = append(out, c01Type{Name: s.Type.Elem().String(), T: s.Type, Service: true, ID: s.ID})
		seen[s.Type] = true
	}
	for _, e := range reg.ExtObjs {
		if seen[e.Type] {
			continue
		}
		seen[e.Type] = true
		out = append(out, c01Type{Name: e.Type.Elem().String(), T: e.Type, ID: e.ID})
	}
	for _, h := range handWrittenTypes() {
		if !seen[h.T] {
			out = append(out, h)
		}
	}
	return out
}

type c01Witness struct {
	Type   string `json:"type"`
	Stream string `json:"stream"`
	Case   int64  `json:"case"`
	Hex    string `json:"hex,omitempty"`
	Diff   string `json:"diff,omitempty"`
}

// roundTrip checks one value; it returns a violation key and description or "".
func roundTrip(t c01Type, v reflect.Value) (key, desc string, enc []byte) {
	var b []byte
	var err error
	if p := fw.Catch(func() { b, err = ua.Encode(v.Interface()) }); p != nil {
		return "encode-" + p.Key(), "Encode panicked: " + p.Msg, nil
	}
	if err != nil {
		return "encode-error:" + fw.MsgClass(err.Error()), "Encode of a generated value failed: " + err.Error(), nil
	}
	v2 := reflect.New(t.T.Elem())
	var n int
	if p := fw.Catch(func() { n, err = ua.Decode(b, v2.Interface()) }); p != nil {
		return "decode-" + p.Key(), "Decode of own encoding panicked: " + p.Msg, b
	}
	if err != nil {
		return "decode-error:" + fw.MsgClass(err.Error()), "Decode of own encoding failed: " + err.Error(), b
	}
	if n != len(b) {
		return "length", fmt.Sprintf("Decode consumed %d of %d bytes", n, len(b)), b
	}
	if d := gen.Equal(v.Interface(), v2.Interface()); d != "" {
		return "unequal:" + diffClass(d), "decoded value differs: " + d, b
	}
	// second round trip: what was decoded must encode again and decode to the same value
	// (byte equality is not demanded: null and empty strings/arrays are the same value)
	var b2 []byte
	if p := fw.Catch(func() { b2, err = ua.Encode(v2.Interface()) }); p != nil {
		return "reencode-" + p.Key(), "re-Encode panicked: " + p.Msg, b
	}
	if err != nil {
		return "reencode-error:" + fw.MsgClass(err.Error()), "re-Encode failed: " + err.Error(), b
	}
	v3 := reflect.New(t.T.Elem())
	if p := fw.Catch(func() { n, err = ua.Decode(b2, v3.Interface()) }); p != nil {
		return "redecode-" + p.Key(), "second Decode panicked: " + p.Msg, b
	}
	if err != nil || n != len(b2) {
		return "redecode-error", fmt.Sprintf("second Decode failed: n=%d len=%d err=%v", n, len(b2), err), b
	}
	if d := gen.Equal(v2.Interface(), v3.Interface()); d != "" {
		return "fixpoint:" + diffClass(d), "second round trip differs: " + d, b
	}
	if t.Service {
		id := ua.MustParseNodeID(t.ID)
		hdr, _ := ua.NewFourByteExpandedNodeID(0, uint16(id.IntID())).Encode()
		var sv interface{}
		if p := fw.Catch(func() { _, sv, err = ua.DecodeService(append(hdr, b...)) }); p != nil {
			return "decodeservice-" + p.Key(), "DecodeService panicked: " + p.Msg, b
		}
		if err != nil {
			return "decodeservice-error", "DecodeService failed: " + err.Error(), b
		}
		if d := gen.Equal(v.Interface(), sv); d != "" {
			return "decodeservice-unequal:" + diffClass(d), "DecodeService value differs: " + d, b
		}
	}
	return "", "", b
}

func c01Run(c *fw.Ctx) error {
	reg := gen.LoadRegistry()
	types := allC01Types(reg)
	perType := int64(c.Pick(25, 3000))
	c.Extra("types", len(types))
	c.Extra("services", len(reg.Services))
	c.Extra("extobjs", len(reg.ExtObjs))
	var ci int64
	for ti, t := range types {
		if ti%c.NBatch != c.Batch {
			continue
		}
		for k := int64(0); k < perType; k++ {
			idx := int64(ti)*perType + k
			ci = idx
			if idx < c.Resume {
				continue
			}
			g := gen.New(c.Rng("type", idx), reg)
			if k%7 == 6 {
				g.Big = true
			}
			c.Journal(idx, c01Witness{Type: t.Name, Stream: "type", Case: idx})
			var v reflect.Value
			var key, desc string
			var enc []byte
			if p := fw.Catch(func() { v = g.Value(t.T) }); p != nil {
				key, desc = "construct:"+fw.MsgClass(p.Msg), "a public constructor rejected a value of the domain: "+p.Msg
			} else {
				key, desc, enc = roundTrip(t, v)
			}
			c.Eval(1)
			c.Class("type:"+kindOf(t), 1)
			if len(enc) >= 2 {
				c.NontrivialBytes(append([]byte(t.Name+"\x00"), enc...))
			}
			if key != "" {
				c.Violation(key, desc, c01Witness{Type: t.Name, Stream: "type", Case: idx, Hex: hexTrunc(enc), Diff: desc})
			} else if k == 0 && ti%37 == 0 {
				c.Sample(map[string]interface{}{"type": t.Name, "encoding_hex": hexTrunc(enc)})
			}
			c.Done(idx)
		}
	}
	_ = ci
	// exhaustive sub-spaces, spread over the batches by index
	base := int64(len(types)) * perType
	reps := int64(c.Pick(4, 200))
	sub := int64(0)
	runSub := func(name string, mk func(g *gen.G) interface{}) {
		for r := int64(0); r < reps; r++ {
			idx := base + sub
			sub++
			if int(idx%int64(c.NBatch)) != c.Batch || idx < c.Resume {
				continue
			}
			g := gen.New(c.Rng("sub", idx), reg)
			c.Journal(idx, c01Witness{Type: name, Stream: "sub", Case: idx})
			var v interface{}
			var key, desc string
			var enc []byte
			t := c01Type{Name: name}
			if p := fw.Catch(func() { v = mk(g) }); p != nil {
				key, desc = "construct:"+fw.MsgClass(p.Msg), "a public constructor rejected a value of the domain: "+p.Msg
			} else {
				t = c01Type{Name: reflect.TypeOf(v).Elem().String(), T: reflect.TypeOf(v)}
				key, desc, enc = roundTrip(t, reflect.ValueOf(v))
			}
			c.Eval(1)
			c.Class("subspace:"+name, 1)
			if len(enc) >= 2 {
				c.NontrivialBytes(append([]byte(t.Name+"\x00"), enc...))
			}
			if key != "" {
				c.Violation(key, desc, c01Witness{Type: name, Stream: "sub", Case: idx, Hex: hexTrunc(enc), Diff: desc})
			}
			c.Done(idx)
		}
	}
	for m := 0; m < 64; m++ {
		m := m
		runSub(fmt.Sprintf("DataValue/mask=%#02x", m), func(g *gen.G) interface{} { return g.DataValueMask(byte(m)) })
	}
	for m := 0; m < 128; m++ {
		m := m
		runSub(fmt.Sprintf("DiagnosticInfo/mask=%#02x", m), func(g *gen.G) interface{} { return g.DiagnosticInfoMask(byte(m)) })
	}
	for m := 0; m < 4; m++ {
		m := m
		runSub(fmt.Sprintf("LocalizedText/mask=%d", m), func(g *gen.G) interface{} {
			l := &ua.LocalizedText{EncodingMask: byte(m)}
			if m&1 != 0 {
				l.Locale = g.String()
			}
			if m&2 != 0 {
				l.Text = g.String()
			}
			return l
		})
	}
	for ti := 0; ti < gen.NumVariantTypes; ti++ {
		for sh := 0; sh < gen.NumShapes; sh++ {
			ti, sh := ti, sh
			runSub(fmt.Sprintf("Variant/type=%d/shape=%d", ti+1, sh), func(g *gen.G) interface{} { return g.VariantOf(ti, sh) })
		}
	}
	runSub("Variant/null", func(g *gen.G) interface{} { return ua.MustVariant(nil) })
	return nil
}

// diffClass reduces "path: message" to "lastPathSegment: message class", so that
// one defect has one key whatever type it shows up in (the type is in the witness).
func diffClass(d string) string {
	path, msg := d, ""
	if i := strings.Index(d, ": "); i >= 0 {
		path, msg = d[:i], d[i+2:]
	}
	if i := strings.LastIndex(path, "."); i >= 0 {
		path = path[i+1:]
	}
	if i := strings.Index(path, "["); i >= 0 {
		path = path[:i]
	}
	return path + ":" + fw.MsgClass(msg)
}

func kindOf(t c01Type) string {
	switch {
	case t.Service:
		return "service"
	case t.ID != "":
		return "extobj"
	}
	return "handwritten"
}

func hexTrunc(b []byte) string {
	if len(b) > 512 {
		return hex.EncodeToString(b[:512]) + "..."
	}
	return hex.EncodeToString(b)
}

// c01Replay regenerates the case from (stream, case index) and re-checks it.
func c01Replay(c *fw.Ctx, w json.RawMessage) error {
	var wit c01Witness
	if err := json.Unmarshal(w, &wit); err != nil {
		return err
	}
	c.Resume = wit.Case
	// run only that case: cheap enough to rerun the enclosing loop with a filter
	return c01RunOnly(c, wit)
}

func c01RunOnly(c *fw.Ctx, wit c01Witness) error {
	reg := gen.LoadRegistry()
	types := allC01Types(reg)
	if wit.Stream == "type" {
		perType := int64(c.Pick(25, 3000))
		ti := int(wit.Case / perType)
		if ti >= len(types) {
			return fmt.Errorf("case out of range")
		}
		t := types[ti]
		g := gen.New(c.Rng("type", wit.Case), reg)
		if (wit.Case%perType)%7 == 6 {
			g.Big = true
		}
		var v reflect.Value
		var key, desc string
		var enc []byte
		if p := fw.Catch(func() { v = g.Value(t.T) }); p != nil {
			key, desc = "construct:"+fw.MsgClass(p.Msg), "a public constructor rejected a value of the domain: "+p.Msg
		} else {
			key, desc, enc = roundTrip(t, v)
		}
		c.Eval(1)
		if key != "" {
			c.Violation(key, desc, c01Witness{Type: t.Name, Stream: "type", Case: wit.Case, Hex: hexTrunc(enc), Diff: desc})
		}
		return nil
	}
	return fmt.Errorf("replay of sub-space cases: rerun the check with the same seed and tier")
}

func init() {
	fw.Register("C01", fw.Spec{
		Plan: func(tier string) fw.Plan {
			p := fw.Plan{Batches: 4, TimeoutS: 300, MinNontrivial: 2000, Level: "exploration",
				Rule: "typed generator (reflect walk, seed-determined) over every type registered in the tree under test (services, extension objects) plus the hand-written codec types, N values per type, plus exhaustive mask/shape sub-spaces (64 DataValue masks, 128 DiagnosticInfo masks, 4 LocalizedText masks, 25 Variant types x 6 shapes); a case is non-trivial and distinct if its (type, encoding) pair is new and the encoding has >= 2 bytes",
				Assumptions: []string{"values are in the property's domain: non-nil struct pointers, DateTime zero or within 1678..2262, GUID Data4 of 8 bytes, multi-dimensional Variant arrays rectangular with every dimension >= 1",
					"equality: nil==empty slices/strings, |dt|<100ns, NaN==NaN, DataValue fields compared iff their mask bit is set; nothing else forgiven"}}
			if tier == "thorough" {
				p.Batches = 16
				p.TimeoutS = 1800
				p.MinNontrivial = 200000
			}
			return p
		},
		Run:    c01Run,
		Replay: c01Replay,
	})
}
