package props

import (
	"context"
	"encoding/json"
	"fmt"
	"math/rand"
	"strings"
	"sync"
	"time"

	"github.com/gopcua/opcua"
	"github.com/gopcua/opcua/ua"
	"github.com/gopcua/opcua/uacp"
	"github.com/gopcua/opcua/uasc"

	"verifharness/fw"
	"verifharness/refpeer"
)

// C18: each request gets its own response, whatever the concurrency and ordering.
// Every Read carries a unique nonce (node id) which the scripted server echoes in the value of the
// response with the same request id. The server permutes, drops, duplicates, answers unsolicited ids,
// faults or answers with another type - but never binds a nonce to another request id.

type c18Run struct {
	Layer    string `json:"layer"` // "client" or "uasc"
	Callers  int    `json:"callers"`
	PerCall  int    `json:"requests_per_caller"`
	Seed     uint32 `json:"request_id_seed"`
	Window   int    `json:"reorder_window"`
	RunIndex int64  `json:"run"`
}

type c18Srv struct {
	mu      sync.Mutex
	r       *rand.Rand
	window  int
	held    []func()
	actions map[string]int
}

func nonceOf(req *ua.ReadRequest) string {
	if len(req.NodesToRead) != 1 || req.NodesToRead[0].NodeID == nil {
		return ""
	}
	return req.NodesToRead[0].NodeID.StringID()
}

// handler decides per request: answer (possibly late / out of order), drop, duplicate, fault, wrong type, plus unsolicited noise.
func (s *c18Srv) handle(srv *refpeer.Server, sc *refpeer.SrvConn, m *refpeer.Msg) {
	if srv.Default(sc, m) {
		return
	}
	req, ok := m.Service.(*ua.ReadRequest)
	if !ok {
		sc.Fault(m, ua.StatusBadServiceUnsupported)
		return
	}
	nonce := nonceOf(req)
	good := &ua.ReadResponse{ResponseHeader: refpeer.RespHeader(req, ua.StatusOK), Results: []*ua.DataValue{{EncodingMask: ua.DataValueValue, Value: ua.MustVariant(nonce)}}}
	s.mu.Lock()
	x := s.r.Intn(100)
	var act string
	var send func()
	switch {
	case x < 55:
		act = "answer"
		send = func() { sc.Reply(m, good) }
	case x < 70:
		// answer around the moment an impatient caller gives up (their contexts end after 15-60 ms)
		act = "answer-near-caller-deadline"
		d := time.Duration(8+s.r.Intn(60)) * time.Millisecond
		s.actions[act]++
		s.mu.Unlock()
		go func() { time.Sleep(d); sc.Reply(m, good) }()
		return
	case x < 76:
		act = "drop"
	case x < 84:
		act = "duplicate"
		send = func() { sc.Reply(m, good); sc.Reply(m, good) }
	case x < 90:
		act = "fault"
		send = func() { sc.Fault(m, ua.StatusBadNodeIDUnknown) }
	case x < 93:
		act = "wrongtype"
		send = func() {
			sc.Reply(m, &ua.WriteResponse{ResponseHeader: refpeer.RespHeader(req, ua.StatusOK), Results: []ua.StatusCode{ua.StatusOK}})
		}
	case x < 95:
		// a message that decodes but is no response at all: the request comes back
		act = "request-echoed"
		send = func() { sc.Reply(m, req) }
	default:
		act = "unsolicited+answer"
		other := &refpeer.Msg{ReqID: m.ReqID + 0x40000000}
		decoy := &ua.ReadResponse{ResponseHeader: refpeer.RespHeader(req, ua.StatusOK), Results: []*ua.DataValue{{EncodingMask: ua.DataValueValue, Value: ua.MustVariant("decoy-" + nonce)}}}
		send = func() { sc.Reply(other, decoy); sc.Reply(m, good) }
	}
	s.actions[act]++
	if send != nil {
		s.held = append(s.held, send)
	}
	// release a random permutation once the window is full
	var release []func()
	if len(s.held) >= s.window {
		s.r.Shuffle(len(s.held), func(i, j int) { s.held[i], s.held[j] = s.held[j], s.held[i] })
		release, s.held = s.held, nil
	}
	s.mu.Unlock()
	for _, f := range release {
		f()
	}
}

func (s *c18Srv) flushLoop(stop chan struct{}) {
	for {
		select {
		case <-stop:
			return
		case <-time.After(15 * time.Millisecond):
		}
		s.mu.Lock()
		release := s.held
		s.held = nil
		s.r.Shuffle(len(release), func(i, j int) { release[i], release[j] = release[j], release[i] })
		s.mu.Unlock()
		for _, f := range release {
			f()
		}
	}
}

type reader interface {
	read(ctx context.Context, nonce string) (*ua.ReadResponse, error)
	close()
}

type clientReader struct{ c *opcua.Client }

func (r clientReader) read(ctx context.Context, nonce string) (*ua.ReadResponse, error) {
	return r.c.Read(ctx, &ua.ReadRequest{NodesToRead: []*ua.ReadValueID{{NodeID: ua.NewStringNodeID(1, nonce), AttributeID: ua.AttributeIDValue}}})
}
func (r clientReader) close() { r.c.Close(context.Background()) }

type uascReader struct {
	sc   *uasc.SecureChannel
	conn *uacp.Conn
}

func (r uascReader) read(ctx context.Context, nonce string) (*ua.ReadResponse, error) {
	var res *ua.ReadResponse
	req := &ua.ReadRequest{NodesToRead: []*ua.ReadValueID{{NodeID: ua.NewStringNodeID(1, nonce), AttributeID: ua.AttributeIDValue, DataEncoding: &ua.QualifiedName{}}}}
	err := r.sc.SendRequest(ctx, req, nil, func(v ua.Response) error {
		rr, ok := v.(*ua.ReadResponse)
		if !ok {
			return fmt.Errorf("wrong response type %T", v)
		}
		res = rr
		return nil
	})
	return res, err
}
func (r uascReader) close() { r.sc.Close(); r.conn.Close() }

func c18One(c *fw.Ctx, run c18Run, r *rand.Rand) {
	srv, err := refpeer.NewServer(refpeer.ServerOpts{})
	if err != nil {
		c.Inconclusive("listen: " + err.Error())
		return
	}
	defer srv.Close()
	st := &c18Srv{r: rand.New(rand.NewSource(r.Int63())), window: run.Window, actions: map[string]int{}}
	srv.Handler = func(sc *refpeer.SrvConn, m *refpeer.Msg) { st.handle(srv, sc, m) }
	stop := make(chan struct{})
	go st.flushLoop(stop)
	defer close(stop)

	var hmu sync.Mutex
	hr := rand.New(rand.NewSource(r.Int63()))
	hits := map[string]int64{}
	uasc.VerifSetHook(func(point string) {
		hmu.Lock()
		hits[point]++
		var d time.Duration
		switch point {
		case "sc.disp.afterPop", "sc.ctx.done", "sc.timeout.fired":
			if hr.Intn(3) == 0 {
				d = time.Duration(100+hr.Intn(2500)) * time.Microsecond
			}
		}
		hmu.Unlock()
		if d > 0 {
			time.Sleep(d)
		}
	})
	defer func() {
		uasc.VerifSetHook(nil)
		hmu.Lock()
		for p, n := range hits {
			c.Class("hook:"+p, n)
		}
		hmu.Unlock()
	}()
	ctx, cancel := context.WithTimeout(context.Background(), 60*time.Second)
	defer cancel()
	var rd reader
	switch run.Layer {
	case "client":
		cl, err := opcua.NewClient(srv.Endpoint(), opcua.SecurityMode(ua.MessageSecurityModeNone), opcua.RequestTimeout(100*time.Millisecond), opcua.AutoReconnect(false))
		if err == nil {
			err = cl.Connect(ctx)
		}
		if err != nil {
			c.Inconclusive("connect failed: " + err.Error())
			return
		}
		rd = clientReader{cl}
	default:
		conn, err := uacp.Dial(ctx, srv.Endpoint())
		if err != nil {
			c.Inconclusive("dial failed: " + err.Error())
			return
		}
		cfg := &uasc.Config{SecurityPolicyURI: ua.SecurityPolicyURINone, SecurityMode: ua.MessageSecurityModeNone, Lifetime: 3600000,
			RequestTimeout: 100 * time.Millisecond, RequestIDSeed: run.Seed}
		sc, err := uasc.NewSecureChannel(srv.Endpoint(), conn, cfg, make(chan error, 16))
		if err == nil {
			err = sc.Open(ctx)
		}
		if err != nil {
			conn.Close()
			c.Inconclusive("open failed: " + err.Error())
			return
		}
		rd = uascReader{sc, conn}
	}
	defer rd.close()

	type result struct {
		nonce string
		got   string
		err   error
		typ   string
	}
	results := make(chan result, run.Callers*run.PerCall)
	var wg sync.WaitGroup
	for g := 0; g < run.Callers; g++ {
		wg.Add(1)
		go func(g int) {
			defer wg.Done()
			for k := 0; k < run.PerCall; k++ {
				nonce := fmt.Sprintf("n-%d-%d-%d", run.RunIndex, g, k)
				cctx, ccancel := ctx, context.CancelFunc(func() {})
				if (g+k)%2 == 1 { // impatient caller: gives up after 15-60 ms and immediately issues its next request
					cctx, ccancel = context.WithTimeout(ctx, time.Duration(15+(g*7+k*13)%46)*time.Millisecond)
				}
				res, err := rd.read(cctx, nonce)
				ccancel()
				out := result{nonce: nonce, err: err}
				if err == nil {
					if res == nil || len(res.Results) != 1 || res.Results[0].Value == nil {
						out.typ = "malformed"
					} else if s, ok := res.Results[0].Value.Value().(string); ok {
						out.got = s
					} else {
						out.typ = fmt.Sprintf("%T", res.Results[0].Value.Value())
					}
				}
				results <- out
			}
		}(g)
	}
	wg.Wait()
	close(results)
	seen := map[string]int{}
	ok, failed := 0, 0
	for res := range results {
		c.Eval(1)
		if res.err != nil {
			failed++
			if strings.Contains(res.err.Error(), "duplicate handler registration") {
				c.Violation("c18:request-id-reused-while-pending:"+run.Layer, fmt.Sprintf("the call for %s was given the request id of a request that is still pending: %v", res.nonce, res.err), run)
			}
			continue
		}
		ok++
		if res.typ != "" {
			c.Violation("c18:success-with-unexpected-content", fmt.Sprintf("call for %s succeeded with %s", res.nonce, res.typ), run)
			continue
		}
		seen[res.got]++
		if res.got != res.nonce {
			c.Violation("c18:foreign-response:"+run.Layer, fmt.Sprintf("the call for nonce %s returned the response carrying %s", res.nonce, res.got), run)
		}
	}
	for n, k := range seen {
		if k > 1 {
			c.Violation("c18:response-delivered-twice:"+run.Layer, fmt.Sprintf("the response for %s was returned to %d callers", n, k), run)
		}
	}
	st.mu.Lock()
	for a, n := range st.actions {
		c.Class("server:"+a, int64(n))
	}
	st.mu.Unlock()
	c.Class("calls:ok", int64(ok))
	c.Class("calls:error", int64(failed))
	c.Class("layer:"+run.Layer, 1)
	if ok > 0 && failed > 0 {
		c.Nontrivial(fmt.Sprintf("run-%d", run.RunIndex))
	}
}

func c18RunAll(c *fw.Ctx) error {
	n := int64(c.Pick(32, 2400))
	for i := int64(0); i < n; i++ {
		if int(i%int64(c.NBatch)) != c.Batch || i < c.Resume {
			continue
		}
		r := c.Rng("c18", i)
		run := c18Run{Layer: []string{"client", "uasc"}[int(i/int64(c.NBatch))%2], Callers: []int{1, 2, 4, 8, 16, 32, 64}[r.Intn(7)], RunIndex: i,
			Window: 1 + r.Intn(12), Seed: []uint32{0, 0xffffffff - uint32(r.Intn(40)), 0xffffffff - uint32(r.Intn(200)), r.Uint32()}[r.Intn(4)]}
		run.PerCall = 240 / run.Callers
		if run.PerCall < 4 {
			run.PerCall = 4
		}
		c.Journal(i, run)
		c18One(c, run, r)
		if i%7 == 0 {
			c.Sample(run)
		}
		c.Done(i)
	}
	return nil
}

func init() {
	fw.Register("C18", fw.Spec{
		Plan: func(tier string) fw.Plan {
			p := fw.Plan{Batches: 8, TimeoutS: 600, MinNontrivial: 8, Level: "exploration",
				Rule:        "runs of 1..64 concurrent callers issuing Reads with unique nonces over one channel (opcua.Client and bare uasc.SecureChannel with request-id seeds incl. just below 2^32) against the scripted refpeer server, which answers in random permutation windows, drops, duplicates, sends unsolicited request ids, ServiceFaults and wrong-typed responses and answers around the moment impatient callers (every second call has a 15-60 ms context) give up, but always binds a nonce to its own request id; the verif hook points sc.disp.afterPop / sc.ctx.done / sc.timeout.fired delay the dispatcher and the abandoning caller by 0.1-2.6 ms in a third of the cases to widen the hand-over window; oracle: exactly-once matching over the call/return log (a successful call returns its own nonce, no nonce is returned twice, wrong-typed responses are errors, no call is given the request id of a pending request); a run is non-trivial if it had both successful and failed calls; evaluations = calls",
				Assumptions: []string{"the scripted server never lies about which request a response belongs to"}}
			if tier == "thorough" {
				p.Batches, p.TimeoutS, p.MinNontrivial = 16, 3000, 300
			}
			return p
		},
		Run: c18RunAll,
		Replay: func(c *fw.Ctx, raw json.RawMessage) error {
			var run c18Run
			if err := json.Unmarshal(raw, &run); err != nil {
				return err
			}
			c18One(c, run, c.Rng("c18", run.RunIndex))
			return nil
		},
	})
}
