package props

import (
	"context"
	"crypto/sha256"
	"encoding/json"
	"fmt"
	"io"
	"math/rand"
	"strings"
	"sync"
	"time"

	"github.com/gopcua/opcua"
	"github.com/gopcua/opcua/ua"
	"github.com/gopcua/opcua/uacp"
	"github.com/gopcua/opcua/uapolicy"
	"github.com/gopcua/opcua/uasc"

	"verifharness/fw"
	"verifharness/keys"
	"verifharness/refpeer"
)

// C20: messages delivered to the application never change afterwards. Every delivered request / response object is
// retained together with a hash of its re-encoding taken at delivery; after all later traffic on the same and on
// other connections the objects are re-encoded and must hash to the same value.

type c20Case struct {
	Index    int64  `json:"index"`
	Channels int    `json:"parallel_channels"`
	Msgs     int    `json:"messages_per_channel"`
	Mode     int    `json:"mode"`
	Seed     int64  `json:"seed"`
	Detail   string `json:"detail,omitempty"`
}

type c20Kept struct {
	obj   interface{}
	get   func() interface{} // when set: what to hash is looked up through the delivered object each time
	hash  [32]byte
	where string
}

type c20Store struct {
	mu   sync.Mutex
	kept []c20Kept
}

func c20Hash(v interface{}) ([32]byte, bool) {
	b, err := ua.Encode(v)
	if err != nil {
		return [32]byte{}, false
	}
	return sha256.Sum256(b), true
}

func (s *c20Store) keep(v interface{}, where string) {
	h, ok := c20Hash(v)
	if !ok {
		return
	}
	s.mu.Lock()
	s.kept = append(s.kept, c20Kept{v, nil, h, where})
	s.mu.Unlock()
}

// keepVia retains an object that cannot be encoded itself; get returns the encodable part reached through it.
func (s *c20Store) keepVia(get func() interface{}, where string) {
	h, ok := c20Hash(get())
	if !ok {
		return
	}
	s.mu.Lock()
	s.kept = append(s.kept, c20Kept{nil, get, h, where})
	s.mu.Unlock()
}

// verify re-hashes everything kept so far.
func (s *c20Store) verify() (changed []string, n int) {
	s.mu.Lock()
	defer s.mu.Unlock()
	for _, k := range s.kept {
		obj := k.obj
		if k.get != nil {
			obj = k.get()
		}
		if h, ok := c20Hash(obj); !ok || h != k.hash {
			changed = append(changed, k.where)
		}
	}
	return changed, len(s.kept)
}

// c20ServerChannel: a bare server-kind channel receives back-to-back multi-chunk requests from the reference client.
func c20ServerChannel(cs c20Case, r *rand.Rand, st *c20Store, id int) error {
	bs, err := newBareServer(nil)
	if err != nil {
		return err
	}
	defer bs.l.Close()
	sk, ck := keys.Get("b", 2048), keys.Get("a", 2048)
	cfg := &uasc.Config{SecurityPolicyURI: ua.SecurityPolicyURINone, SecurityMode: ua.MessageSecurityModeNone, Lifetime: 3600000, Certificate: sk.Cert, LocalKey: sk.Key}
	type accRes struct {
		sc   *uasc.SecureChannel
		conn *uacp.Conn
		err  error
	}
	acc := make(chan accRes, 1)
	go func() {
		sc, conn, err := bs.accept(cfg, uint32(100+id), 1, 5)
		acc <- accRes{sc, conn, err}
	}()
	sec := refpeer.Security{Mode: refpeer.ModeNone}
	if cs.Mode != refpeer.ModeNone {
		sec = refpeer.Security{Policy: refpeer.PolicyByURI(refpeer.URIBasic256Sha256), Mode: cs.Mode, LocalKey: ck.Key, LocalCert: ck.Cert, RemoteCert: sk.Cert}
	}
	ch, _, err := refpeer.Dial(strings.TrimPrefix(bs.ep, "opc.tcp://"), refpeer.ClientOpts{Sec: sec})
	a := <-acc
	if err != nil || a.err != nil {
		return fmt.Errorf("set-up: %v / %v", err, a.err)
	}
	defer ch.Close()
	defer a.conn.Close()
	ctx, cancel := context.WithCancel(context.Background())
	defer cancel()
	rdone := make(chan int, 1)
	go func() {
		n := 0
		defer func() { rdone <- n }()
		for {
			msg := a.sc.Receive(ctx)
			if msg.Err == io.EOF || ctx.Err() != nil {
				return
			}
			if msg.Err != nil {
				if _, ok := msg.Err.(ua.StatusCode); ok {
					continue
				}
				return
			}
			if req := msg.Request(); req != nil {
				n++
				st.keep(req, fmt.Sprintf("request %d delivered by server-kind channel %d", n, id))
				if n == cs.Msgs {
					return
				}
			}
		}
	}()
	ch.Conn.SetReadDeadline(time.Now().Add(10 * time.Second))
	if _, err := ch.Open(false, 3600000); err != nil {
		return fmt.Errorf("open: %v", err)
	}
	ch.Conn.SetReadDeadline(time.Time{})
	for i := 0; i < cs.Msgs; i++ {
		size := []int{1, 100, 3000, 9000, 70000, 200000}[r.Intn(6)]
		payload := make([]byte, size)
		r.Read(payload)
		text := strings.Repeat(fmt.Sprintf("text-%d-%d;", id, i), 1+r.Intn(300))
		req := &ua.WriteRequest{NodesToWrite: []*ua.WriteValue{
			{NodeID: ua.NewStringNodeID(1, text), AttributeID: ua.AttributeIDValue, IndexRange: text[:len(text)/2], Value: &ua.DataValue{EncodingMask: ua.DataValueValue, Value: ua.MustVariant(payload)}},
			{NodeID: ua.NewByteStringNodeID(2, payload[:len(payload)/3]), AttributeID: ua.AttributeIDValue, Value: &ua.DataValue{EncodingMask: ua.DataValueValue, Value: ua.MustVariant([]string{text, "x", text})}},
		}}
		if r.Intn(3) == 0 {
			// a conforming split with an empty final chunk: all data in one or two intermediate chunks
			req.SetHeader(&ua.RequestHeader{AuthenticationToken: ua.NewTwoByteNodeID(0), Timestamp: time.Now(), RequestHandle: uint32(9000 + i), AdditionalHeader: ua.NewExtensionObject(nil)})
			body, _ := refpeer.EncodeBody(req)
			if len(body) < 60000 {
				m := &c12Msg{reqID: uint32(9000 + i), body: body, abortAt: -1}
				if r.Intn(2) == 0 || len(body) < 4 {
					m.parts = [][]byte{body, {}}
				} else {
					m.parts = [][]byte{body[:len(body)/2], body[len(body)/2:], {}}
				}
				order := make([][2]int, len(m.parts))
				for k := range m.parts {
					order[k] = [2]int{0, k}
				}
				if _, err := c12Send(ch, []*c12Msg{m}, order); err != nil {
					return fmt.Errorf("reference sender: %v", err)
				}
				continue
			}
		}
		if _, err := ch.SendRequest(req, nil, refpeer.SendOpts{MaxBody: []int{0, 0, 1000, 8000}[r.Intn(4)]}); err != nil {
			return fmt.Errorf("reference sender: %v", err)
		}
	}
	select {
	case n := <-rdone:
		if n < cs.Msgs {
			return fmt.Errorf("only %d of %d requests were delivered", n, cs.Msgs)
		}
	case <-time.After(20 * time.Second):
		return fmt.Errorf("receiver did not finish")
	}
	return nil
}

// c20ClientChannel: a bare client-kind channel gets large responses from the reference server.
func c20ClientChannel(cs c20Case, r *rand.Rand, st *c20Store, id int) error {
	sk, ck := keys.Get("b", 2048), keys.Get("a", 2048)
	so := refpeer.ServerOpts{}
	cfg := &uasc.Config{SecurityPolicyURI: ua.SecurityPolicyURINone, SecurityMode: ua.MessageSecurityModeNone, Lifetime: 3600000, RequestTimeout: 8 * time.Second}
	if cs.Mode != refpeer.ModeNone {
		so.Policy, so.Mode, so.Key, so.Cert = refpeer.PolicyByURI(refpeer.URIBasic256Sha256), cs.Mode, sk.Key, sk.Cert
		cfg.SecurityPolicyURI, cfg.SecurityMode = refpeer.URIBasic256Sha256, ua.MessageSecurityMode(cs.Mode)
		cfg.Certificate, cfg.LocalKey, cfg.RemoteCertificate, cfg.Thumbprint = ck.Cert, ck.Key, sk.Cert, uapolicy.Thumbprint(sk.Cert)
	}
	srv, err := refpeer.NewServer(so)
	if err != nil {
		return err
	}
	defer srv.Close()
	var smu sync.Mutex
	sr := rand.New(rand.NewSource(r.Int63()))
	srv.Handler = func(sc *refpeer.SrvConn, m *refpeer.Msg) {
		req, ok := m.Service.(*ua.ReadRequest)
		if !ok {
			return
		}
		smu.Lock()
		size := []int{1, 100, 3000, 9000, 70000, 200000}[sr.Intn(6)]
		payload := make([]byte, size)
		sr.Read(payload)
		text := strings.Repeat("resp-"+nonceOf(req)+";", 1+sr.Intn(300))
		maxBody := []int{0, 0, 1000, 8000}[sr.Intn(4)]
		smu.Unlock()
		resp := &ua.ReadResponse{ResponseHeader: refpeer.RespHeader(req, ua.StatusOK), Results: []*ua.DataValue{
			{EncodingMask: ua.DataValueValue, Value: ua.MustVariant(payload)},
			{EncodingMask: ua.DataValueValue, Value: ua.MustVariant(text)},
			{EncodingMask: ua.DataValueValue, Value: ua.MustVariant([]string{text, text[:len(text)/2]})},
			{EncodingMask: ua.DataValueValue, Value: ua.MustVariant(ua.NewLocalizedText(text))},
		}}
		if body, err := refpeer.EncodeBody(resp); err == nil && len(body) < 60000 && maxBody == 0 {
			// every second small response ends with an empty final chunk
			cm := &c12Msg{reqID: m.ReqID, body: body, abortAt: -1, parts: [][]byte{body, {}}}
			c12Send(sc.Channel, []*c12Msg{cm}, [][2]int{{0, 0}, {0, 1}})
			return
		}
		sc.SendService("MSG", m.ReqID, resp, refpeer.SendOpts{MaxBody: maxBody})
	}
	ctx, cancel := context.WithTimeout(context.Background(), 60*time.Second)
	defer cancel()
	conn, err := uacp.Dial(ctx, srv.Endpoint())
	if err != nil {
		return err
	}
	defer conn.Close()
	sc, err := uasc.NewSecureChannel(srv.Endpoint(), conn, cfg, make(chan error, 64))
	if err == nil {
		err = sc.Open(ctx)
	}
	if err != nil {
		return fmt.Errorf("open: %v", err)
	}
	defer sc.Close()
	for i := 0; i < cs.Msgs; i++ {
		nonce := fmt.Sprintf("c%d-%d", id, i)
		req := &ua.ReadRequest{NodesToRead: []*ua.ReadValueID{{NodeID: ua.NewStringNodeID(1, nonce), AttributeID: ua.AttributeIDValue, DataEncoding: &ua.QualifiedName{}}}}
		err := sc.SendRequest(ctx, req, nil, func(v ua.Response) error {
			st.keep(v, fmt.Sprintf("response %d delivered by client-kind channel %d", i, id))
			return nil
		})
		if err != nil {
			return fmt.Errorf("request %d: %v", i, err)
		}
	}
	return nil
}

// c20RealPair: real client against the real server: retained Read results while the values keep changing.
func c20RealPair(cs c20Case, r *rand.Rand, st *c20Store) error {
	pol := "None"
	if cs.Mode != refpeer.ModeNone {
		pol = "Basic256Sha256"
	}
	rs, err := startRealServer(srvCfg{Sec: []secPair{{pol, cs.Mode}}, KeyBits: 2048, Vars: 3})
	if err != nil {
		return err
	}
	defer rs.Srv.Close()
	ck, sk := keys.Get("a", 2048), keys.Get("b", 2048)
	opts := []opcua.Option{opcua.SecurityPolicy(pol), opcua.SecurityMode(ua.MessageSecurityMode(cs.Mode)), opcua.AutoReconnect(false), opcua.RequestTimeout(10 * time.Second), opcua.AuthAnonymous()}
	if cs.Mode != refpeer.ModeNone {
		opts = append(opts, opcua.PrivateKey(ck.Key), opcua.Certificate(ck.Cert), opcua.RemoteCertificate(sk.Cert))
	}
	ctx, cancel := context.WithTimeout(context.Background(), 60*time.Second)
	defer cancel()
	cl, err := opcua.NewClient(rs.Endpoint, opts...)
	if err == nil {
		err = cl.Connect(ctx)
	}
	if err != nil {
		return fmt.Errorf("connect: %v", err)
	}
	defer cl.Close(context.Background())
	// the notifications of a subscription are messages delivered to the application as well: each
	// *PublishNotificationData taken from the channel is kept and looked at again after later notifications
	notifs := make(chan *opcua.PublishNotificationData, 1024)
	if sub, err := cl.Subscribe(ctx, &opcua.SubscriptionParameters{Interval: 10 * time.Millisecond}, notifs); err == nil {
		for k, v := range rs.Vars {
			sub.Monitor(ctx, ua.TimestampsToReturnBoth, opcua.NewMonitoredItemCreateRequestWithDefaults(v.ID(), ua.AttributeIDValue, uint32(k+1)))
		}
		ndone := make(chan struct{})
		nctx, ncancel := context.WithCancel(context.Background())
		go func() {
			defer close(ndone)
			k := 0
			for {
				select {
				case p := <-notifs:
					if p == nil || p.Error != nil {
						continue
					}
					if _, ok := p.Value.(*ua.DataChangeNotification); ok {
						p := p
						st.keepVia(func() interface{} { return p.Value }, fmt.Sprintf("notification %d taken from the subscription's channel", k))
						k++
					}
				case <-nctx.Done():
					return
				}
			}
		}()
		defer func() {
			time.Sleep(60 * time.Millisecond) // a last publish round
			ncancel()
			<-ndone
		}()
	}
	for i := 0; i < cs.Msgs; i++ {
		n := rs.Vars[r.Intn(len(rs.Vars))]
		payload := make([]byte, []int{1, 500, 9000, 100000}[r.Intn(4)])
		r.Read(payload)
		if _, err := cl.Write(ctx, &ua.WriteRequest{NodesToWrite: []*ua.WriteValue{{NodeID: n.ID(), AttributeID: ua.AttributeIDValue, Value: &ua.DataValue{EncodingMask: ua.DataValueValue, Value: ua.MustVariant(payload)}}}}); err != nil {
			return fmt.Errorf("write: %v", err)
		}
		// what the server holds after the write is a message delivered to the (server) application
		if dv := n.Value(); dv != nil {
			st.keep(dv, fmt.Sprintf("value %d stored by the real server", i))
		}
		res, err := cl.Read(ctx, &ua.ReadRequest{NodesToRead: []*ua.ReadValueID{{NodeID: rs.Vars[0].ID(), AttributeID: ua.AttributeIDValue}, {NodeID: rs.Vars[1].ID(), AttributeID: ua.AttributeIDValue}, {NodeID: rs.Vars[2].ID(), AttributeID: ua.AttributeIDValue}}})
		if err != nil {
			return fmt.Errorf("read: %v", err)
		}
		st.keep(res, fmt.Sprintf("ReadResponse %d returned by the real client", i))
	}
	return nil
}

func c20One(c *fw.Ctx, cs c20Case) {
	r := rand.New(rand.NewSource(cs.Seed))
	st := &c20Store{}
	var wg sync.WaitGroup
	var emu sync.Mutex
	var errs []string
	for k := 0; k < cs.Channels; k++ {
		k := k
		rr := rand.New(rand.NewSource(r.Int63()))
		wg.Add(1)
		go func() {
			defer wg.Done()
			var err error
			switch k % 3 {
			case 0:
				err = c20ServerChannel(cs, rr, st, k)
			case 1:
				err = c20ClientChannel(cs, rr, st, k)
			default:
				err = c20RealPair(cs, rr, st)
			}
			if err != nil {
				emu.Lock()
				errs = append(errs, classOf(err.Error()))
				emu.Unlock()
			}
			// re-check everything delivered so far (by all channels) while the others are still receiving
			if changed, _ := st.verify(); len(changed) > 0 {
				emu.Lock()
				errs = append(errs, "CHANGED "+changed[0])
				emu.Unlock()
			}
		}()
	}
	wg.Wait()
	changed, n := st.verify()
	c.Eval(int64(n))
	c.AddExtra("sum_messages_retained_and_rehashed", int64(n))
	c.Class("mode:"+modeName(cs.Mode), 1)
	seen := map[string]bool{}
	for _, w := range changed {
		seen[w] = true
	}
	for _, e := range errs {
		if strings.HasPrefix(e, "CHANGED ") {
			if !seen[e[8:]] {
				seen[e[8:]] = true
				changed = append(changed, e[8:])
			}
		} else {
			c.Inconclusive("traffic: " + e)
		}
	}
	if n > 0 {
		c.Nontrivial(fmt.Sprintf("run-%d", cs.Index))
	}
	if len(changed) > 0 {
		cs.Detail = fmt.Sprintf("%d of %d retained messages re-encode differently after later traffic, e.g. %s", len(changed), n, changed[0])
		kind := strings.Fields(changed[0])[0]
		c.Violation("c20:delivered-message-changed:"+kind, cs.Detail, cs)
	}
}

func c20Run(c *fw.Ctx) error {
	n := int64(c.Pick(24, 1500))
	for i := int64(0); i < n; i++ {
		if int(i%int64(c.NBatch)) != c.Batch || i < c.Resume {
			continue
		}
		r := c.Rng("c20", i)
		cs := c20Case{Index: i, Channels: []int{1, 3, 8}[r.Intn(3)], Msgs: 6 + r.Intn(20), Mode: 1 + r.Intn(3), Seed: r.Int63()}
		c.Journal(i, cs)
		c20One(c, cs)
		if i%9 == 0 {
			c.Sample(cs)
		}
		c.Done(i)
	}
	return nil
}

func init() {
	fw.Register("C20", fw.Spec{
		Plan: func(tier string) fw.Plan {
			p := fw.Plan{Batches: 8, TimeoutS: 900, MinNontrivial: 16, Level: "exploration",
				Rule:        "runs with 1, 3 or 8 connections in parallel, 6-25 messages each, back to back: (a) a bare server-kind channel receives single- and multi-chunk WriteRequests with ByteStrings up to 200 kB, long strings and string arrays from the reference client (a third of them split so that the final chunk is empty), (b) a bare client-kind channel receives such ReadResponses from the reference server, (c) a real client reads and writes large values on the real server and holds a subscription on them whose notifications are retained as taken from the channel; modes None, Sign, SignAndEncrypt; every delivered request, response and stored value is retained with the SHA-256 of its re-encoding at delivery, re-hashed whenever a connection finishes (while the others still receive) and at the end; oracle: hashes unchanged; evaluations = retained messages",
				Assumptions: []string{"aliasing is observed through the public fields of the delivered objects (re-encoding)"}}
			if tier == "thorough" {
				p.Batches, p.TimeoutS, p.MinNontrivial = 16, 3000, 1000
			}
			return p
		},
		Run: c20Run,
		Replay: func(c *fw.Ctx, raw json.RawMessage) error {
			var cs c20Case
			if err := json.Unmarshal(raw, &cs); err != nil {
				return err
			}
			cs.Detail = ""
			c20One(c, cs)
			return nil
		},
	})
}
