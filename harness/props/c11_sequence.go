package props

import (
	"context"
	"encoding/json"
	"fmt"
	"math/rand"
	"strings"
	"sync"
	"sync/atomic"
	"time"

	"github.com/gopcua/opcua/ua"
	"github.com/gopcua/opcua/uacp"
	"github.com/gopcua/opcua/uapolicy"
	"github.com/gopcua/opcua/uasc"

	"verifharness/fw"
	"verifharness/keys"
	"verifharness/refpeer"
)

// C11: outgoing sequence numbers increase by one per chunk, even across renewals, and the chunks of one message are
// not interleaved with those of another. Observed at the decrypting independent peer, in arrival order.

type c11Case struct {
	Index    int64  `json:"index"`
	Side     string `json:"sender"` // "client-channel" or "server"
	Mode     int    `json:"mode"`
	Callers  int    `json:"concurrent_senders"`
	Renewals int    `json:"renewals"`
	StartSeq uint32 `json:"sequence_number_at_start"`
	Forced   bool   `json:"straggler_forced"`
	Hazards  bool   `json:"requests_that_fail_before_sending_and_a_failing_renewal,omitempty"`
	Seed     int64  `json:"seed"`
	Detail   string `json:"detail,omitempty"`
}

// c11Judge checks the arrival-order log of one connection.
func c11Judge(c *fw.Ctx, cs c11Case, log []refpeer.Obs) (chunks int, wraps int) {
	open := map[uint32]bool{} // request ids with an unfinished multi-chunk message
	other := map[uint32]int{} // unfinished message -> 1 + index of the first chunk of another message that followed it
	for i, o := range log {
		chunks++
		if i == 1 && cs.StartSeq != 0 && cs.Side == "client-channel" {
			continue // the harness moved the counter after the first OPN
		}
		if i > 0 {
			prev := log[i-1].Seq
			switch {
			case o.Seq == prev+1:
			case prev >= 0xffffffff-1024-1 && o.Seq < 1024:
				wraps++
			default:
				kind := "gap"
				if o.Seq == prev {
					kind = "repeated"
				} else if o.Seq < prev {
					kind = "went-backwards"
				}
				cs.Detail = fmt.Sprintf("chunk %d (%s%c request %d, token index %d) carries sequence number %d, the chunk before it (%s%c request %d, token index %d) carried %d",
					i, o.MsgType, o.ChunkType, o.ReqID, o.TokenIdx, o.Seq, log[i-1].MsgType, log[i-1].ChunkType, log[i-1].ReqID, log[i-1].TokenIdx, prev)
				c.Violation("c11:sequence-number-"+kind+":"+cs.Side, cs.Detail, cs)
				return
			}
		}
		if o.MsgType == "MSG" {
			// interleaving: chunks of a message, then a chunk of another message, then a chunk of the first again. (A
			// message its sender gave up half-way stays unfinished for good; what follows it is not "between" its chunks.)
			if other[o.ReqID] != 0 {
				cs.Detail = fmt.Sprintf("chunk %d of request %d arrived between the chunks of the unfinished message of request %d", other[o.ReqID]-1, log[other[o.ReqID]-1].ReqID, o.ReqID)
				c.Violation("c11:chunks-interleaved:"+cs.Side, cs.Detail, cs)
				return
			}
			for id := range open {
				if id != o.ReqID {
					other[id] = i + 1
					delete(open, id)
				}
			}
			switch o.ChunkType {
			case 'C':
				open[o.ReqID] = true
			default:
				delete(open, o.ReqID)
			}
		}
	}
	return
}

// tripCtx is a context whose owner cancels it at the moment of the trip-th call of Done.
type tripCtx struct {
	context.Context
	n, trip int32
	once    sync.Once
	ch      chan struct{}
}

func (t *tripCtx) Done() <-chan struct{} {
	if atomic.AddInt32(&t.n, 1) >= t.trip {
		t.once.Do(func() { close(t.ch) })
	}
	return t.ch
}

func (t *tripCtx) Err() error {
	select {
	case <-t.ch:
		return context.Canceled
	default:
		return nil
	}
}

type hookStats struct {
	mu   sync.Mutex
	hits map[string]int64
}

func (h *hookStats) flush(c *fw.Ctx) {
	h.mu.Lock()
	for p, n := range h.hits {
		c.Class("hook:"+p, n)
	}
	h.mu.Unlock()
}

// c11ClientSender: the real client-kind channel sends, the scripted server observes.
func c11ClientSender(c *fw.Ctx, cs c11Case) {
	r := rand.New(rand.NewSource(cs.Seed))
	sk, ck := keys.Get("b", 2048), keys.Get("a", 2048)
	so := refpeer.ServerOpts{Ack: refpeer.Ack{RecvBuf: 8192, SendBuf: 8192}}
	cfg := &uasc.Config{SecurityPolicyURI: ua.SecurityPolicyURINone, SecurityMode: ua.MessageSecurityModeNone, Lifetime: 3600000, RequestTimeout: 5 * time.Second}
	if cs.Mode != refpeer.ModeNone {
		so.Policy, so.Mode, so.Key, so.Cert = refpeer.PolicyByURI(refpeer.URIBasic256Sha256), cs.Mode, sk.Key, sk.Cert
		cfg.SecurityPolicyURI, cfg.SecurityMode = refpeer.URIBasic256Sha256, ua.MessageSecurityMode(cs.Mode)
		cfg.Certificate, cfg.LocalKey, cfg.RemoteCertificate, cfg.Thumbprint = ck.Cert, ck.Key, sk.Cert, uapolicy.Thumbprint(sk.Cert)
	}
	if cs.Hazards {
		// requests above the announced message size are refused before anything is written; one renewal gets no
		// answer and fails after the request timeout
		so.Ack.MaxMsg = 20000
		cfg.RequestTimeout = 400 * time.Millisecond
	}
	srv, err := refpeer.NewServer(so)
	if err != nil {
		c.Inconclusive("listen: " + err.Error())
		return
	}
	defer srv.Close()
	var renewSeen int32
	if cs.Hazards {
		srv.OnOpen = func(sc *refpeer.SrvConn, m *refpeer.Msg, renew bool) bool {
			return !(renew && atomic.AddInt32(&renewSeen, 1) == 2) // the second renewal stays unanswered
		}
	}
	srv.Handler = func(sc *refpeer.SrvConn, m *refpeer.Msg) {
		switch req := m.Service.(type) {
		case *ua.ReadRequest:
			sc.Reply(m, &ua.ReadResponse{ResponseHeader: refpeer.RespHeader(req, ua.StatusOK), Results: []*ua.DataValue{{EncodingMask: ua.DataValueValue, Value: ua.MustVariant(int32(1))}}})
		case *ua.WriteRequest:
			sc.Reply(m, &ua.WriteResponse{ResponseHeader: refpeer.RespHeader(req, ua.StatusOK), Results: []ua.StatusCode{ua.StatusOK}})
		}
	}
	ctx, cancel := context.WithTimeout(context.Background(), 60*time.Second)
	defer cancel()
	conn, err := uacp.Dial(ctx, srv.Endpoint())
	if err != nil {
		c.Inconclusive("dial: " + err.Error())
		return
	}
	defer conn.Close()
	sc, err := uasc.NewSecureChannel(srv.Endpoint(), conn, cfg, make(chan error, 64))
	if err == nil {
		err = sc.Open(ctx)
	}
	if err != nil {
		c.Inconclusive("open: " + classOf(err.Error()))
		return
	}
	defer sc.Close()
	if cs.StartSeq != 0 {
		sc.VerifSetSequenceNumber(cs.StartSeq)
	}
	// hook: random short delays at the hand-over points; in forced runs one caller is parked at sc.send.beforeAdd
	// (it has fetched the active instance) until a renewal has completed
	hs := &hookStats{hits: map[string]int64{}}
	hr := rand.New(rand.NewSource(r.Int63()))
	var parkOne int32
	if cs.Forced {
		parkOne = 1
	}
	renewed := make(chan struct{})
	var renewedOnce sync.Once
	uasc.VerifSetHook(func(point string) {
		hs.mu.Lock()
		hs.hits[point]++
		var d time.Duration
		switch point {
		case "sc.send.beforeAdd", "sc.send.afterInstance", "sc.send.betweenChunks", "sc.renew.afterWait":
			if hr.Intn(4) == 0 {
				d = time.Duration(hr.Intn(1500)) * time.Microsecond
			}
		}
		hs.mu.Unlock()
		if point == "sc.send.afterInstance" && atomic.CompareAndSwapInt32(&parkOne, 1, 2) {
			// this sender holds an instance; if it does not count as pending yet, a renewal completes meanwhile
			select {
			case <-renewed:
			case <-time.After(80 * time.Millisecond):
			}
			return
		}
		if d > 0 {
			time.Sleep(d)
		}
	})
	defer func() { uasc.VerifSetHook(nil); hs.flush(c) }()

	var wg sync.WaitGroup
	var failed int64
	big := make([]byte, 30000)
	perCaller := 12
	stopRenew := make(chan struct{})
	for g := 0; g < cs.Callers; g++ {
		g := g
		gr := rand.New(rand.NewSource(r.Int63()))
		wg.Add(1)
		go func() {
			defer wg.Done()
			for k := 0; k < perCaller; k++ {
				var req ua.Request
				if gr.Intn(3) == 0 { // several chunks with the 8192 byte buffers
					req = &ua.WriteRequest{NodesToWrite: []*ua.WriteValue{{NodeID: ua.NewNumericNodeID(1, uint32(g*1000+k)), AttributeID: ua.AttributeIDValue,
						Value: &ua.DataValue{EncodingMask: ua.DataValueValue, Value: ua.MustVariant(big[:5000+gr.Intn(25000)])}}}}
				} else {
					req = &ua.ReadRequest{NodesToRead: []*ua.ReadValueID{{NodeID: ua.NewNumericNodeID(1, uint32(g*1000+k)), AttributeID: ua.AttributeIDValue, DataEncoding: &ua.QualifiedName{}}}}
				}
				rctx := ctx
				if cs.Hazards && gr.Intn(5) == 0 {
					// the caller has given up before the request is sent
					x, xc := context.WithCancel(ctx)
					xc()
					rctx = x
				} else if cs.Hazards && gr.Intn(4) == 0 {
					// the caller gives up while the request is under way: at the n-th look at the context, which for
					// a request of four chunks is before, between or after its chunks
					req = &ua.WriteRequest{NodesToWrite: []*ua.WriteValue{{NodeID: ua.NewNumericNodeID(1, uint32(g*1000+k)), AttributeID: ua.AttributeIDValue,
						Value: &ua.DataValue{EncodingMask: ua.DataValueValue, Value: ua.MustVariant(big[:18000])}}}}
					rctx = &tripCtx{Context: ctx, trip: int32(1 + gr.Intn(7)), ch: make(chan struct{})}
				}
				if err := sc.SendRequest(rctx, req, nil, func(ua.Response) error { return nil }); err != nil {
					atomic.AddInt64(&failed, 1)
					if cs.Hazards {
						c.Class("hazard:"+classOf(err.Error()), 1)
					}
				}
			}
		}()
	}
	renewDone := make(chan struct{})
	go func() {
		defer close(renewDone)
		for k := 0; k < cs.Renewals; k++ {
			select {
			case <-stopRenew:
				return
			case <-time.After(time.Duration(1+r.Intn(8)) * time.Millisecond):
			}
			if err := sc.Renew(ctx); err == nil {
				c.Class("renewals-completed", 1)
				renewedOnce.Do(func() { close(renewed) })
			}
		}
		renewedOnce.Do(func() { close(renewed) })
	}()
	renew2Done := make(chan struct{})
	go func() {
		defer close(renew2Done)
		if !cs.Hazards {
			return
		}
		// a second caller renews on its own, at times together with the first
		r2 := rand.New(rand.NewSource(cs.Seed ^ 0x5bd1e995))
		for k := 0; k < cs.Renewals; k++ {
			select {
			case <-stopRenew:
				return
			case <-time.After(time.Duration(1+r2.Intn(8)) * time.Millisecond):
			}
			if err := sc.Renew(ctx); err == nil {
				c.Class("renewals-completed-by-second-caller", 1)
			}
		}
	}()
	// senders that do not come back are C16's and C19's matter; here the history just cannot be judged
	sendersDone := make(chan struct{})
	go func() { wg.Wait(); close(sendersDone) }()
	if !fw.WaitBeats(sendersDone, 60000) {
		close(stopRenew)
		c.Inconclusive("senders are still blocked 60000 heartbeats after they started")
		return
	}
	close(stopRenew)
	<-renewDone
	<-renew2Done
	time.Sleep(20 * time.Millisecond)
	srv.DropConns(false)
	c.Class("requests-failed", atomic.LoadInt64(&failed))
	total := 0
	for _, sconn := range srv.Conns {
		<-sconn.Done
		n, w := c11Judge(c, cs, sconn.Log)
		if cs.Hazards {
			fin := map[uint32]bool{}
			for _, o := range sconn.Log {
				if o.MsgType == "MSG" && o.ChunkType != 'C' {
					fin[o.ReqID] = true
				}
			}
			seenHalf := map[uint32]bool{}
			for _, o := range sconn.Log {
				if o.MsgType == "MSG" && o.ChunkType == 'C' && !fin[o.ReqID] && !seenHalf[o.ReqID] {
					seenHalf[o.ReqID] = true
					c.Class("hazard:message-given-up-between-chunks", 1)
				}
			}
		}
		total += n
		c.Class("wraps-observed", int64(w))
	}
	c.Eval(int64(total))
	c.AddExtra("sum_chunks_observed", int64(total))
	if atomic.LoadInt32(&parkOne) == 2 {
		c.Class("runs-with-a-sender-parked-across-a-renewal", 1)
	}
}

// c11ServerSender: the real server sends read responses and publish responses while the independent client renews.
func c11ServerSender(c *fw.Ctx, cs c11Case) {
	r := rand.New(rand.NewSource(cs.Seed))
	pol := "None"
	var p *refpeer.Policy
	if cs.Mode != refpeer.ModeNone {
		pol = "Basic256Sha256"
		p = refpeer.PolicyByURI(refpeer.URIBasic256Sha256)
	}
	rs, err := startRealServer(srvCfg{Sec: []secPair{{pol, cs.Mode}, {"None", 1}}, KeyBits: 2048, Vars: 3})
	if err != nil {
		c.Inconclusive("server start: " + err.Error())
		return
	}
	defer rs.Srv.Close()
	addr := strings.TrimPrefix(rs.Endpoint, "opc.tcp://")
	sk, ck := keys.Get("b", 2048), keys.Get("a", 2048)
	hs := &hookStats{hits: map[string]int64{}}
	hr := rand.New(rand.NewSource(r.Int63()))
	uasc.VerifSetHook(func(point string) {
		hs.mu.Lock()
		hs.hits[point]++
		var d time.Duration
		if (point == "sc.send.betweenChunks" || point == "sc.srvopn.algoSwapped") && hr.Intn(3) == 0 {
			d = time.Duration(hr.Intn(2000)) * time.Microsecond
		}
		hs.mu.Unlock()
		if d > 0 {
			time.Sleep(d)
		}
	})
	defer func() { uasc.VerifSetHook(nil); hs.flush(c) }()

	ch, tok, err := refpeer.OpenSecureSession(addr, rs.Endpoint, p, cs.Mode, ck.Key, ck.Cert, sk.Cert, refpeer.ClientOpts{Hello: refpeer.Hello{RecvBuf: 8192, SendBuf: 8192}})
	if err != nil {
		c.Inconclusive("session: " + classOf(err.Error()))
		return
	}
	defer ch.Close()
	if cs.StartSeq != 0 {
		for _, sc := range rs.Srv.VerifChannels() {
			sc.VerifSetSequenceNumber(cs.StartSeq)
		}
	}
	// a large value, so that read responses need several chunks
	big := make([]byte, 40000)
	r.Read(big)
	ch.Request(&ua.WriteRequest{NodesToWrite: []*ua.WriteValue{{NodeID: rs.Vars[1].ID(), AttributeID: ua.AttributeIDValue, Value: &ua.DataValue{EncodingMask: 1, Value: ua.MustVariant(big)}}}}, tok, 5*time.Second)
	// subscriptions publishing every few milliseconds
	var subs []uint32
	for k := 0; k < 1+r.Intn(3); k++ {
		v, _ := ch.Request(&ua.CreateSubscriptionRequest{RequestedPublishingInterval: float64(2 + r.Intn(8)), RequestedLifetimeCount: 1000, RequestedMaxKeepAliveCount: 1, PublishingEnabled: true}, tok, 5*time.Second)
		if cr, ok := v.(*ua.CreateSubscriptionResponse); ok {
			subs = append(subs, cr.SubscriptionID)
			ch.Request(&ua.CreateMonitoredItemsRequest{SubscriptionID: cr.SubscriptionID, ItemsToCreate: []*ua.MonitoredItemCreateRequest{{ItemToMonitor: &ua.ReadValueID{NodeID: rs.Vars[0].ID(), AttributeID: ua.AttributeIDValue, DataEncoding: &ua.QualifiedName{}},
				MonitoringMode: ua.MonitoringModeReporting, RequestedParameters: &ua.MonitoringParameters{ClientHandle: 1, SamplingInterval: 1, QueueSize: 1, Filter: ua.NewExtensionObject(nil)}}}}, tok, 5*time.Second)
		}
	}
	// an in-process writer changes the monitored value so that notifications flow
	stop := make(chan struct{})
	var wwg sync.WaitGroup
	wwg.Add(1)
	go func() {
		defer wwg.Done()
		n := int64(0)
		for {
			select {
			case <-stop:
				return
			case <-time.After(time.Millisecond):
			}
			n++
			rs.Vars[0].SetAttribute(ua.AttributeIDValue, &ua.DataValue{EncodingMask: ua.DataValueValue, Value: ua.MustVariant(n)})
			rs.Srv.ChangeNotification(rs.Vars[0].ID())
		}
	}()
	base := len(ch.Log)
	outstanding := 0
	for round := 0; round < 6+cs.Renewals; round++ {
		for k := 0; k < 4; k++ {
			ch.SendRequest(&ua.PublishRequest{SubscriptionAcknowledgements: []*ua.SubscriptionAcknowledgement{}}, tok, refpeer.SendOpts{})
			outstanding++
		}
		for k := 0; k < cs.Callers; k++ {
			node := rs.Vars[1+r.Intn(2)].ID()
			ch.SendRequest(&ua.ReadRequest{NodesToRead: []*ua.ReadValueID{{NodeID: node, AttributeID: ua.AttributeIDValue, DataEncoding: &ua.QualifiedName{}}}}, tok, refpeer.SendOpts{})
			outstanding++
		}
		if round < cs.Renewals {
			ch.Conn.SetReadDeadline(time.Now().Add(5 * time.Second))
			if _, err := ch.Open(true, 3600000); err == nil {
				c.Class("renewals-completed", 1)
			}
		}
		// drain some responses
		ch.Conn.SetReadDeadline(time.Now().Add(300 * time.Millisecond))
		for k := 0; k < outstanding; k++ {
			if _, err := ch.ReadMsg(); err != nil {
				break
			}
			outstanding--
		}
	}
	close(stop)
	wwg.Wait()
	ch.Conn.SetReadDeadline(time.Now().Add(200 * time.Millisecond))
	for {
		if _, err := ch.ReadMsg(); err != nil {
			break
		}
	}
	n, w := c11Judge(c, cs, ch.Log[base:])
	c.Eval(int64(n))
	c.AddExtra("sum_chunks_observed", int64(n))
	c.Class("wraps-observed", int64(w))
	_ = subs
}

func c11Run(c *fw.Ctx) error {
	n := int64(c.Pick(48, 3000))
	for i := int64(0); i < n; i++ {
		if int(i%int64(c.NBatch)) != c.Batch || i < c.Resume {
			continue
		}
		r := c.Rng("c11", i)
		cs := c11Case{Index: i, Side: []string{"client-channel", "server"}[(i/int64(c.NBatch))%2], Mode: 1 + r.Intn(3), Callers: []int{2, 4, 8, 16, 32}[r.Intn(5)], Renewals: 1 + r.Intn(5), Seed: r.Int63(), Forced: r.Intn(3) == 0}
		if cs.Side == "client-channel" && (i/int64(c.NBatch))%4 == 2 {
			cs.Hazards, cs.Renewals = true, 3+r.Intn(3)
		}
		if r.Intn(3) == 0 {
			cs.StartSeq = 0xffffffff - 1023 - uint32(5+r.Intn(60))
		}
		c.Journal(i, cs)
		if cs.Side == "server" {
			cs.Forced = false
			c11ServerSender(c, cs)
		} else {
			c11ClientSender(c, cs)
		}
		c.Nontrivial(fmt.Sprintf("%s/%d/%d/%d/%d/%v/%v/%d", cs.Side, cs.Mode, cs.Callers, cs.Renewals, cs.StartSeq, cs.Forced, cs.Hazards, cs.Seed))
		c.Class("sender:"+cs.Side, 1)
		c.Class("mode:"+modeName(cs.Mode), 1)
		if i%11 == 0 {
			c.Sample(cs)
		}
		c.Done(i)
	}
	return nil
}

func init() {
	fw.Register("C11", fw.Spec{
		Plan: func(tier string) fw.Plan {
			p := fw.Plan{Batches: 8, TimeoutS: 900, MinNontrivial: 30, Level: "exploration", Parallel: 4,
				Rule:        "(client-channel) 2-32 goroutines send single- and multi-chunk requests over one real client-kind channel (8192 byte buffers) to the scripted server while 1-5 explicit renewals run; hook points sc.send.beforeAdd / sc.send.afterInstance / sc.send.betweenChunks / sc.renew.afterWait delay a quarter of the passages by up to 1.5 ms and, in a third of the runs, park one sender that has fetched the active instance for up to 80 ms or until a renewal has completed; (server) the real server sends multi-chunk read responses and publish responses of 1-3 subscriptions (2-10 ms) to the independent client, which renews 1-5 times; sequence counters are set just below the wrap in a third of the runs; modes None, Sign, SignAndEncrypt; oracle on the decrypting peer's arrival-order log: every chunk carries the predecessor's number + 1 (or the wrap), no chunk of another request between the chunks of an unfinished message; evaluations = chunks observed",
				Assumptions: []string{"arrival order on one TCP connection is the order of the writes"}}
			if tier == "thorough" {
				p.Batches, p.TimeoutS, p.MinNontrivial, p.Parallel = 16, 3000, 1500, 8
			}
			return p
		},
		Run: c11Run,
		Replay: func(c *fw.Ctx, raw json.RawMessage) error {
			var cs c11Case
			if err := json.Unmarshal(raw, &cs); err != nil {
				return err
			}
			cs.Detail = ""
			if cs.Side == "server" {
				c11ServerSender(c, cs)
			} else {
				c11ClientSender(c, cs)
			}
			return nil
		},
	})
}
