module verifharness

go 1.23

require (
	github.com/anishathalye/porcupine v1.3.0
	github.com/gopcua/opcua v0.0.0
)

require github.com/google/uuid v1.6.0 // indirect

replace github.com/gopcua/opcua => /repo
