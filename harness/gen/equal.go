package gen

import (
	"fmt"
	"math"
	"reflect"
	"time"

	"github.com/gopcua/opcua/ua"
)

// Equal compares two protocol values structurally. Normalisations are exactly
// those the properties list: nil == empty for slices, strings and byte strings;
// times equal if they differ by less than 100ns; NaN == NaN. Types with
// unexported state (Variant, NodeID) are compared through their accessors.
// It returns "" if equal, else a path to the first difference.
func Equal(a, b interface{}) string {
	return eq(reflect.ValueOf(a), reflect.ValueOf(b), "")
}

func isNilish(v reflect.Value) bool {
	if !v.IsValid() {
		return true
	}
	switch v.Kind() {
	case reflect.Ptr, reflect.Interface, reflect.Slice, reflect.Map:
		return v.IsNil()
	}
	return false
}

func eq(a, b reflect.Value, path string) string {
	if !a.IsValid() || !b.IsValid() {
		if isNilish(a) && isNilish(b) {
			return ""
		}
		return fmt.Sprintf("%s: one side invalid/nil (%v vs %v)", path, a.IsValid(), b.IsValid())
	}
	if a.Kind() == reflect.Interface || b.Kind() == reflect.Interface {
		if a.Kind() == reflect.Interface {
			if a.IsNil() {
				if isNilish(b) || (b.Kind() == reflect.Interface && b.IsNil()) {
					return ""
				}
				return path + ": nil interface vs value"
			}
			a = a.Elem()
		}
		if b.Kind() == reflect.Interface {
			if b.IsNil() {
				if isNilish(a) {
					return ""
				}
				return path + ": value vs nil interface"
			}
			b = b.Elem()
		}
		return eq(a, b, path)
	}
	if a.Type() != b.Type() {
		return fmt.Sprintf("%s: type %v vs %v", path, a.Type(), b.Type())
	}
	t := a.Type()
	switch t {
	case tVariant:
		return eqVariant(a, b, path)
	case tNodeID:
		return eqNodeID(a, b, path)
	case tDataVal:
		return eqDataValue(a, b, path)
	case tTime:
		ta, tb := a.Interface().(time.Time), b.Interface().(time.Time)
		if ta.IsZero() != tb.IsZero() {
			return fmt.Sprintf("%s: time zero-ness %v vs %v", path, ta, tb)
		}
		d := ta.Sub(tb)
		if d < 0 {
			d = -d
		}
		if d >= 100*time.Nanosecond {
			return fmt.Sprintf("%s: time %v vs %v", path, ta.UTC(), tb.UTC())
		}
		return ""
	}
	switch t.Kind() {
	case reflect.Bool:
		if a.Bool() != b.Bool() {
			return fmt.Sprintf("%s: %v vs %v", path, a.Bool(), b.Bool())
		}
	case reflect.Int8, reflect.Int16, reflect.Int32, reflect.Int64, reflect.Int:
		if a.Int() != b.Int() {
			return fmt.Sprintf("%s: %d vs %d", path, a.Int(), b.Int())
		}
	case reflect.Uint8, reflect.Uint16, reflect.Uint32, reflect.Uint64, reflect.Uint:
		if a.Uint() != b.Uint() {
			return fmt.Sprintf("%s: %d vs %d", path, a.Uint(), b.Uint())
		}
	case reflect.Float32:
		fa, fb := float32(a.Float()), float32(b.Float())
		if fa != fa && fb != fb {
			return ""
		}
		if math.Float32bits(fa) != math.Float32bits(fb) {
			return fmt.Sprintf("%s: %v vs %v", path, fa, fb)
		}
	case reflect.Float64:
		fa, fb := a.Float(), b.Float()
		if fa != fa && fb != fb {
			return ""
		}
		if math.Float64bits(fa) != math.Float64bits(fb) {
			return fmt.Sprintf("%s: %v vs %v", path, fa, fb)
		}
	case reflect.String:
		if a.String() != b.String() {
			return fmt.Sprintf("%s: %q vs %q", path, trunc(a.String()), trunc(b.String()))
		}
	case reflect.Slice:
		if a.Len() != b.Len() { // nil == empty: both have Len 0
			return fmt.Sprintf("%s: len %d vs %d", path, a.Len(), b.Len())
		}
		for i := 0; i < a.Len(); i++ {
			if d := eq(a.Index(i), b.Index(i), fmt.Sprintf("%s[%d]", path, i)); d != "" {
				return d
			}
		}
	case reflect.Array:
		for i := 0; i < a.Len(); i++ {
			if d := eq(a.Index(i), b.Index(i), fmt.Sprintf("%s[%d]", path, i)); d != "" {
				return d
			}
		}
	case reflect.Ptr:
		if a.IsNil() || b.IsNil() {
			if a.IsNil() && b.IsNil() {
				return ""
			}
			// a nil *ExtensionObject encodes as the empty extension object
			if t == tExtObj {
				var x reflect.Value
				if a.IsNil() {
					x = b
				} else {
					x = a
				}
				eo := x.Interface().(*ua.ExtensionObject)
				if eo.EncodingMask == ua.ExtensionObjectEmpty && eo.Value == nil && eo.TypeID != nil &&
					eo.TypeID.NodeID != nil && eo.TypeID.NodeID.IntID() == 0 && eo.TypeID.NodeID.Namespace() == 0 && eo.TypeID.NodeID.StringID() == "" {
					return ""
				}
			}
			return fmt.Sprintf("%s: nil vs non-nil %v", path, t)
		}
		return eq(a.Elem(), b.Elem(), path)
	case reflect.Struct:
		for i := 0; i < t.NumField(); i++ {
			f := t.Field(i)
			if f.PkgPath != "" {
				return fmt.Sprintf("%s: unexported field %s in %v not handled", path, f.Name, t)
			}
			if d := eq(a.Field(i), b.Field(i), path+"."+f.Name); d != "" {
				return d
			}
		}
	default:
		return fmt.Sprintf("%s: unsupported kind %v", path, t.Kind())
	}
	return ""
}

func trunc(s string) string {
	if len(s) > 40 {
		return s[:40] + "..."
	}
	return s
}

func eqVariant(a, b reflect.Value, path string) string {
	if a.IsNil() || b.IsNil() {
		if a.IsNil() && b.IsNil() {
			return ""
		}
		return path + ": nil vs non-nil Variant"
	}
	va, vb := a.Interface().(*ua.Variant), b.Interface().(*ua.Variant)
	if va.EncodingMask() != vb.EncodingMask() {
		return fmt.Sprintf("%s: variant mask %#x vs %#x", path, va.EncodingMask(), vb.EncodingMask())
	}
	if va.Type() == ua.TypeIDNull {
		return ""
	}
	if va.Has(ua.VariantArrayValues) && va.ArrayLength() != vb.ArrayLength() {
		// a nil array (-1) and an empty array (0) are the same value under the nil==empty normalisation
		la, lb := va.ArrayLength(), vb.ArrayLength()
		if !((la == -1 || la == 0) && (lb == -1 || lb == 0)) {
			return fmt.Sprintf("%s: variant array length %d vs %d", path, la, lb)
		}
	}
	da, db := va.ArrayDimensions(), vb.ArrayDimensions()
	if len(da) != len(db) {
		return fmt.Sprintf("%s: variant dims %v vs %v", path, da, db)
	}
	for i := range da {
		if da[i] != db[i] {
			return fmt.Sprintf("%s: variant dims %v vs %v", path, da, db)
		}
	}
	return eq(reflect.ValueOf(va.Value()), reflect.ValueOf(vb.Value()), path+".value")
}

func eqNodeID(a, b reflect.Value, path string) string {
	if a.IsNil() || b.IsNil() {
		if a.IsNil() && b.IsNil() {
			return ""
		}
		return path + ": nil vs non-nil NodeID"
	}
	na, nb := a.Interface().(*ua.NodeID), b.Interface().(*ua.NodeID)
	if na.EncodingMask() != nb.EncodingMask() {
		return fmt.Sprintf("%s: nodeid mask %#x vs %#x", path, na.EncodingMask(), nb.EncodingMask())
	}
	if na.Namespace() != nb.Namespace() {
		return fmt.Sprintf("%s: nodeid ns %d vs %d", path, na.Namespace(), nb.Namespace())
	}
	if na.IntID() != nb.IntID() {
		return fmt.Sprintf("%s: nodeid int id %d vs %d", path, na.IntID(), nb.IntID())
	}
	if na.StringID() != nb.StringID() {
		return fmt.Sprintf("%s: nodeid id %q vs %q", path, trunc(na.StringID()), trunc(nb.StringID()))
	}
	return ""
}

// A DataValue's fields are part of the value iff their mask bit is set.
func eqDataValue(a, b reflect.Value, path string) string {
	if a.IsNil() || b.IsNil() {
		if a.IsNil() && b.IsNil() {
			return ""
		}
		return path + ": nil vs non-nil DataValue"
	}
	da, db := a.Interface().(*ua.DataValue), b.Interface().(*ua.DataValue)
	if da.EncodingMask != db.EncodingMask {
		return fmt.Sprintf("%s: datavalue mask %#x vs %#x", path, da.EncodingMask, db.EncodingMask)
	}
	if da.Has(ua.DataValueValue) {
		if d := eq(reflect.ValueOf(da.Value), reflect.ValueOf(db.Value), path+".Value"); d != "" {
			return d
		}
	}
	if da.Has(ua.DataValueStatusCode) && da.Status != db.Status {
		return fmt.Sprintf("%s.Status: %v vs %v", path, uint32(da.Status), uint32(db.Status))
	}
	if da.Has(ua.DataValueSourceTimestamp) {
		if d := eq(reflect.ValueOf(da.SourceTimestamp), reflect.ValueOf(db.SourceTimestamp), path+".SourceTimestamp"); d != "" {
			return d
		}
	}
	if da.Has(ua.DataValueSourcePicoseconds) && da.SourcePicoseconds != db.SourcePicoseconds {
		return path + ".SourcePicoseconds"
	}
	if da.Has(ua.DataValueServerTimestamp) {
		if d := eq(reflect.ValueOf(da.ServerTimestamp), reflect.ValueOf(db.ServerTimestamp), path+".ServerTimestamp"); d != "" {
			return d
		}
	}
	if da.Has(ua.DataValueServerPicoseconds) && da.ServerPicoseconds != db.ServerPicoseconds {
		return path + ".ServerPicoseconds"
	}
	return ""
}
