// Package gen generates typed protocol values by walking reflect.Type, for
// every type registered in the tree under test, and compares values with the
// normalisations the properties allow.
package gen

import (
	"fmt"
	"math"
	"math/rand"
	"reflect"
	"sort"
	"time"

	"github.com/gopcua/opcua/ua"
)

var (
	tVariant  = reflect.TypeOf((*ua.Variant)(nil))
	tNodeID   = reflect.TypeOf((*ua.NodeID)(nil))
	tExpNode  = reflect.TypeOf((*ua.ExpandedNodeID)(nil))
	tExtObj   = reflect.TypeOf((*ua.ExtensionObject)(nil))
	tDataVal  = reflect.TypeOf((*ua.DataValue)(nil))
	tDiag     = reflect.TypeOf((*ua.DiagnosticInfo)(nil))
	tLocText  = reflect.TypeOf((*ua.LocalizedText)(nil))
	tGUID     = reflect.TypeOf((*ua.GUID)(nil))
	tTime     = reflect.TypeOf(time.Time{})
	tByteArr  = reflect.TypeOf(ua.ByteArray{})
	tXMLElem  = reflect.TypeOf(ua.XMLElement(""))
	tStatus   = reflect.TypeOf(ua.StatusCode(0))
	tQualName = reflect.TypeOf((*ua.QualifiedName)(nil))
)

// Registry is the set of types the run quantifies over.
type Registry struct {
	Services []NamedType // id string -> pointer type
	ExtObjs  []NamedType
}

type NamedType struct {
	ID   string
	Type reflect.Type // pointer to struct
}

func sorted(m map[string]reflect.Type) []NamedType {
	var out []NamedType
	for k, v := range m {
		out = append(out, NamedType{k, v})
	}
	sort.Slice(out, func(i, j int) bool { return out[i].ID < out[j].ID })
	return out
}

func LoadRegistry() *Registry {
	return &Registry{
		Services: sorted(ua.VerifRegisteredServices()),
		ExtObjs:  sorted(ua.VerifRegisteredExtObjs()),
	}
}

// G is a generator with a size budget.
type G struct {
	R     *rand.Rand
	Reg   *Registry
	depth int
	// MaxDepth bounds nesting of Variant / ExtensionObject / DiagnosticInfo / DataValue.
	MaxDepth int
	// Big makes the heavy tail of sizes heavier (strings / arrays up to a few thousand).
	Big bool
}

func New(r *rand.Rand, reg *Registry) *G {
	return &G{R: r, Reg: reg, MaxDepth: 3}
}

func (g *G) size() int {
	x := g.R.Intn(100)
	switch {
	case x < 30:
		return 0
	case x < 60:
		return 1
	case x < 80:
		return 2
	case x < 93:
		return 3
	case x < 99:
		return 4 + g.R.Intn(12)
	default:
		if g.Big {
			return 100 + g.R.Intn(3000)
		}
		return 16 + g.R.Intn(60)
	}
}

var interestingStrings = []string{
	"", "a", "\x00", "a\x00b", "\xff\xfe", "héllo wörld", "日本語", "ns=1;s=x", "i=1", ";", "=", " ",
	"http://opcfoundation.org/UA/", "\xf0\x9f\x98\x80", "\xc3\x28", "\t\n\r",
}

func (g *G) String() string {
	x := g.R.Intn(100)
	switch {
	case x < 12:
		return ""
	case x < 40:
		return interestingStrings[g.R.Intn(len(interestingStrings))]
	default:
		n := g.size() + 1
		if g.R.Intn(50) == 0 {
			n = 200 + g.R.Intn(2000)
		}
		b := make([]byte, n)
		if g.R.Intn(4) == 0 {
			g.R.Read(b) // arbitrary bytes, often invalid UTF-8
		} else {
			for i := range b {
				b[i] = byte(32 + g.R.Intn(95))
			}
		}
		return string(b)
	}
}

func (g *G) Bytes() []byte {
	x := g.R.Intn(100)
	switch {
	case x < 12:
		return nil
	case x < 22:
		return []byte{}
	default:
		n := g.size() + 1
		if g.R.Intn(50) == 0 {
			n = 200 + g.R.Intn(4000)
		}
		b := make([]byte, n)
		g.R.Read(b)
		return b
	}
}

var (
	minTime = time.Date(1678, 1, 1, 0, 0, 0, 0, time.UTC)
	maxTime = time.Date(2262, 1, 1, 0, 0, 0, 0, time.UTC)
)

// Time returns zero or a time in the int64-nanosecond range (the property's domain).
func (g *G) Time() time.Time {
	x := g.R.Intn(100)
	switch {
	case x < 15:
		return time.Time{}
	case x < 25:
		return time.Unix(0, 0).UTC()
	case x < 30:
		return minTime
	case x < 35:
		return maxTime
	case x < 45:
		// 100ns aligned
		return time.Unix(g.R.Int63n(4e9), int64(g.R.Intn(1e7))*100).UTC()
	default:
		span := maxTime.UnixNano() - minTime.UnixNano()
		_ = span
		// UnixNano range is about +-292 years around 1970
		ns := g.R.Int63() // [0, 2^63)
		if g.R.Intn(2) == 0 {
			ns = -ns
		}
		t := time.Unix(0, ns).UTC()
		if t.Before(minTime) || t.After(maxTime) {
			return time.Unix(g.R.Int63n(4e9), int64(g.R.Intn(1e9))).UTC()
		}
		return t
	}
}

func (g *G) Float64() float64 {
	switch g.R.Intn(12) {
	case 0:
		return 0
	case 1:
		return math.Copysign(0, -1)
	case 2:
		return math.Inf(1)
	case 3:
		return math.Inf(-1)
	case 4:
		return math.NaN()
	case 5:
		return math.Float64frombits(0x7ff8000000000001 | uint64(g.R.Int63())&0x0007ffffffffffff) // NaN with payload
	case 6:
		return math.SmallestNonzeroFloat64
	case 7:
		return math.MaxFloat64
	default:
		return math.Float64frombits(g.R.Uint64())
	}
}

func (g *G) Float32() float32 {
	switch g.R.Intn(10) {
	case 0:
		return 0
	case 1:
		return float32(math.Copysign(0, -1))
	case 2:
		return float32(math.Inf(1))
	case 3:
		return float32(math.NaN())
	case 4:
		return math.Float32frombits(0x7fc00001 | g.R.Uint32()&0x003fffff)
	default:
		return math.Float32frombits(g.R.Uint32())
	}
}

func (g *G) intBoundary(bits int, signed bool) uint64 {
	max := uint64(1)<<uint(bits) - 1
	switch g.R.Intn(8) {
	case 0:
		return 0
	case 1:
		return 1
	case 2:
		return max
	case 3:
		return max >> 1 // max signed
	case 4:
		return (max >> 1) + 1 // min signed
	default:
		return g.R.Uint64() & max
	}
}

func (g *G) GUID() *ua.GUID {
	d4 := make([]byte, 8)
	g.R.Read(d4)
	return &ua.GUID{Data1: g.R.Uint32(), Data2: uint16(g.R.Uint32()), Data3: uint16(g.R.Uint32()), Data4: d4}
}

func (g *G) guidString() string {
	x := g.GUID()
	return x.String()
}

// NodeID via the six public constructors with range-respecting ids.
func (g *G) NodeID() *ua.NodeID {
	switch g.R.Intn(6) {
	case 0:
		return ua.NewTwoByteNodeID(uint8(g.intBoundary(8, false)))
	case 1:
		return ua.NewFourByteNodeID(uint8(g.intBoundary(8, false)), uint16(g.intBoundary(16, false)))
	case 2:
		return ua.NewNumericNodeID(uint16(g.intBoundary(16, false)), uint32(g.intBoundary(32, false)))
	case 3:
		return ua.NewStringNodeID(uint16(g.intBoundary(16, false)), g.String())
	case 4:
		return ua.NewGUIDNodeID(uint16(g.intBoundary(16, false)), g.guidString())
	default:
		return ua.NewByteStringNodeID(uint16(g.intBoundary(16, false)), g.Bytes())
	}
}

func (g *G) ExpandedNodeID() *ua.ExpandedNodeID {
	uri := ""
	if g.R.Intn(3) == 0 {
		uri = g.String()
	}
	idx := uint32(0)
	if g.R.Intn(3) == 0 {
		idx = uint32(g.intBoundary(32, false))
	}
	return ua.NewExpandedNodeID(g.NodeID(), uri, idx)
}

func (g *G) LocalizedText() *ua.LocalizedText {
	switch g.R.Intn(6) {
	case 0: // bit set, empty string
		return &ua.LocalizedText{EncodingMask: ua.LocalizedTextLocale | ua.LocalizedTextText}
	case 1:
		return &ua.LocalizedText{EncodingMask: ua.LocalizedTextText, Text: g.String()}
	default:
		text, locale := "", ""
		if g.R.Intn(4) > 0 {
			text = g.String()
		}
		if g.R.Intn(2) > 0 {
			locale = g.String()
		}
		return ua.NewLocalizedTextWithLocale(text, locale)
	}
}

func (g *G) QualifiedName() *ua.QualifiedName {
	return &ua.QualifiedName{NamespaceIndex: uint16(g.intBoundary(16, false)), Name: g.String()}
}

// DataValueMask builds a DataValue for an explicit mask: fields present iff bit set.
func (g *G) DataValueMask(mask byte) *ua.DataValue {
	d := &ua.DataValue{EncodingMask: mask}
	if mask&ua.DataValueValue != 0 {
		d.Value = g.Variant()
	}
	if mask&ua.DataValueStatusCode != 0 {
		d.Status = ua.StatusCode(g.intBoundary(32, false))
	}
	if mask&ua.DataValueSourceTimestamp != 0 {
		d.SourceTimestamp = g.Time()
	}
	if mask&ua.DataValueSourcePicoseconds != 0 {
		d.SourcePicoseconds = uint16(g.intBoundary(16, false))
	}
	if mask&ua.DataValueServerTimestamp != 0 {
		d.ServerTimestamp = g.Time()
	}
	if mask&ua.DataValueServerPicoseconds != 0 {
		d.ServerPicoseconds = uint16(g.intBoundary(16, false))
	}
	return d
}

func (g *G) DataValue() *ua.DataValue {
	g.depth++
	defer func() { g.depth-- }()
	mask := byte(g.R.Intn(64))
	if g.depth > g.MaxDepth {
		mask &^= ua.DataValueValue
	}
	return g.DataValueMask(mask)
}

func (g *G) DiagnosticInfoMask(mask byte) *ua.DiagnosticInfo {
	g.depth++
	defer func() { g.depth-- }()
	d := &ua.DiagnosticInfo{EncodingMask: mask}
	if mask&ua.DiagnosticInfoSymbolicID != 0 {
		d.SymbolicID = int32(g.intBoundary(32, true))
	}
	if mask&ua.DiagnosticInfoNamespaceURI != 0 {
		d.NamespaceURI = int32(g.intBoundary(32, true))
	}
	if mask&ua.DiagnosticInfoLocale != 0 {
		d.Locale = int32(g.intBoundary(32, true))
	}
	if mask&ua.DiagnosticInfoLocalizedText != 0 {
		d.LocalizedText = int32(g.intBoundary(32, true))
	}
	if mask&ua.DiagnosticInfoAdditionalInfo != 0 {
		d.AdditionalInfo = g.String()
	}
	if mask&ua.DiagnosticInfoInnerStatusCode != 0 {
		d.InnerStatusCode = ua.StatusCode(g.intBoundary(32, false))
	}
	if mask&ua.DiagnosticInfoInnerDiagnosticInfo != 0 {
		im := byte(g.R.Intn(128))
		if g.depth > g.MaxDepth {
			im &^= ua.DiagnosticInfoInnerDiagnosticInfo
		}
		d.InnerDiagnosticInfo = g.DiagnosticInfoMask(im)
	}
	return d
}

func (g *G) DiagnosticInfo() *ua.DiagnosticInfo {
	mask := byte(g.R.Intn(128))
	if g.depth >= g.MaxDepth {
		mask &^= ua.DiagnosticInfoInnerDiagnosticInfo
	}
	return g.DiagnosticInfoMask(mask)
}

// ExtensionObject: nil, empty, XML, or binary body of a registered type.
func (g *G) ExtensionObject(allowNil bool) *ua.ExtensionObject {
	g.depth++
	defer func() { g.depth-- }()
	x := g.R.Intn(10)
	switch {
	case x == 0 && allowNil:
		return nil
	case x <= 2 || g.depth > g.MaxDepth || g.Reg == nil || len(g.Reg.ExtObjs) == 0:
		return ua.NewExtensionObject(nil)
	case x == 3:
		xe := ua.XMLElement(g.String())
		return ua.NewExtensionObject(&xe)
	default:
		nt := g.Reg.ExtObjs[g.R.Intn(len(g.Reg.ExtObjs))]
		v := g.Value(nt.Type)
		return ua.NewExtensionObject(v.Interface())
	}
}

// builtinKinds lists the scalar builtin Go types a Variant may hold, by TypeID order.
var variantScalarGens []func(g *G) interface{}

func init() {
	variantScalarGens = []func(g *G) interface{}{
		func(g *G) interface{} { return g.R.Intn(2) == 0 },
		func(g *G) interface{} { return int8(g.intBoundary(8, true)) },
		func(g *G) interface{} { return uint8(g.intBoundary(8, false)) },
		func(g *G) interface{} { return int16(g.intBoundary(16, true)) },
		func(g *G) interface{} { return uint16(g.intBoundary(16, false)) },
		func(g *G) interface{} { return int32(g.intBoundary(32, true)) },
		func(g *G) interface{} { return uint32(g.intBoundary(32, false)) },
		func(g *G) interface{} { return int64(g.intBoundary(64, true)) },
		func(g *G) interface{} { return g.intBoundary(64, false) },
		func(g *G) interface{} { return g.Float32() },
		func(g *G) interface{} { return g.Float64() },
		func(g *G) interface{} { return g.String() },
		func(g *G) interface{} { return g.Time() },
		func(g *G) interface{} { return g.GUID() },
		func(g *G) interface{} { return g.Bytes() },
		func(g *G) interface{} { return ua.XMLElement(g.String()) },
		func(g *G) interface{} { return g.NodeID() },
		func(g *G) interface{} { return g.ExpandedNodeID() },
		func(g *G) interface{} { return ua.StatusCode(g.intBoundary(32, false)) },
		func(g *G) interface{} { return g.QualifiedName() },
		func(g *G) interface{} { return g.LocalizedText() },
		func(g *G) interface{} { return g.ExtensionObject(false) },
		func(g *G) interface{} { return g.DataValue() },
		func(g *G) interface{} { return g.Variant() },
		func(g *G) interface{} { return g.DiagnosticInfo() },
	}
}

// NumVariantTypes is the number of non-null builtin types.
const NumVariantTypes = 25

// Shapes a Variant may take.
const (
	ShapeScalar = iota
	ShapeNilArray
	ShapeEmptyArray
	Shape1D
	Shape2D
	Shape3D
	NumShapes
)

// VariantOf builds a Variant of builtin type index ti (0..24) and shape.
func (g *G) VariantOf(ti, shape int) *ua.Variant {
	g.depth++
	defer func() { g.depth-- }()
	if g.depth > g.MaxDepth && ti >= 21 { // ExtensionObject, DataValue, Variant, DiagnosticInfo
		ti = g.R.Intn(12)
	}
	gen := variantScalarGens[ti]
	scalar := gen(g)
	et := reflect.TypeOf(scalar)
	if ti == 2 && shape != ShapeScalar { // Byte arrays use ByteArray / []ByteArray
		return g.byteArrayVariant(shape)
	}
	var v interface{}
	switch shape {
	case ShapeScalar:
		v = scalar
	case ShapeNilArray:
		v = reflect.Zero(reflect.SliceOf(et)).Interface()
	case ShapeEmptyArray:
		v = reflect.MakeSlice(reflect.SliceOf(et), 0, 0).Interface()
	case Shape1D:
		n := g.size() + 1
		s := reflect.MakeSlice(reflect.SliceOf(et), n, n)
		for i := 0; i < n; i++ {
			s.Index(i).Set(reflect.ValueOf(gen(g)))
		}
		v = s.Interface()
	case Shape2D:
		a, b := 1+g.R.Intn(3), 1+g.R.Intn(3)
		t1 := reflect.SliceOf(et)
		s := reflect.MakeSlice(reflect.SliceOf(t1), a, a)
		for i := 0; i < a; i++ {
			row := reflect.MakeSlice(t1, b, b)
			for j := 0; j < b; j++ {
				row.Index(j).Set(reflect.ValueOf(gen(g)))
			}
			s.Index(i).Set(row)
		}
		v = s.Interface()
	case Shape3D:
		a, b, c := 1+g.R.Intn(3), 1+g.R.Intn(3), 1+g.R.Intn(2)
		t1 := reflect.SliceOf(et)
		t2 := reflect.SliceOf(t1)
		s := reflect.MakeSlice(reflect.SliceOf(t2), a, a)
		for i := 0; i < a; i++ {
			pl := reflect.MakeSlice(t2, b, b)
			for j := 0; j < b; j++ {
				row := reflect.MakeSlice(t1, c, c)
				for k := 0; k < c; k++ {
					row.Index(k).Set(reflect.ValueOf(gen(g)))
				}
				pl.Index(j).Set(row)
			}
			s.Index(i).Set(pl)
		}
		v = s.Interface()
	}
	va, err := ua.NewVariant(v)
	if err != nil {
		panic(fmt.Sprintf("gen: NewVariant(%T): %v", v, err))
	}
	return va
}

func (g *G) byteArrayVariant(shape int) *ua.Variant {
	var v interface{}
	switch shape {
	case ShapeNilArray:
		v = ua.ByteArray(nil)
	case ShapeEmptyArray:
		v = ua.ByteArray{}
	case Shape1D:
		b := make([]byte, g.size()+1)
		g.R.Read(b)
		v = ua.ByteArray(b)
	default: // 2-D (3-D of Byte is not constructible apart from nesting ByteArray deeper)
		a, n := 1+g.R.Intn(3), 1+g.R.Intn(3)
		rows := make([]ua.ByteArray, a)
		for i := range rows {
			rows[i] = make(ua.ByteArray, n)
			g.R.Read(rows[i])
		}
		v = rows
	}
	va, err := ua.NewVariant(v)
	if err != nil {
		panic(fmt.Sprintf("gen: NewVariant(%T): %v", v, err))
	}
	return va
}

// Variant: null, or any builtin type x shape.
func (g *G) Variant() *ua.Variant {
	if g.R.Intn(12) == 0 {
		return ua.MustVariant(nil)
	}
	ti := g.R.Intn(NumVariantTypes)
	shape := ShapeScalar
	if g.R.Intn(3) == 0 {
		shape = g.R.Intn(NumShapes)
	}
	return g.VariantOf(ti, shape)
}

// Value generates a value of type t (for pointer types: a non-nil pointer,
// except *ExtensionObject which may be nil because its encoder handles that).
func (g *G) Value(t reflect.Type) reflect.Value {
	switch t {
	case tVariant:
		return reflect.ValueOf(g.Variant())
	case tNodeID:
		return reflect.ValueOf(g.NodeID())
	case tExpNode:
		return reflect.ValueOf(g.ExpandedNodeID())
	case tExtObj:
		return reflect.ValueOf(g.ExtensionObject(true))
	case tDataVal:
		return reflect.ValueOf(g.DataValue())
	case tDiag:
		return reflect.ValueOf(g.DiagnosticInfo())
	case tLocText:
		return reflect.ValueOf(g.LocalizedText())
	case tGUID:
		return reflect.ValueOf(g.GUID())
	case tQualName:
		return reflect.ValueOf(g.QualifiedName())
	case tTime:
		return reflect.ValueOf(g.Time())
	}
	switch t.Kind() {
	case reflect.Bool:
		return reflect.ValueOf(g.R.Intn(2) == 0).Convert(t)
	case reflect.Int8:
		return reflect.ValueOf(int8(g.intBoundary(8, true))).Convert(t)
	case reflect.Int16:
		return reflect.ValueOf(int16(g.intBoundary(16, true))).Convert(t)
	case reflect.Int32:
		return reflect.ValueOf(int32(g.intBoundary(32, true))).Convert(t)
	case reflect.Int64:
		return reflect.ValueOf(int64(g.intBoundary(64, true))).Convert(t)
	case reflect.Uint8:
		return reflect.ValueOf(uint8(g.intBoundary(8, false))).Convert(t)
	case reflect.Uint16:
		return reflect.ValueOf(uint16(g.intBoundary(16, false))).Convert(t)
	case reflect.Uint32:
		return reflect.ValueOf(uint32(g.intBoundary(32, false))).Convert(t)
	case reflect.Uint64:
		return reflect.ValueOf(g.intBoundary(64, false)).Convert(t)
	case reflect.Float32:
		return reflect.ValueOf(g.Float32()).Convert(t)
	case reflect.Float64:
		return reflect.ValueOf(g.Float64()).Convert(t)
	case reflect.String:
		return reflect.ValueOf(g.String()).Convert(t)
	case reflect.Slice:
		if t.Elem().Kind() == reflect.Uint8 {
			return reflect.ValueOf(g.Bytes()).Convert(t)
		}
		x := g.R.Intn(10)
		if x == 0 {
			return reflect.Zero(t)
		}
		n := g.size()
		if g.depth > 1 && n > 3 {
			n = 3
		}
		s := reflect.MakeSlice(t, n, n)
		g.depth++
		for i := 0; i < n; i++ {
			s.Index(i).Set(g.elem(t.Elem()))
		}
		g.depth--
		return s
	case reflect.Array:
		a := reflect.New(t).Elem()
		for i := 0; i < t.Len(); i++ {
			a.Index(i).Set(g.elem(t.Elem()))
		}
		return a
	case reflect.Ptr:
		p := reflect.New(t.Elem())
		p.Elem().Set(g.Value(t.Elem()))
		return p
	case reflect.Struct:
		s := reflect.New(t).Elem()
		for i := 0; i < t.NumField(); i++ {
			if !s.Field(i).CanSet() {
				continue
			}
			s.Field(i).Set(g.Value(t.Field(i).Type))
		}
		return s
	case reflect.Interface:
		return reflect.Zero(t)
	}
	panic(fmt.Sprintf("gen: unsupported type %v", t))
}

// elem generates a slice element; nil *ExtensionObject elements are allowed like fields.
func (g *G) elem(t reflect.Type) reflect.Value { return g.Value(t) }
