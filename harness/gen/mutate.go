package gen

import (
	"encoding/binary"
	"math/rand"
	"reflect"

	"github.com/gopcua/opcua/ua"
)

// Minimal builds the smallest value of type t: pointers to structs non-nil,
// everything else zero/nil. Used as the base of type-directed length bombs.
func Minimal(t reflect.Type) reflect.Value {
	switch t {
	case tVariant:
		return reflect.ValueOf(ua.MustVariant(nil))
	case tNodeID:
		return reflect.ValueOf(ua.NewTwoByteNodeID(0))
	case tExpNode:
		return reflect.ValueOf(ua.NewTwoByteExpandedNodeID(0))
	case tExtObj:
		return reflect.ValueOf(ua.NewExtensionObject(nil))
	case tDataVal:
		return reflect.ValueOf(&ua.DataValue{})
	case tDiag:
		return reflect.ValueOf(&ua.DiagnosticInfo{})
	case tLocText:
		return reflect.ValueOf(&ua.LocalizedText{})
	case tGUID:
		return reflect.ValueOf(&ua.GUID{Data4: make([]byte, 8)})
	case tQualName:
		return reflect.ValueOf(&ua.QualifiedName{})
	}
	switch t.Kind() {
	case reflect.Ptr:
		p := reflect.New(t.Elem())
		p.Elem().Set(Minimal(t.Elem()))
		return p
	case reflect.Struct:
		s := reflect.New(t).Elem()
		if t == tTime {
			return s
		}
		for i := 0; i < t.NumField(); i++ {
			if s.Field(i).CanSet() {
				s.Field(i).Set(Minimal(t.Field(i).Type))
			}
		}
		return s
	}
	return reflect.Zero(t)
}

// SlicePath addresses a slice field inside a type: field indexes from the root struct.
type SlicePath struct {
	Path []int
	Name string
	Elem reflect.Type
}

// SlicePaths lists the slice-typed fields reachable through struct/pointer fields of t
// (not through slices, Variants or ExtensionObjects), excluding []byte.
func SlicePaths(t reflect.Type) []SlicePath {
	var out []SlicePath
	var walk func(t reflect.Type, path []int, name string, depth int)
	walk = func(t reflect.Type, path []int, name string, depth int) {
		switch t {
		case tVariant, tNodeID, tExpNode, tExtObj, tDataVal, tDiag, tLocText, tGUID, tQualName, tTime:
			return
		}
		if depth > 6 {
			return
		}
		switch t.Kind() {
		case reflect.Ptr:
			walk(t.Elem(), path, name, depth+1)
		case reflect.Struct:
			for i := 0; i < t.NumField(); i++ {
				f := t.Field(i)
				if f.PkgPath != "" {
					continue
				}
				p := append(append([]int{}, path...), i)
				if f.Type.Kind() == reflect.Slice && f.Type.Elem().Kind() != reflect.Uint8 {
					out = append(out, SlicePath{Path: p, Name: name + "." + f.Name, Elem: f.Type.Elem()})
					continue
				}
				walk(f.Type, p, name+"."+f.Name, depth+1)
			}
		}
	}
	walk(t, nil, t.String(), 0)
	return out
}

func fieldAt(v reflect.Value, path []int) reflect.Value {
	for _, i := range path {
		for v.Kind() == reflect.Ptr {
			v = v.Elem()
		}
		v = v.Field(i)
	}
	return v
}

// CountOffset returns an encoding of a minimal value of pointer type t whose slice at
// sp holds one minimal element, and the byte offset of that slice's count prefix.
func CountOffset(t reflect.Type, sp SlicePath) (enc []byte, off int, ok bool) {
	v1 := Minimal(t)
	f := fieldAt(v1, sp.Path)
	one := reflect.MakeSlice(f.Type(), 1, 1)
	one.Index(0).Set(Minimal(sp.Elem))
	f.Set(one)
	b1, err := ua.Encode(v1.Interface())
	if err != nil {
		return nil, 0, false
	}
	v0 := Minimal(t)
	b0, err := ua.Encode(v0.Interface())
	if err != nil {
		return nil, 0, false
	}
	for i := 0; i+4 <= len(b1) && i+4 <= len(b0); i++ {
		if b1[i] != b0[i] {
			if binary.LittleEndian.Uint32(b1[i:]) == 1 && binary.LittleEndian.Uint32(b0[i:]) == 0xffffffff {
				return b1, i, true
			}
			return nil, 0, false
		}
	}
	return nil, 0, false
}

var lengthBoundaries = []uint32{0x80000000, 0xfffffffe, 0xffffffff, 0, 1, 2, 0xffff, 0x10000, 0x10001, 0xffffff, 0x1000000, 0x0fffffff, 0x7fffffff, 0x7ffffffe, 0x40000000}

// Mutate applies one structure-aware mutation to a copy of b.
func Mutate(r *rand.Rand, b []byte, other []byte) ([]byte, string) {
	out := append([]byte{}, b...)
	if len(out) == 0 {
		return []byte{byte(r.Intn(256))}, "byte-from-empty"
	}
	switch r.Intn(10) {
	case 0: // bit flip
		i := r.Intn(len(out))
		out[i] ^= 1 << uint(r.Intn(8))
		return out, "bitflip"
	case 1: // byte to boundary
		i := r.Intn(len(out))
		out[i] = []byte{0, 1, 0x7f, 0x80, 0xff, 0x40, 0xc0, 0x3f}[r.Intn(8)]
		return out, "byte-boundary"
	case 2, 3, 4: // 4-byte window to a length boundary (hits count/length prefixes)
		if len(out) >= 4 {
			i := r.Intn(len(out) - 3)
			v := lengthBoundaries[r.Intn(len(lengthBoundaries))]
			if r.Intn(4) == 0 {
				cur := binary.LittleEndian.Uint32(out[i:])
				v = cur + uint32(r.Intn(3)) - 1
			}
			binary.LittleEndian.PutUint32(out[i:], v)
			return out, "len-window"
		}
		out[0] = 0xff
		return out, "byte-boundary"
	case 5: // truncation
		return out[:r.Intn(len(out))], "truncate"
	case 6: // splice with another encoding
		if len(other) > 0 {
			i := r.Intn(len(out))
			j := r.Intn(len(other))
			return append(out[:i], other[j:]...), "splice"
		}
		return out[:len(out)/2], "truncate"
	case 7: // mask byte sweep: set some byte to any of 256 values
		i := r.Intn(len(out))
		out[i] = byte(r.Intn(256))
		return out, "byte-any"
	case 8: // append garbage
		n := 1 + r.Intn(16)
		g := make([]byte, n)
		r.Read(g)
		return append(out, g...), "extend"
	default: // duplicate a chunk
		i := r.Intn(len(out))
		j := i + r.Intn(len(out)-i)
		return append(out[:j], out[i:]...), "dup-chunk"
	}
}
