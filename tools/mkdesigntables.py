#!/usr/bin/env python3
"""Regenerates the generated tables of DESIGN.md (between the GENERATED markers) from
known_findings.jsonl, seeded/*/meta.json and the git log of /repo."""
import json, os, re, subprocess
V = os.path.dirname(os.path.dirname(os.path.abspath(__file__)))
out = []
log = subprocess.run(["git", "-C", "/repo", "log", "--format=%h %s"], stdout=subprocess.PIPE, text=True).stdout.splitlines()
out.append("### 9.3 Hook commits in /repo (build tag `verif`, add-only)\n")
for l in log:
    if " verif hook" in l:
        out.append("* `%s` %s" % tuple(l.split(" ", 1)))
out.append("\n### 9.4 Defects repaired in /repo (`fix:` commits, one per line of known_findings.jsonl)\n")
out.append("| property | commit | what failed (witness) |\n|---|---|---|")
opens = []
for l in open(os.path.join(V, "known_findings.jsonl")):
    l = l.strip()
    m = re.match(r"fixed: property=(C\d+) (\S+) (.*)", l)
    if m:
        out.append("| %s | `%s` | %s |" % (m.group(1), m.group(2), m.group(3).replace("|", "\\|")))
    elif l.startswith("{"):
        opens.append(json.loads(l))
out.append("\n### 9.5 Open findings (reported as KNOWN-FINDING, exit 0)\n")
for o in opens:
    out.append("* **%s** key `%s`: %s" % (o["property"], o["key"], o["what"]))
out.append("\n### 9.6 Seeded changes and the checks that catch them\n")
out.append("Each change was written by a sub-agent that saw only the property text, confirmed in a scratch worktree (builds, existing tests pass, demonstration fails with it and passes without) and run against the quick checks with `tools/seedrun.sh`. Patches are relative to the /repo HEAD at the time they were kept.\n")
out.append("| seeded change | breaks | needs, to manifest | caught by (quick tier) | note |\n|---|---|---|---|---|")
sd = os.path.join(V, "seeded")
for s in sorted(os.listdir(sd)):
    mp = os.path.join(sd, s, "meta.json")
    if not os.path.exists(mp):
        continue
    m = json.load(open(mp))
    out.append("| %s | %s | %s | %s | %s |" % (m["id"], m["breaks_property"], m["needs_to_manifest"].replace("|", "\\|"), ", ".join(m["caught_by"]) or "**none**", m.get("note", "").replace("|", "\\|")))
text = "\n".join(out) + "\n"
p = os.path.join(V, "DESIGN.md")
d = open(p).read()
a, b = "<!-- GENERATED BEGIN -->\n", "<!-- GENERATED END -->\n"
if a in d:
    d = d[:d.index(a) + len(a)] + text + d[d.index(b):]
else:
    d += "\n" + a + text + b
open(p, "w").write(d)
print("tables written:", len(out), "lines")
