#!/usr/bin/env python3
"""Re-runs the quick checks named in caught_by of every kept seeded change against the current /repo HEAD
(scratch worktree, removed afterwards). Patches that no longer apply are reported as such (they were made
against an older HEAD). usage: tools/seedrecheck.py [id-prefix ...]"""
import json, os, subprocess, sys
V = os.path.dirname(os.path.dirname(os.path.abspath(__file__)))
env = dict(os.environ, GOFLAGS="-mod=mod", GOPROXY="off", GOSUMDB="off", GOTOOLCHAIN="local")
sel = sys.argv[1:]
for sid in sorted(os.listdir(os.path.join(V, "seeded"))):
    if sel and not any(sid.startswith(p) for p in sel):
        continue
    d = os.path.join(V, "seeded", sid)
    meta = json.load(open(os.path.join(d, "meta.json")))
    s = "/var/tmp/verif-recheck-%d" % os.getpid()
    subprocess.run(["git", "-C", "/repo", "worktree", "add", "-q", "--detach", s, "HEAD"], check=True)
    try:
        r = subprocess.run(["git", "-C", s, "apply", os.path.join(d, "patch.diff")], stderr=subprocess.DEVNULL)
        if r.returncode != 0:
            print("%-60s patch does not apply to the current HEAD" % sid, flush=True)
            continue
        if subprocess.run(["go", "build", "./..."], cwd=s, env=env, stderr=subprocess.DEVNULL).returncode != 0:
            print("%-60s does not build on the current HEAD" % sid, flush=True)
            continue
        res = []
        for p in meta["caught_by"]:
            e = dict(env, VERIF_REPO=s, VERIF_NOEVIDENCE="1")
            rc = subprocess.run(["./check", p, "--tier", "quick"], cwd=V, env=e, stdout=subprocess.DEVNULL, stderr=subprocess.DEVNULL).returncode
            res.append("%s:%s" % (p, {0: "MISSED", 1: "caught", 2: "broken"}.get(rc, rc)))
        print("%-60s %s" % (sid, " ".join(res)), flush=True)
    finally:
        subprocess.run(["git", "-C", "/repo", "worktree", "remove", "--force", s], stdout=subprocess.DEVNULL, stderr=subprocess.DEVNULL)
