#!/bin/sh
# Offline setup: warm the Go build cache for the worker (plain and -race builds) from files on disk only.
set -e
cd "$(dirname "$0")/../harness"
export GOFLAGS=-mod=mod GOPROXY=off GOSUMDB=off GOTOOLCHAIN=local
mkdir -p ../build/bin ../evidence
go build -tags verif -o ../build/bin/worker.setup ./cmd/worker
go build -race -tags verif -o ../build/bin/worker.setup.race ./cmd/worker
rm -f ../build/bin/worker.setup ../build/bin/worker.setup.race
echo setup ok
