#!/bin/sh
# usage: tools/seedrun.sh <patch.diff | revert:<sha>> <Cnn> [<Cnn> ...]
# Runs the quick checks of the given properties against a scratch worktree of /repo with the change
# applied (VERIF_REPO), prints one line per check, removes the worktree. /repo itself is not touched.
set -u
CHANGE="$1"; shift
S=/var/tmp/verif-scratch-$$
git -C /repo worktree add -q --detach "$S" HEAD || exit 2
trap 'git -C /repo worktree remove --force "$S" >/dev/null 2>&1; rm -rf "$S"' EXIT
case "$CHANGE" in
  revert:*) git -C "$S" revert --no-commit "${CHANGE#revert:}" >/dev/null 2>&1 || { echo "revert failed"; exit 2; } ;;
  *) git -C "$S" apply "$CHANGE" || { echo "patch does not apply"; exit 2; } ;;
esac
cd "$(dirname "$0")/.."
for P in "$@"; do
  out=$(VERIF_REPO="$S" VERIF_NOEVIDENCE=1 ./check "$P" --tier "${TIER:-quick}" 2>&1)
  rc=$?
  echo "== $P rc=$rc $(echo "$out" | grep -c '^VIOLATION') violation line(s)"
  echo "$out" | grep -E "^  key=|BROKEN|KNOWN-FINDING" | cut -c1-260 | head -8
done
