#!/bin/sh
# usage: tools/seedverify.sh <dir with patch.diff and demo file> <demo file name> <path in tree for the demo> <package> <-run regex>
# Confirms a seeded change in a scratch worktree of /repo: demo passes on the unchanged tree; with the patch the tree builds,
# the existing tests pass (TestResolveEndpoint needs network and is ignored) and the demo fails.
set -u
D="$1"; DEMO="$2"; DEST="$3"; PKG="$4"; RUN="$5"
export GOFLAGS=-mod=mod GOPROXY=off GOSUMDB=off GOTOOLCHAIN=local
S=/var/tmp/verif-seedverify-$$
git -C /repo worktree add -q --detach "$S" HEAD || exit 2
trap 'git -C /repo worktree remove --force "$S" >/dev/null 2>&1; rm -rf "$S"' EXIT
cd "$S"
cp "$D/$DEMO" "$DEST"
go test ${SEED_TAGS:+-tags $SEED_TAGS} -vet=off -count=1 -run "$RUN" "$PKG" >/var/tmp/seedverify.$$.log 2>&1; rc=$?
echo "clean tree: demo rc=$rc (want 0)"
rm -f "$DEST"
git apply "$D/patch.diff" || { echo "patch does not apply"; exit 2; }
go build ./... || { echo "does not build"; exit 2; }
go test -vet=off -count=1 -p 1 ./... 2>&1 | grep -E "^(FAIL|---|ok|panic)" | grep -v "^ok" | grep -v "TestResolveEndpoint" | grep -v "FAIL	github.com/gopcua/opcua/uacp" | grep -v "^FAIL$" | head -10
echo "existing tests done (lines above, if any, are failures)"
cp "$D/$DEMO" "$DEST"
go test ${SEED_TAGS:+-tags $SEED_TAGS} -vet=off -count=1 -run "$RUN" "$PKG" >/var/tmp/seedverify.$$.log 2>&1; rc=$?
echo "patched tree: demo rc=$rc (want non-zero)"
tail -5 /var/tmp/seedverify.$$.log | cut -c1-300
rm -f /var/tmp/seedverify.$$.log
