#!/usr/bin/env python3
"""Driver: builds the Go worker from $VERIF_REPO (default /repo) with -tags verif,
runs the batches of one property as child processes under a watchdog, restarts a
batch after a process-fatal error (the journal names the offending case), merges
the batch results, applies known_findings.jsonl, writes evidence/<id>.json and
prints VIOLATION / KNOWN-FINDING lines.

exit 0: property held on everything explored (known findings are reported, not alarms)
exit 1: a violation not listed in known_findings.jsonl (a VIOLATION line is printed)
exit 2: the check itself is broken or observed too little (never silently 0)
"""
import argparse, concurrent.futures, fnmatch, hashlib, json, os, re, shutil, subprocess, sys, time

VERIF = os.path.dirname(os.path.dirname(os.path.abspath(__file__)))
HARNESS = os.path.join(VERIF, "harness")
BUILD = os.path.join(VERIF, "build")
EVID = os.path.join(VERIF, "evidence")
if os.environ.get("VERIF_NOEVIDENCE"):
    # runs against a substituted tree (seeded mutations) must not overwrite the evidence of /repo
    EVID = os.path.join(BUILD, "scratch-evidence")
GOENV = dict(os.environ, GOFLAGS="-mod=mod", GOPROXY="off", GOSUMDB="off", GOTOOLCHAIN="local", CGO_ENABLED="1")


def log(*a):
    print(*a, file=sys.stderr, flush=True)


def build(repo, race, tag):
    """Build the worker against the repo tree; every invocation links its own binary so
    concurrent checks never overwrite each other's executable."""
    os.makedirs(os.path.join(BUILD, "bin"), exist_ok=True)
    modfile = os.path.join(BUILD, "harness.%s.mod" % tag)
    with open(os.path.join(HARNESS, "go.mod")) as f:
        mod = f.read()
    mod = re.sub(r"replace github.com/gopcua/opcua => .*", "replace github.com/gopcua/opcua => " + repo, mod)
    with open(modfile, "w") as f:
        f.write(mod)
    shutil.copy(os.path.join(HARNESS, "go.sum"), modfile[:-4] + ".sum")
    out = os.path.join(BUILD, "bin", "worker.%s%s" % (tag, ".race" if race else ""))
    cmd = ["go", "build", "-tags", "verif", "-modfile=" + modfile, "-o", out]
    if race:
        cmd.append("-race")
    cmd.append("./cmd/worker")
    t0 = time.time()
    r = subprocess.run(cmd, cwd=HARNESS, env=GOENV, stdout=subprocess.PIPE, stderr=subprocess.STDOUT, text=True)
    if r.returncode != 0:
        log(r.stdout)
        log("BUILD FAILED (the tree under test does not compile with the verif hooks)")
        sys.exit(2)
    log("built %s in %.1fs" % (os.path.basename(out), time.time() - t0))
    return out, modfile


FATAL_RE = re.compile(r"^(panic: .*|fatal error: .*|unexpected signal.*|runtime: .*out of memory.*|SIGSEGV.*)$", re.M)
FRAME_RE = re.compile(r"^(github\.com/gopcua/opcua[^\s(]*(?:\([^)]*\))?[^\s(]*)\(", re.M)


def crash_key(stderr_text):
    m = FATAL_RE.search(stderr_text)
    msg = m.group(1) if m else "process died"
    tail = stderr_text[m.start():] if m else stderr_text
    fm = None
    for fm_ in FRAME_RE.finditer(tail):
        if "verif" in fm_.group(1).lower():
            continue
        fm = fm_
        break
    frame = fm.group(1).replace("github.com/gopcua/opcua/", "") if fm else "?"
    msgc = re.sub(r"-?\d+", "N", msg)[:80]
    if "goroutine stack exceeds" in stderr_text or "stack overflow" in msg:
        msgc = "fatal error: stack overflow"
    return "crash:%s:%s" % (frame, msgc), msg


def run_batch(worker, prop, tier, seed, batch, nbatch, rundir, timeout_s, racelog, memlimit_mb=0):
    """Runs one batch; after a crash resumes behind the offending case. Returns list of segment dirs + crash records."""
    segs, crashes, resume, inconclusive = [], [], 0, {}
    for seg in range(60):
        d = os.path.join(rundir, "b%d" % batch, "s%d" % seg)
        os.makedirs(d, exist_ok=True)
        cmd = ["timeout", "-s", "QUIT", "-k", "20", str(timeout_s), worker, "-prop", prop, "-tier", tier, "-seed", str(seed),
               "-batch", str(batch), "-nbatch", str(nbatch), "-dir", d, "-resume", str(resume)]
        env = dict(os.environ)
        env["VERIF_WORKER"] = worker
        env["GOTRACEBACK"] = "all"
        env["VERIF_TMP"] = d
        if racelog:
            env["GORACE"] = "halt_on_error=0 exitcode=0 log_path=%s" % os.path.join(racelog, "b%d.s%d" % (batch, seg))
        def limit():
            if memlimit_mb:
                import resource
                resource.setrlimit(resource.RLIMIT_AS, (memlimit_mb << 20, memlimit_mb << 20))
        with open(os.path.join(d, "stderr"), "wb") as se, open(os.path.join(d, "stdout"), "wb") as so:
            rc = subprocess.run(cmd, stdout=so, stderr=se, env=env, preexec_fn=limit).returncode
        segs.append(d)
        if rc == 0:
            break
        errtxt = open(os.path.join(d, "stderr"), errors="replace").read()
        if rc in (124, 137) or (rc == 2 and "SIGQUIT" in errtxt[:4000]):
            inconclusive["watchdog fired after %ds (batch %d)" % (timeout_s, batch)] = 1
            break
        if rc == 3:
            log("worker error (batch %d): %s" % (batch, errtxt[-2000:]))
            return segs, crashes, inconclusive, "worker reported an internal error: " + errtxt[-500:]
        jpath = os.path.join(d, "journal")
        if rc == 5:  # the worker recorded a violation for the case in flight and gave up the process
            try:
                resume = int(json.loads(open(jpath).read().strip())["case"]) + 1
                continue
            except Exception:
                break
        # process-fatal error: the journal holds the case that was executing
        j = None
        try:
            j = json.loads(open(jpath).read().strip() or "null")
        except Exception:
            pass
        key, msg = crash_key(errtxt)
        crashes.append({"key": key, "desc": "process died: " + msg, "witness": (j or {}).get("v"), "batch": batch,
                        "stderr_tail": errtxt[-3000:]})
        if not j:
            break
        resume = int(j["case"]) + 1
    return segs, crashes, inconclusive, None


def load_known():
    path = os.path.join(VERIF, "known_findings.jsonl")
    out = []
    if os.path.exists(path):
        for line in open(path):
            line = line.strip()
            # "fixed: property=<id> <commit> <what failed>" lines record repairs; they suppress nothing
            if line and not line.startswith("#") and not line.startswith("fixed:"):
                out.append(json.loads(line))
    return out


def parse_race_logs(racelog):
    """De-duplicate race reports by the pair of top in-repo frames (line numbers stripped)."""
    reports = {}
    if not racelog or not os.path.isdir(racelog):
        return reports
    for fn in sorted(os.listdir(racelog)):
        txt = open(os.path.join(racelog, fn), errors="replace").read()
        for block in txt.split("WARNING: DATA RACE")[1:]:
            block = block.split("==================")[0]
            parts = re.split(r"\n(?=Previous |Goroutine )", block)
            tops = []
            for part in parts[:2]:
                top = None
                for line in part.split("\n"):
                    line = line.strip()
                    m = re.match(r"(github\.com/gopcua/opcua[^\s(]*(?:\([^)]*\))?[^\s(]*)\(", line)
                    if m and "verif" not in m.group(1).lower():
                        top = m.group(1).replace("github.com/gopcua/opcua/", "")
                        break
                tops.append(top or "?")
            if all(t == "?" for t in tops):
                continue  # no gopcua frame on either access: harness-internal, ignored
            key = "race:" + "|".join(sorted(tops))
            r = reports.setdefault(key, {"count": 0, "sample": block[:3000]})
            r["count"] += 1
    return reports


def main():
    ap = argparse.ArgumentParser()
    ap.add_argument("prop")
    ap.add_argument("--tier", default=os.environ.get("VERIF_TIER", "quick"))
    ap.add_argument("--replay")
    ap.add_argument("--keep", action="store_true")
    a = ap.parse_args()
    prop, tier = a.prop, a.tier
    seed = int(os.environ.get("VERIF_SEED", "1"))
    repo = os.path.abspath(os.environ.get("VERIF_REPO", "/repo"))
    t0 = time.time()
    tag = "%s.%d" % (prop, os.getpid())
    rundir = os.path.join(BUILD, "run", tag)
    shutil.rmtree(rundir, ignore_errors=True)
    os.makedirs(rundir)
    worker, modfile = build(repo, False, tag)
    cleanup = [worker, modfile, modfile[:-4] + ".sum"]
    try:
        return drive(a, prop, tier, seed, repo, t0, tag, rundir, worker, cleanup)
    finally:
        if not a.keep:
            for f in cleanup:
                try:
                    os.remove(f)
                except OSError:
                    pass
            shutil.rmtree(rundir, ignore_errors=True)


def drive(a, prop, tier, seed, repo, t0, tag, rundir, worker, cleanup):
    r = subprocess.run([worker, "-prop", prop, "-tier", tier, "-plan"], stdout=subprocess.PIPE, text=True)
    if r.returncode != 0:
        log("no plan for", prop)
        return 2
    plan = json.loads(r.stdout)

    if a.replay:
        if not os.path.isfile(a.replay):
            log("replay file not found:", a.replay)
            return 2
        a.replay = os.path.abspath(a.replay)
        d = os.path.join(rundir, "replay")
        rc = subprocess.run([worker, "-prop", prop, "-tier", tier, "-seed", str(seed), "-dir", d, "-replay", a.replay]).returncode
        res = {}
        try:
            res = json.load(open(os.path.join(d, "result.json")))
        except Exception:
            pass
        if rc not in (0,) and not res:
            print("replay: process died (rc=%d): the witness reproduces a process-fatal error" % rc)
            return 1
        viol = res.get("violations") or {}
        for k, v in viol.items():
            print("REPLAY VIOLATION property=%s key=%s %s" % (prop, k, v["desc"]))
        return 1 if viol else 0

    racelog = None
    rworker = worker
    if plan.get("race"):
        rworker, _ = build(repo, True, tag)
        cleanup.append(rworker)
        racelog = os.path.join(rundir, "race")
        os.makedirs(racelog)

    nb = plan["batches"]
    par = plan.get("parallel") or min(nb, os.cpu_count() or 4)
    segs, crashes, inconc, broken = [], [], {}, None
    with concurrent.futures.ThreadPoolExecutor(max_workers=par) as ex:
        futs = [ex.submit(run_batch, rworker if plan.get("race") else worker, prop, tier, seed, b, nb, rundir,
                          plan["timeout_s"], racelog, plan.get("mem_limit_mb", 0)) for b in range(nb)]
        for f in futs:
            s, c, i, br = f.result()
            segs += s
            crashes += c
            inconc.update(i)
            broken = broken or br

    # merge
    ev = {"evaluations": 0, "classes": {}, "samples": [], "extrema": {}, "extra": {}}
    violations = {}
    incomplete = 0
    for d in segs:
        p = os.path.join(d, "result.json")
        if not os.path.exists(p):
            continue
        res = json.load(open(p))
        ev["evaluations"] += res["evaluations"]
        for k, v in res["classes"].items():
            ev["classes"][k] = ev["classes"].get(k, 0) + v
        if len(ev["samples"]) < 10:
            ev["samples"] += res.get("samples") or []
        for k, v in res["extrema"].items():
            if k not in ev["extrema"] or ev["extrema"][k]["value"] < v["value"]:
                ev["extrema"][k] = v
        for k, v in res["extra"].items():
            if isinstance(v, (int, float)) and not isinstance(v, bool) and k.startswith("sum_"):
                ev["extra"][k] = ev["extra"].get(k, 0) + v
            elif isinstance(v, dict) and k.startswith("hist_"):
                h = ev["extra"].setdefault(k, {})
                for kk, vv in v.items():
                    h[kk] = h.get(kk, 0) + vv
            else:
                ev["extra"][k] = v
        for k, v in res["inconclusive"].items():
            inconc[k] = inconc.get(k, 0) + v
        for k, v in res["violations"].items():
            v["batch"] = res["batch"]
            if k in violations:
                violations[k]["count"] += v["count"]
            else:
                violations[k] = v
        if not res.get("complete"):
            incomplete += 1
    for c in crashes:
        if c["key"] in violations:
            violations[c["key"]]["count"] += 1
        else:
            violations[c["key"]] = dict(c, count=1)
    races = parse_race_logs(racelog)
    for k, v in races.items():
        violations[k] = {"key": k, "desc": "data race reported by the Go race detector", "witness": {"report": v["sample"]},
                         "count": v["count"], "batch": 0, "race": True}
    dfiles = [os.path.join(d, "distinct.bin") for d in segs if os.path.exists(os.path.join(d, "distinct.bin"))]
    distinct = 0
    if dfiles:
        listfile = os.path.join(rundir, "distinct.list")
        r = subprocess.run([worker, "-merge", ",".join(dfiles)], stdout=subprocess.PIPE, text=True)
        distinct = int(r.stdout.strip() or 0)

    # known findings
    known = load_known()
    open_known = [k for k in known if k.get("property") == prop and k.get("status") == "open"]
    new, listed = [], []
    for k, v in sorted(violations.items()):
        hit = None
        for kf in open_known:
            if fnmatch.fnmatchcase(k, kf["key"]):
                hit = kf
                break
        (listed if hit else new).append((k, v, hit))

    wdir = os.path.join(EVID, "witness", prop)
    shutil.rmtree(wdir, ignore_errors=True)
    rc = 0
    seen_known = set()
    for k, v, kf in listed:
        if kf["key"] not in seen_known:
            seen_known.add(kf["key"])
            print("KNOWN-FINDING: property=%s %s" % (prop, kf["what"]))
    for k, v, _ in new:
        os.makedirs(wdir, exist_ok=True)
        wpath = os.path.join(wdir, hashlib.sha1(k.encode()).hexdigest()[:12] + ".json")
        with open(wpath, "w") as f:
            json.dump({"property": prop, "key": k, "desc": v["desc"], "witness": v.get("witness"), "batch": v.get("batch", 0),
                       "count": v["count"], "seed": seed, "tier": tier, "stderr_tail": v.get("stderr_tail")}, f, indent=1)
        print("VIOLATION property=%s replay=%s" % (prop, wpath))
        log("  key=%s count=%d %s" % (k, v["count"], v["desc"][:300]))
        rc = 1

    minnt = plan.get("min_nontrivial", 2)
    ninc = sum(inconc.values())
    evidence = {
        "property_id": prop, "tier": tier, "seed": seed, "level": plan.get("level", "exploration"),
        "coverage": {
            "evaluations": ev["evaluations"], "distinct_nontrivial": distinct, "rule": plan.get("rule", ""),
            "samples": ev["samples"][:10] or ["(none recorded)"],
            "classes": dict(sorted(ev["classes"].items())[:400]), "extrema": ev["extrema"], "observed": ev["extra"],
            "inconclusive": inconc, "batches": nb, "batches_incomplete": incomplete,
            "violation_keys": sorted(violations.keys())[:50],
            "known_findings_reproduced": sorted(seen_known),
            "race_reports": {k: v["count"] for k, v in races.items()} if plan.get("race") else None,
        },
        "assumptions": plan.get("assumptions") or [],
        "wall_s": round(time.time() - t0, 2),
        "violations": len(new),
    }
    if plan.get("exhaustive"):
        evidence["coverage"]["exhaustive"] = True
    os.makedirs(EVID, exist_ok=True)
    with open(os.path.join(EVID, prop + ".json"), "w") as f:
        json.dump(evidence, f, indent=1, sort_keys=True)
    log("%s %s seed=%d: evaluations=%d distinct_nontrivial=%d violations(new)=%d known=%d inconclusive=%d wall=%.1fs" % (
        prop, tier, seed, ev["evaluations"], distinct, len(new), len(seen_known), ninc, time.time() - t0))
    if rc == 0:
        if broken:
            log("CHECK BROKEN: " + broken)
            return 2
        if distinct < minnt or ev["evaluations"] < 1:
            log("CHECK BROKEN: observed only %d distinct non-trivial cases (minimum %d) - not a verdict" % (distinct, minnt))
            return 2
        if incomplete and not inconc:
            log("CHECK BROKEN: %d batch segments did not complete" % incomplete)
            return 2
    return rc


if __name__ == "__main__":
    sys.exit(main())
