#!/usr/bin/env python3
"""Validates MANIFEST.json and every evidence file against the schemas (uses the tooling venv's jsonschema)."""
import json, glob, sys
import jsonschema
ok = True
try:
    jsonschema.validate(json.load(open('/verif/MANIFEST.json')), json.load(open('/root/.vp/MANIFEST.schema.json')))
    print("MANIFEST.json valid")
except Exception as e:
    ok = False; print("MANIFEST invalid:", e)
es = json.load(open('/root/.vp/EVIDENCE.schema.json'))
for f in sorted(glob.glob('/verif/evidence/C*.json')):
    try:
        jsonschema.validate(json.load(open(f)), es)
    except Exception as e:
        ok = False; print(f, "INVALID:", str(e)[:300])
print("evidence files checked:", len(glob.glob('/verif/evidence/C*.json')))
sys.exit(0 if ok else 1)
