#!/bin/sh
# usage: tools/seedtry.sh <demo dir> <demo dest in tree> <package> <run regex> <checks...>
D="$1"; DEST="$2"; PKG="$3"; RUN="$4"; shift 4
DEMO=$(ls "$D" | grep -E "\.go$" | head -1)
"$(dirname "$0")/seedverify.sh" "$D" "$DEMO" "$DEST" "$PKG" "$RUN" 2>&1 | grep -E "^(clean tree|patched tree|FAIL|---|patch does|does not build)" | head -8
"$(dirname "$0")/seedrun.sh" "$D/patch.diff" "$@"
