#!/usr/bin/env python3
"""Runs the repository's pinned test suite with the verif guard OFF (no build tag) and
checks that every test listed as stable_pass in /root/.vp/BASELINE.json passes."""
import json, os, subprocess, sys
repo = os.environ.get("VERIF_REPO", "/repo")
env = dict(os.environ, GOFLAGS="-mod=mod", GOPROXY="off", GOSUMDB="off", GOTOOLCHAIN="local")
base = json.load(open("/root/.vp/BASELINE.json"))
want = set(base["stable_pass"])
p = subprocess.run(["go", "test", "-json", "-vet=off", "-count=1", "-timeout", "25m", "./..."], cwd=repo, env=env,
                   stdout=subprocess.PIPE, stderr=subprocess.STDOUT, text=True)
status = {}
for line in p.stdout.splitlines():
    try:
        e = json.loads(line)
    except Exception:
        continue
    if e.get("Test") and e.get("Action") in ("pass", "fail", "skip"):
        status["%s::%s" % (e["Package"], e["Test"])] = e["Action"]
bad = sorted(t for t in want if status.get(t) != "pass")
print("stable_pass tests: %d, passing now: %d" % (len(want), len(want) - len(bad)))
for t in bad[:50]:
    print("NOT PASSING:", t, status.get(t))
sys.exit(1 if bad else 0)
