#!/usr/bin/env python3
"""usage: seedkeep.py <id> <property> <srcdir> <demo dest in tree> <go test command> <needs> <caught_by> [<note>]
Stores a confirmed seeded change under /verif/seeded/<id>/ (patch.diff, demonstration, NOTES.md, meta.json)."""
import json, os, shutil, sys
sid, prop, src, dest, cmd, needs, caught = sys.argv[1:8]
note = sys.argv[8] if len(sys.argv) > 8 else ""
d = os.path.join(os.path.dirname(os.path.dirname(os.path.abspath(__file__))), "seeded", sid)
os.makedirs(d, exist_ok=True)
for f in os.listdir(src):
    shutil.copy(os.path.join(src, f), os.path.join(d, f))
json.dump({"id": sid, "breaks_property": prop, "needs_to_manifest": needs,
           "demonstration": {"place_at": dest, "command": cmd, "fails_with_patch": True, "passes_without": True},
           "confirmed_by": "tools/seedverify.sh in a scratch worktree of /repo: builds, existing tests pass, demonstration fails with the patch and passes without",
           "checks_run": "tools/seedrun.sh (quick tier, VERIF_REPO = scratch worktree with the patch)",
           "caught_by": caught.split(",") if caught else [], "note": note}, open(os.path.join(d, "meta.json"), "w"), indent=1)
print("kept", d)
