#!/usr/bin/env python3
"""Generates /verif/MANIFEST.json from the table below (one entry per claimed property)."""
import json, os, subprocess

VERIF = os.path.dirname(os.path.dirname(os.path.abspath(__file__)))

# id -> (category, technique, level text, level note, design ref)
CHECKS = {
    "C01": ("exploration", "generated-value round-trip monitor (typed reflection generator + structural equality oracle)",
            "Runs the real Encode/Decode over seed-determined generated values of every type registered in the tree under test plus exhaustive mask/shape sub-spaces; a violation is a concrete value with its encoding. Sampled, not exhaustive: holds on the values explored.",
            "trusts the harness generator to stay inside the property's value domain and the equality oracle's normalisations (nil==empty, 100ns, NaN)", "3/C01"),
}

CHECKS["C02"] = ("exploration", "hostile-input decode monitor (structure-aware mutation corpus, per-call allocation and CPU-time meters, panic and process-death capture with write-ahead journal)",
    "Feeds mutated encodings, type-directed length bombs, a Variant header grid, nesting towers and random bytes to the real decoders of every registered type in child processes and measures each call (panic, bytes allocated, CPU time, process death). Held = no input among those explored broke a bound.",
    "bounds instantiated as alloc <= 1024*len+16MiB and <= 20 CPU-seconds per call; inputs <= 2 MiB", "3/C02")
CHECKS["C03"] = ("exploration", "decode / re-encode / decode differential monitor over the hostile corpus",
    "Every input of the C02 corpus plus targeted non-canonical forms (incl. every registered type without fields in an ExtensionObject with an empty body) that decodes is re-encoded with the real encoder and decoded again; the two decoded values must be equal. A violation is a concrete byte string.",
    "equality oracle as in C01; only inputs that decode exercise the oracle (count reported in evidence)", "3/C03")

CHECKS["C04"] = ("exploration", "NodeID text round-trip and equality monitor against an independent identity model",
    "Exhaustive over all string ids of length <= 4 from a separator/prefix alphabet in namespaces 0 and 1 and over a numeric boundary grid, plus random ids and near-collision pairs through the public constructors; compares ParseNodeID(String()), Equal, nsu= resolution and registry lookups with an independent (namespace, kind, value) identity.",
    "GUID ids from well-formed text; namespace URIs without ';'", "3/C04")
CHECKS["C14"] = ("exploration", "differential monitor of derived symmetric keys against an independent P_SHA/HMAC/AES-CBC implementation",
    "For generated nonce pairs the public uapolicy.Symmetric objects of both sides must produce exactly the signature and ciphertext of the Part 6 keys computed independently, verify/decrypt each other, and reject their own output (direction separation).",
    "Go crypto stdlib trusted and shared", "3/C14")
CHECKS["C15"] = ("exploration", "asymmetric crypto monitor: every plaintext length, key-limit matrix, differential against reference RSA schemes",
    "All 5 policies x 25 key size pairs: construction must fail exactly outside the policy limits; every plaintext length 0..3 blocks+1 round-trips and is cross-decrypted by an independent implementation; signatures verified, tampered and checked under wrong keys.",
    "Go crypto/rsa trusted and shared; committed test keys", "3/C15")
CHECKS["C24"] = ("exploration", "model-based monitor of endpoint selection (independent match/maximum model)",
    "Exhaustive over short endpoint lists from a policy x mode x level alphabet times all query forms (URIs, short names incl. the documented ones without underscores, unknown), plus random longer lists with duplicates; the result must be a matching endpoint of maximal level, error iff nothing matches.",
    "lists without nil entries", "3/C24")

CHECKS["C07"] = ("exploration", "in-process chunking round-trip monitor on the real sender and receiver code paths (detached channel instances)",
    "Real newMessage/EncodeChunks/signAndEncrypt on one instance, real verifyAndDecrypt/mergeChunks/DecodeService on a mirrored one, for every policy and mode over generated chunk sizes, body lengths around multiples of the maximum and sequence numbers near the wrap; per-chunk invariants and byte-equal reassembly. OPN request and response chunks travel between a gopcua instance with the sender's asymmetric algorithm and one with the receiver's for every pair of allowed RSA key sizes.",
    "uses the verif hook wrappers (EncodeAndSecure repeats the writeMessageChunks loop without the socket); live channels with mixed key sizes are part of C37", "3/C07")
CHECKS["C08"] = ("exploration", "differential monitor against an independent implementation of the Part 6 chunk layout (refpeer)",
    "Chunks secured by gopcua must open in refpeer to the same plaintext and chunks sealed by refpeer in every conforming variation must open in gopcua, for MSG under all policies/modes and OPN under every allowed RSA key size pair, both directions.",
    "refpeer written from the specification; shares only Go crypto stdlib with gopcua", "3/C08")
CHECKS["C09"] = ("exploration", "tamper monitor: exhaustive single-byte, truncation, extension and wrong-key mutations of valid chunks against the real verifyAndDecrypt",
    "Every mutated chunk must be rejected without panic; valid chunk as control. End-to-end layer over TCP: ~30 hostile variants per policy and mode against the real server and the real client on established channels, and forged unsigned OpenSecureChannel responses as the answer to the client's open and renew requests.",
    "delivery observed at verifyAndDecrypt of a detached instance (hook); server-side effect covered by C10/C29 workloads", "3/C09")
CHECKS["C38"] = ("exploration", "dense chunk-size sweep monitor of SetMaximumBodySize against the real encoder and independent layout arithmetic",
    "Every chunk size in a dense range from the protocol minimum plus log-spaced/random sizes to 2^24, all symmetric policies and modes: the maximal body fits, is block aligned, matches the layout arithmetic, and max+1 does not fit in SignAndEncrypt; sampled bodies of k x maximum + 1 go through the real split. A live part opens real client channels and real server channels (a third renewed first, different buffers in the two directions) and lets the independent peer report length and body bytes of every chunk of a three-chunk message: each fits, and one more body byte than an intermediate chunk carries would not.",
    "chunk sizes above the dense range are sampled; the live part uses 2048-bit keys", "3/C38")

CHECKS["C18"] = ("exploration", "exactly-once request/response matching monitor over a call/return log with unique nonces against a scripted reordering/dropping/duplicating server",
    "Concurrent callers on one channel (opcua.Client and bare uasc with request ids near 2^32) against the independent scripted server; every successful call must return its own nonce, no nonce twice, wrong-typed responses and an echoed request must be errors.",
    "the scripted server binds each nonce to its request id", "3/C18")
CHECKS["C22"] = ("exploration", "scripted-server monitor of the session handshake with forged server signatures, client in a child process",
    "All 5 policies x 2 modes x 16 signature/certificate variants (incl. bad signatures with an empty or another algorithm URI and a missing signature field) over real secured channels provided by the independent peer; Connect must succeed iff the signature is valid, never activate, never report Connected, never die.",
    "client configured with the scripted server's certificate via SecurityFromEndpoint", "3/C22")

CHECKS["C29"] = ("exploration", "hostile-client monitor of the real server in a child process: generated requests of every registered type, targeted requests, raw mutated chunks, non-reading clients; liveness canary with CPU-clock hang oracle and goroutine-dump witness",
    "The real server runs as a child process; the independent scripted client sends targeted, generated (every registered request type, with and without session) and raw-fuzzed traffic; after each group a canary client on its own connection must get a Read answered. A dead process is a violation with the crashing frame; a silent process is a hang only if its CPU clock stands still (dump attached).",
    "bounded time = canary 3 s + 4 fresh connections; server silent but burning CPU is inconclusive, never a violation", "3/C29")
CHECKS["C31"] = ("exploration", "model-based monitor of access-level enforcement: real client against the real server, node values inspected in-process after every operation",
    "11x11 grid of AccessLevel x UserAccessLevel (absent, Byte 0/1/2/3/0xfc, levels stored as UInt32 / Int32 with and without the flags, String) nodes declared with five node class attributes (Variable as UInt32 / Int32, absent, VariableType, Object), seed-determined Read/Write sequences with unique values and run-time rewrites of the level attributes; a denied read must not return the value, a denied write must not answer Good and must leave the value unchanged.",
    "levels present as Byte are the property's domain; absent/wrong-typed levels are only required not to crash", "3/C31")
CHECKS["C32"] = ("exploration", "id-allocation and ownership model monitor over recorded create/delete histories of several sessions (independent scripted client, server tables inspected in-process)",
    "Histories of CreateSubscription/DeleteSubscriptions/CreateMonitoredItems/DeleteMonitoredItems/SetMonitoringMode by 2-4 sessions incl. foreign and unknown ids; a create must never return an id that the model holds live; foreign deletes/mode changes must not answer Good and must leave the victim's entries unchanged (also when the refused id precedes an own one in the same request); what nobody deleted exists; a concurrent churn phase of all sessions ends every history.",
    "model built from acknowledged responses only", "3/C32")
CHECKS["C33"] = ("exploration", "metamorphic monitor of Browse against an independent filter model (unfiltered browse + own HasSubtype closure)",
    "In-process Namespace.Browse over nodes of the standard address space and an added namespace x directions x all reference types (abstract included, null, unknown) x subtype flag x class masks, compared as multisets with the unfiltered result filtered by the model; afterwards a reference type is defined below HasOrderedComponent and browses with each supertype are checked.",
    "the unfiltered browse of the same node is trusted as the set of references", "3/C33")
CHECKS["C35"] = ("exploration", "session-enforcement monitor: every registered request type x token state over a bare secure channel, effects inspected in-process",
    "Every request type x {null, unknown, closed, created-not-activated, foreign} token x generated bodies sent by the independent scripted client; the answer must be a session error and values, subscription and monitored-item tables must be unchanged; a write under a valid session is the control.",
    "discovery and session-establishment services are exempt as the property states", "3/C35")

CHECKS["C30"] = ("exploration", "configuration-sweep monitor: independent scripted client tries every policy/mode (and unsupported combinations, and mode-switching renewals) against real servers configured with subsets of the supported pairs; model oracle established <=> configured; advertised = configured",
    "Real servers with singleton, pair and random subsets of the 11 supported policy/mode pairs; for each, 25 OpenSecureChannel attempts by the independent peer, a renewal asking for the other mode, the same request sent as a MSG typed message of the open channel, GetEndpoints, and real opcua.Client connects; a channel must be established exactly for configured pairs and the advertised endpoints must equal the configured pairs.",
    "servers without any EnableSecurity option are outside the quantifier (pinned tests require None/None there)", "3/C30")
CHECKS["C37"] = ("exploration", "interoperability matrix monitor: real client against real server for every cell of policy x mode x server key x client key x token type, write/read-back oracle incl. multi-chunk values",
    "Each cell starts a real server enabling only that configuration, discovers and selects the advertised endpoint with a real client, connects, activates with an anonymous or username token, writes and reads back a scalar and a 150 kB ByteString. The quick tier adds two cells per policy with keys on different sides of 2048 bits; both tiers run a user-name session over the None endpoint of a server that also enables a secured policy. Thorough runs the complete finite matrix.",
    "committed self-signed certificates; quick tier runs the 2048-bit column only", "3/C37")

CHECKS["C23"] = ("exploration", "configuration-isolation monitor: random option sequences in fresh child processes, full configuration snapshots (verif hook) of every client, the defaults and the Hello on the wire compared before/after",
    "Each sequence constructs 2-8 clients with random subsets of all 36 options in a fresh process; after every construction the snapshot of a fresh default configuration, uacp.DefaultClientACK and the snapshots of all earlier clients must be unchanged, and at the end the Hello of a default client on the wire must equal the one of a fresh process.",
    "snapshot hook renders functions/channels as set/unset; option arguments from a fixed generated pool", "3/C23")
CHECKS["C34"] = ("exploration", "linearizability monitor: client-boundary call/return histories of concurrent Read/Write by several real clients checked with porcupine against a register-per-node model",
    "2-8 real clients x 30-60 operations over 1-3 shared nodes (node and map namespaces) of the real server, unique written values (Int64 and UInt32 above 2^31 registers, a read of another type counts as a value nobody wrote), a read-only register whose refused writes claim no effect, one monotonic clock; each history is checked by porcupine (partitioned per node); failed writes stay open to the end of the history; a checker timeout is inconclusive.",
    "client and server share a process and clock; histories are short (<= 480 operations) so the checker terminates", "3/C34")

CHECKS["C05"] = ("exploration", "framing monitor: generated frame streams written by a raw socket under six segmentation patterns to a real uacp.Conn over loopback TCP; sequence-equality oracle, malformed-header and end-of-stream oracle, heartbeat-clock termination oracle",
    "Streams of well-formed frames (all size classes up to the receive buffer, known/unknown types, ERR frames) optionally followed by a malformed header are cut byte-at-a-time, inside every header, exactly after headers, per frame, randomly or not at all; the real Receive must deliver exactly the frames sent, surface ERR frames as *uacp.Error, fail on the malformed header without delivering anything after it, never panic and return after the writer closed.",
    "equal send/receive buffer sizes (directions are C06's subject); hang verdict needs 8000 heartbeats of this process after the writer closed", "3/C05")
CHECKS["C12"] = ("exploration", "reference-sender monitor: conforming chunk streams (uneven splits, interleaved request ids, aborts, sequence numbers across the wrap incl. 0) from the independent peer to bare gopcua channels; exactly-once byte-equal delivery oracle",
    "The independent peer acts as a conforming sender towards a bare server-kind and a bare client-kind gopcua channel in None, Sign and SignAndEncrypt: every complete message must be delivered exactly once and re-encode to the bytes that were sent, aborted messages must not be delivered, other messages must be unaffected.",
    "refpeer's idea of conforming (DESIGN Appendix A); Basic256Sha256 stands for the secured policies here (C07/C08 cover the others)", "3/C12")
CHECKS["C20"] = ("exploration", "immutability monitor: every delivered request/response/stored value retained with the hash of its re-encoding and re-hashed after later traffic on the same and on parallel connections",
    "1-8 parallel connections (bare server-kind channel, bare client-kind channel, real client/server pair) exchange 6-25 back-to-back single- and multi-chunk messages with large byte strings and strings in all modes; all delivered objects are kept and must re-encode identically at every later checkpoint.",
    "changes are observed through re-encoding of the delivered objects", "3/C20")

CHECKS["C10"] = ("exploration", "replay monitor: verbatim copies (single and runs) of earlier chunks injected on established secured channels of the real server and the real client; conservation oracle over the recorded history (value = last fresh write, one response per request id, each call gets the response sealed for it)",
    "The independent client holds a Sign / SignAndEncrypt session on the real server, writes unique values and re-sends byte-identical copies of earlier Write chunks at random positions; the node value (inspected in-process) must never return to a replayed value and no request may be answered twice; variants: the client's numbering starts shortly before the end of its range and wraps to 0 inside the history (chunks from before the wrap and the chunk numbered 0 are replayed), a token renewal right before the replay. The scripted server replays earlier response chunks to the real client.",
    "a server that gives up the channel after a replay is accepted", "3/C10")
CHECKS["C11"] = ("exploration", "arrival-order sequence monitor at the decrypting independent peer under concurrent senders, renewals and hook-point delays (incl. a sender parked across a renewal), both directions, counters placed just below the wrap",
    "Concurrent senders on one real client-kind channel with explicit renewals against the scripted server, and the real server's read/publish responses against the renewing independent client; the peer's arrival-order log must show +1 per chunk (or the wrap) and no interleaving of multi-chunk messages. A quarter of the client histories add hazards: requests refused as too large or cancelled before sending, callers that give up between the chunks of a request, a renewal that gets no answer, a second caller of Renew. Evidence lists hook-point hits and runs with a sender parked across a renewal.",
    "arrival order on a TCP connection = order of writes; hook delays only at points where pre-emption is possible anyway", "3/C11")

CHECKS["C06"] = ("exploration", "wire-observing limit monitor: the independent peer on one side of the connection sees every chunk gopcua writes and sends the largest chunks/messages it is entitled to, over a grid of asymmetric buffer sizes and message limits, gopcua in client role, server role and as stock server",
    "For configurations from {8192..2^20}^4 x message limits x chunk counts: every chunk gopcua puts on the wire must fit the receive buffer its receiver advertised, the server's ACK must respect the Hello, everything the peer may send must be accepted, and a message beyond the peer's limits must be refused by the sender with none of its chunks on the wire.",
    "policy None (fixed 24 byte chunk header); thorough covers the full 6^4 buffer grid for both roles", "3/C06")
CHECKS["C13"] = ("exploration", "hostile-stream monitor: malformed handshakes, OPN junk, short/garbled chunks, floods of unfinished messages and wrong-direction services against bare gopcua channels in child processes; liveness (heartbeat clock), crash and buffered-bytes (verif accessor) oracles",
    "Raw and semi-valid byte streams (incl. bare headers of every message type declaring sizes 0-16 and 400 overruns of one request id followed by a flood) from the independent peer to a server-kind and a client-kind channel living in a child process; the child must not die, Receive must return after the peer closed, the bytes buffered for incomplete messages must stay within 8 x MaxChunkCount x ReceiveBufSize and no single Receive may allocate more than 512 MiB.",
    "post-open streams under policy None (secured hostile chunks are C09's subject)", "3/C13")

CHECKS["C36"] = ("exploration", "Go race detector (-race build of the worker and its child processes, halt_on_error=0, reports de-duplicated by the pair of top gopcua frames) over the concurrent workloads of the other properties plus in-process fan-out workloads",
    "The -race build re-runs slices of the workloads of C10-C12, C16, C18-C20, C25-C29 and C34 with their hook-point delays and in-process fan-out rounds (application goroutines changing values/attributes/adding nodes, auto-reconnecting clients with concurrent requests, subscribe/cancel loops, two subscriptions of one NodeMonitor adding and removing nodes, token renewals on a busy channel, a server-side channel drop); every race report with a gopcua frame is a finding keyed by its site pair.",
    "sees only executed interleavings; socket I/O between two accesses hides races (compensated by the fan-out rounds and hook delays)", "3/C36")

CHECKS["C19"] = ("exploration", "timeout monitor with forced hand-over races: scripted server withholding / timing answers, hook points parking the timed-out caller and the dispatcher, heartbeat-counted durations, pending-slot accessor and post-scenario delivery oracle",
    "Withheld answers, answers within +-20 ms of the caller's timer, forced races (caller parked after its timer fired or its context ended, then the answer arrives; dispatcher parked after taking the handler; the same for a renewal's OpenSecureChannel answer) requests cancelled before they were written followed by a renewal, a renewal whose answer is withheld for good, and a request of many chunks to a peer that has stopped reading; un-forced calls must return within 3 x (timeout + leniency) heartbeats, nothing may stay blocked, no handler slot may remain and 10 later requests must still complete.",
    "heartbeat clock (<= elapsed ms); hook points only between critical sections", "3/C19")

CHECKS["C16"] = ("exploration", "renewal monitor: scripted server with short revised lifetimes stamping issue/renewal events one-sidedly, concurrent callers with hook delays; independent client renewing against the real server under publish traffic incl. requests under the previous token",
    "Client channels: per token exactly renewals (no re-open), none before half of the lifetime (one-sided timing, load cannot cause it), every request issued during three lifetimes answered with its own response, incl. one that stays outstanding until the next renewal has been answered and a caller whose contexts have ended before it sends; the peer gives up a connection on an out-of-order sequence number; all callers must come back. Server: five renewals by the independent client under a 3 ms subscription and concurrent reads, half of them followed by reads sealed with the previous token; everything must be answered and the connection must survive.",
    "late renewals are counted, not asserted (load); real time must pass", "3/C16")
CHECKS["C17"] = ("exploration", "expired-token injection monitor: the independent peer keeps superseded keys and injects a fresh-sequence chunk sealed with them after 1.25 x lifetime + margin, towards the real client (marked value must not be returned) and the real server (node value must not change)",
    "Lifetimes 1 s and 2 s, Sign and SignAndEncrypt, margins 0.5 s and 2 s; controls under the current token precede each injection; in half of the histories the last chunk before the expiry is one under the old token while it is valid; the server case also records that the previous token is accepted while it is valid.",
    "the harness can only be late (token more expired); expiry counted from the peer's own issue stamp", "3/C17")

CHECKS["C21"] = ("exploration", "client robustness monitor: the real client in a child process against a scripted server answering every request with generated decodable responses (shapes, lengths, types, statuses), panic and hang oracle per call",
    "47 client operations incl. node helpers, subscription calls, the background publish loop, the monitor package and the reconnect actions; responses of the expected type with null / empty / short / long arrays and any status, other response types, faults; a quarter of runs also during connect, a third focused on publish responses, a sixth leading the client through session loss into the recreation of its subscriptions, Browse answers with continuation points leading into BrowseNext; no panic in any goroutine, every call returns within 12000 heartbeats of its 800 ms context.",
    "responses generated by the typed generator of C01 (values a server can encode)", "3/C21")
CHECKS["C27"] = ("exploration", "deadlock / progress monitor: scripted server holding the outstanding PublishRequest, concurrent Subscribe / Cancel / ForgetSubscription callers with hook delays, publish outcomes incl. faults, timeouts and connection loss with and without auto-reconnect; heartbeat-counted blocked-call oracle with goroutine dump, publish-progress oracle",
    "1-3 subscriptions, 2-8 concurrent calls (repeated cancels / forgets, unknown ids) while a publish request is outstanding, a second wave during the reconnect or shutdown the outcome sets off; variants: an application that does not read its notifications, and one that calls the API between reads of an unbuffered channel while a reconnect republishes messages; every call returns within 6000 heartbeats, the client settles Connected or Closed, with subscriptions known to both sides a PublishRequest reaches the server, a fresh subscription receives a notification, Close returns.",
    "heartbeat clock; progress is bounded progress (40 publish rounds / 8000 heartbeats)", "3/C27")

CHECKS["C28"] = ("exploration", "attribution / convergence monitor over recorded delivery histories: self-identifying values (node index in every written value), concurrent writer clients, add/remove churn on the node monitor, quiescence comparison with the server's node values",
    "Real server and real client with NodeMonitor channel subscriptions; 1-4 writer connections, 100-1600 unique writes each, nodes added and removed meanwhile in half of the histories, an A-B-A write on every node at the end; every delivered message must name the node its value was written to, and within 6000 heartbeats of the last write the last delivered value per monitored node equals the node's value.",
    "late 'handle not found' messages for just-removed nodes are counted, not attributed; histories with monitor-reported drops are inconclusive", "3/C28")

CHECKS["C26"] = ("exploration", "reconnect monitor with a scripted subscription server (per-session subscriptions, retransmission queues, ledger of sent messages and acknowledgements) and fault injection counted in requests; self-identifying values join the server's ledger with the application's delivery record",
    "1-3 subscriptions x 1-3 items, items created with two TimestampsToReturn values, 1-3 faults (channel loss and session loss with 0-2 notifications lost in flight, restart with id reuse; later faults inside the reconnect or after it), TransferSubscriptions supported / unsupported / invalid; once stably Connected every subscription of the application must receive a new message with all items, everything received must be acknowledged under keep-alive traffic, nothing acknowledged twice on one connection, nothing acknowledged that was not sent or not delivered.",
    "a client that does not get back to a stable Connected state is inconclusive here (C25); sequence numbers keep growing across restarts so that ledger keys stay unique", "3/C26")

CHECKS["C25"] = ("exploration", "lifecycle monitor: fault-injecting TCP proxy between the real client and the real server (child process), state reports recorded through StateChangedFunc and checked online against the documented transition relation, goroutine-dump and connection-attempt oracle after Close",
    "1-4 faults per history (FIN / RST, outages, server restarts, (re)connections cut after 1-1500 bytes or going silent there without being closed, positions drawn per step of the connect sequence, incl. the first connect), Close in steady state, during an outage, right after a fault, after a failed connect and - forced through the hook cl.dial.opened - while a reconnect attempt holds an opened channel; documented transitions only, Connected with a working Read within 20000 heartbeats of the last fault (auto-reconnect), after Close: Closed kept, no connection attempts, no open connection at the proxy, no client goroutines.",
    "Connect is called once per client (as client.go documents); the state after a failed first Connect is recorded, not judged", "3/C25")

NOT_YET = {}


def main():
    props = [json.loads(l) for l in open(os.path.join(VERIF, "properties.jsonl"))]
    hooks = subprocess.run(["git", "-C", "/repo", "log", "--format=%H %s"], stdout=subprocess.PIPE, text=True).stdout.splitlines()
    hook_commits = [l.split()[0] for l in hooks if " verif hook" in l]
    checks, na = [], []
    for p in props:
        pid = p["id"]
        if pid in CHECKS:
            cat, tech, text, note, ref = CHECKS[pid]
            checks.append({
                "property_id": pid,
                "quick_cmd": "./check %s --tier quick" % pid,
                "thorough_cmd": "./check %s --tier thorough" % pid,
                "evidence_file": "/verif/evidence/%s.json" % pid,
                "replay_cmd_template": "./check %s --replay {path}" % pid,
                "engine": "runtime-monitor",
                "level_claimed": {"category": cat, "text": text, "design_ref": "DESIGN.md section " + ref},
                "level_note": note,
                "technique": tech,
            })
        else:
            na.append({"property_id": pid, "reason": NOT_YET.get(pid, "monitor not built yet in this revision of /verif (planned, see DESIGN.md section 3); not claimed until its check exists and is silent on the unchanged tree")})
    m = {
        "version": 1,
        "setup_cmd": "./tools/setup.sh",
        "hooks": {
            "guard": "verif",
            "enable": "go build -tags verif (the harness module in /verif/harness replaces github.com/gopcua/opcua by $VERIF_REPO, default /repo)",
            "baseline_off_cmd": "python3 /verif/tools/baseline.py",
            "source_commits": hook_commits,
            "add_only": True,
        },
        "engines": [{"name": "runtime-monitor", "path": "/verif/harness", "serves_properties": sorted(CHECKS),
                     "kind_free_text": "Go worker processes (one child per batch, write-ahead case journal) driving the real gopcua code under generated, hostile and fault workloads; oracles: differential reference peer, reference models over recorded histories, conservation checkers, invariant hooks, Go race detector; Python driver merges results into evidence"}],
        "checks": checks,
        "not_applicable": na,
        "notes": "All checks rebuild the worker from /repo's working tree with -tags verif on every invocation. VERIF_SEED selects the PRNG seed, VERIF_REPO substitutes another tree. Exit 2 means the check itself is broken or observed too little (never reported as held).",
    }
    with open(os.path.join(VERIF, "MANIFEST.json"), "w") as f:
        json.dump(m, f, indent=1)
    print("MANIFEST.json: %d checks, %d not_applicable" % (len(checks), len(na)))


if __name__ == "__main__":
    main()
